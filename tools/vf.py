"""Shared machinery of the /verif checks.

Every check is  ./check Cxx --tier quick|thorough  ->  tools/props/Cxx.py:run(ctx).
This module provides: regeneration of coq/Gen from /repo, the Coq build
(coq_makefile, full .vo, flock, shell timeout), evaluation of generated case
files inside Coq, Print Assumptions capture, evidence writing, verdicts and the
known-findings file.
"""
import fcntl
import hashlib
import json
import os
import random
import re
import subprocess
import sys
import time

ROOT = os.path.dirname(os.path.dirname(os.path.abspath(__file__)))
COQ = os.path.join(ROOT, "coq")
GEN = os.path.join(COQ, "Gen")
CORR = os.path.join(COQ, "Corr")
BUILD = os.path.join(ROOT, "build")
REPO = os.environ.get("VERIF_REPO", "/repo")
SRC = os.path.join(REPO, "src")
EVID = os.environ.get("VERIF_EVIDENCE_DIR") or os.path.join(ROOT, "evidence")
REPLAYS = os.path.join(ROOT, "replays")
NCPU = int(os.environ.get("VERIF_JOBS", "16"))

if SRC not in sys.path:
    sys.path.insert(0, SRC)
TOOLS = os.path.join(ROOT, "tools")
if TOOLS not in sys.path:
    sys.path.insert(0, TOOLS)


# ---------------------------------------------------------------- files
def write_if_changed(path, text):
    os.makedirs(os.path.dirname(path), exist_ok=True)
    try:
        with open(path) as f:
            if f.read() == text:
                return False
    except FileNotFoundError:
        pass
    tmp = path + ".tmp%d" % os.getpid()
    with open(tmp, "w") as f:
        f.write(text)
    os.replace(tmp, path)
    return True


class CoqLock:
    def __enter__(self):
        os.makedirs(COQ, exist_ok=True)
        self.f = open(os.path.join(COQ, ".lock"), "w")
        fcntl.flock(self.f, fcntl.LOCK_EX)
        return self

    def __exit__(self, *a):
        fcntl.flock(self.f, fcntl.LOCK_UN)
        self.f.close()


def _vfiles():
    out = []
    for d in ("Lib", "Model", "Proofs", "Props", "Gen", "Pinned"):
        p = os.path.join(COQ, d)
        for dirpath, _, files in os.walk(p):
            for fn in sorted(files):
                if fn.endswith(".v"):
                    out.append(os.path.relpath(os.path.join(dirpath, fn), COQ))
    return sorted(out)


def ensure_makefile():
    """(Re)create _CoqProject + Makefile when the set of .v files changed."""
    files = _vfiles()
    listing = "\n".join(files) + "\n"
    changed = write_if_changed(os.path.join(COQ, ".filelist"), listing)
    mk = os.path.join(COQ, "Makefile")
    if changed or not os.path.exists(mk):
        with open(os.path.join(COQ, "_CoqProject"), "w") as f:
            f.write("-Q . GV\n-arg -w -arg -all\n" + listing)
        subprocess.run(["coq_makefile", "-f", "_CoqProject", "-o", "Makefile"],
                       cwd=COQ, check=True, stdout=subprocess.DEVNULL, stderr=subprocess.DEVNULL)
        # stale dependency file would miss new files
        try:
            os.remove(os.path.join(COQ, ".Makefile.d"))
        except FileNotFoundError:
            pass


def coq_make(targets, timeout=1500, jobs=None):
    """Full .vo build of the given targets (paths relative to coq/, .vo).
    Returns (ok, log)."""
    with CoqLock():
        ensure_makefile()
        cmd = ["timeout", str(timeout), "make", "-k", "-j%d" % (jobs or NCPU)] + list(targets)
        p = subprocess.run(cmd, cwd=COQ, stdout=subprocess.PIPE, stderr=subprocess.STDOUT, text=True)
        return p.returncode == 0, p.stdout


def vo_exists(rel):
    return os.path.exists(os.path.join(COQ, rel))


def coqc_text(name, text, timeout=600):
    """Compile a generated file coq/Corr/<name>.v; returns (rc, output)."""
    os.makedirs(CORR, exist_ok=True)
    path = os.path.join(CORR, name + ".v")
    with open(path, "w") as f:
        f.write(text)
    p = subprocess.run(["bash", "-c", "ulimit -s unlimited 2>/dev/null || ulimit -s 1000000 2>/dev/null; exec timeout %d coqc -Q . GV -w -all Corr/%s.v" % (timeout, name)],
                       cwd=COQ, stdout=subprocess.PIPE, stderr=subprocess.STDOUT, text=True)
    for ext in (".v", ".vo", ".vok", ".vos", ".glob"):
        try:
            os.remove(os.path.join(CORR, name + ext))
        except FileNotFoundError:
            pass
    try:
        os.remove(os.path.join(CORR, "." + name + ".aux"))
    except FileNotFoundError:
        pass
    return p.returncode, p.stdout


def coqc_many(named_texts, timeout=600, jobs=None):
    """Compile several generated files in parallel. Returns list of (name, rc, output)."""
    from concurrent.futures import ThreadPoolExecutor
    with ThreadPoolExecutor(max_workers=jobs or NCPU) as ex:
        futs = [(n, ex.submit(coqc_text, n, t, timeout)) for n, t in named_texts]
        return [(n, *f.result()) for n, f in futs]


_RES = re.compile(r"=\s*(.*?)\s*:\s", re.S)


def eval_results(output):
    """Every `Eval vm_compute in e.` prints `= v : T`; return the list of v strings."""
    out = []
    for chunk in re.split(r"\n(?==)|\A(?==)", output):
        m = re.match(r"=\s*(.*?)\n?\s*:\s[^:]*\Z", chunk.strip(), re.S)
        if m:
            out.append(" ".join(m.group(1).split()))
    return out


def parse_coq_list(s):
    """Parse a printed Coq list of numbers / nested lists / tuples into Python."""
    s = s.replace("%Z", "").replace("%nat", "").replace("%N", "").replace("%positive", "")
    s = s.replace(";", ",")
    s = re.sub(r"\btrue\b", "True", s)
    s = re.sub(r"\bfalse\b", "False", s)
    s = re.sub(r"\bSome\b", "", s)
    s = re.sub(r"\bNone\b", "None", s)
    return eval(s, {"__builtins__": {}}, {"None": None, "True": True, "False": False})


# ---------------------------------------------------------------- Coq literals
def zl(xs):
    return "[" + "; ".join(str(int(x)) for x in xs) + "]"


def zb(b):
    return "[" + "; ".join(str(x) for x in bytes(b)) + "]"


def cbool(b):
    return "true" if b else "false"


def cstr(s):
    return '"' + s.replace('"', '""') + '"'


# ---------------------------------------------------------------- theorems in Props
_THM = re.compile(r"^\s*(?:Theorem|Corollary)\s+([A-Za-z0-9_']+)", re.M)


def prop_theorems(pid):
    path = os.path.join(COQ, "Props", pid + ".v")
    with open(path) as f:
        return _THM.findall(f.read())


def print_assumptions(pid, names):
    """Returns {theorem: text}. Runs after Props/<pid>.vo has been built."""
    txt = "Require Import GV.Props.%s.\n" % pid
    for n in names:
        txt += 'Goal True. idtac "@@%s". exact I. Qed.\nPrint Assumptions %s.\n' % (n, n)
    rc, out = coqc_text("assum_" + pid, txt, timeout=900)
    res = {}
    if rc != 0:
        return {n: "ERROR " + out[-400:] for n in names}
    parts = out.split("@@")
    for part in parts[1:]:
        name, _, rest = part.partition("\n")
        res[name.strip()] = " ".join(rest.split())
        # the axioms relied upon: Print Assumptions starts each at the beginning of a line, "name : type" (type possibly continued on indented lines)
        AXIOMS_OF[name.strip()] = [m.group(1) for m in re.finditer(r"^([A-Za-z_][\w.']*)\s*(?::|$)", rest, flags=re.M)
                                   if m.group(1) not in ("Axioms", "Closed")]
    return res


AXIOMS_OF = {}
# axioms the standard library itself declares, which individual theorems may rely on (named in DESIGN.md, trusted base)
STDLIB_AXIOMS = {
    # Coq.Floats.FloatAxioms: the specification of the kernel's primitive binary64 operations
    "FloatAxioms.ltb_spec", "ltb_spec", "FloatAxioms.Prim2SF_valid", "Prim2SF_valid", "FloatAxioms.SF2Prim_Prim2SF", "SF2Prim_Prim2SF",
    "FloatAxioms.Prim2SF_SF2Prim", "Prim2SF_SF2Prim", "FloatAxioms.compare_spec", "compare_spec",
    "FloatAxioms.eqb_spec", "eqb_spec", "FloatAxioms.abs_spec", "abs_spec", "FloatAxioms.leb_spec", "leb_spec", "FloatAxioms.opp_spec", "opp_spec",
    "Classical_Prop.classic", "classic",
    # Coq.Reals (Flocq's real-number semantics of binary64)
    "ClassicalDedekindReals.sig_forall_dec", "sig_forall_dec", "ClassicalDedekindReals.sig_not_dec", "sig_not_dec",
    "FunctionalExtensionality.functional_extensionality_dep", "functional_extensionality_dep",
}


_FORBIDDEN = re.compile(r"\b(Admitted|admit|Axiom|Axioms|Parameter|Parameters|Conjecture|Hypothesis|Variable|Variables|Hypotheses)\b|Unset\s+Guard|bypass_check|Admit\s+Obligations|native_compute|type-in-type|impredicative-set")


def forbidden_scan():
    """Textual scan of the hand-written development: no axioms, no admits.
    Variable/Hypothesis are allowed inside a Section only."""
    bad = []
    for rel in _vfiles():
        if rel.startswith("Gen/"):
            allow_sections = False
        else:
            allow_sections = True
        depth = 0
        with open(os.path.join(COQ, rel)) as f:
            text = f.read()
        text = re.sub(r"\(\*.*?\*\)", " ", text, flags=re.S)
        for ln, line in enumerate(text.split("\n"), 1):
            if re.match(r"\s*Section\b", line):
                depth += 1
            if re.match(r"\s*End\b", line) and depth > 0:
                depth -= 1
            for m in _FORBIDDEN.finditer(line):
                w = m.group(0)
                if w.split()[0] in ("Variable", "Variables", "Hypothesis", "Hypotheses") and depth > 0 and allow_sections:
                    continue
                bad.append("%s:%d:%s" % (rel, ln, w))
    return bad


# ---------------------------------------------------------------- known findings
def load_known():
    p = os.path.join(ROOT, "known_findings.json")
    try:
        with open(p) as f:
            return json.load(f)
    except FileNotFoundError:
        return {"findings": []}


# ---------------------------------------------------------------- run context
# generated Coq files per extractor (prefix match), and the extractors a driver also uses directly from Python
GEN_FILES = {"counter": ("Gen/Counter.v",), "seq_sites": ("Gen/SeqSites.v",), "tables": ("Gen/Tables/", "Gen/AllTables.v", "Gen/Labels.v", "Gen/PinCheck.v"),
             "lifecycle_rules": ("Gen/LifecycleRules.v",), "config_tables": ("Gen/ConfigTables.v",), "snapshots": ("Gen/Snapshots.v",),
             "inventory_tables": ("Gen/InventoryTables.v",), "ledger_facts": ("Gen/LedgerFacts.v",), "dispatch_facts": ("Gen/DispatchFacts.v",)}
PY_GENS = {"C02": ("tables",), "C03": ("tables",), "C11": ("tables",), "C12": ("tables", "inventory_tables"), "C13": ("tables",), "C18": ("tables",),
           "C19": ("snapshots",), "C07": ("dispatch_facts",), "C17": ("config_tables",), "C16": ("counter", "seq_sites")}


def dep_closure(targets):
    """source files (relative to coq/) the given .vo targets depend on, transitively, from coq_makefile's dependency file"""
    deps = {}
    try:
        for line in open(os.path.join(COQ, ".Makefile.d")):
            if ":" not in line:
                continue
            lhs, rhs = line.split(":", 1)
            outs = lhs.split()
            if not outs or not outs[0].endswith(".vo"):
                continue
            deps[outs[0]] = [x for x in rhs.split() if x.endswith(".vo") or x.endswith(".v")]
    except OSError:
        return set()
    seen, todo = set(), list(targets)
    while todo:
        t = todo.pop()
        if t in seen:
            continue
        seen.add(t)
        for d in deps.get(t, []):
            if d.endswith(".vo"):
                todo.append(d)
            else:
                seen.add(d)
    return {x[:-1] if x.endswith(".vo") else x for x in seen}


class Ctx:
    def __init__(self, pid, tier, seed):
        self.pid = pid
        self.tier = tier
        self.seed = seed
        self.rng = random.Random(seed * 1000003 + int(hashlib.sha1(pid.encode()).hexdigest()[:6], 16))
        self.t0 = time.time()
        self.obligations = []      # (name, ok, detail)
        self.failures = []         # dict(kind, key, what, replay)
        self.broken = []           # names of broken proof/correspondence obligations
        self.evaluations = 0
        self.distinct = set()
        self.samples = []
        self.rule = ""
        self.dist = {}
        self.assumptions_text = {}
        self.trusted = []
        self.assume = []
        self.extra = {}
        self.exhaustive = False
        self.known = [k for k in load_known().get("findings", []) if k.get("property") == pid]
        self.thorough = tier == "thorough"

    # -- counters
    def count(self, key, n=1):
        self.dist[key] = self.dist.get(key, 0) + n

    def case(self, canon, nontrivial=True):
        self.evaluations += 1
        if nontrivial:
            self.distinct.add(canon if isinstance(canon, (str, int, tuple)) else json.dumps(canon, sort_keys=True, default=str))

    def sample(self, s, limit=6):
        if len(self.samples) < limit:
            self.samples.append(s)

    # -- obligations
    def oblige(self, name, ok, detail=""):
        self.obligations.append((name, bool(ok), detail))
        if not ok:
            self.broken.append(name)
        return ok

    def fail(self, key, what, replay_obj):
        """A concrete failing input against the implementation."""
        self.failures.append({"key": key, "what": what, "replay": replay_obj})

    # -- proof step
    def prove(self, extra_targets=(), timeout=1500):
        pid = self.pid
        import gen_all
        gen_status = gen_all.regen_all()
        bad = forbidden_scan()
        self.oblige("no_axioms_no_admits_scan", not bad, "; ".join(bad[:5]))
        # what this property needs: its statements and proofs, and every Coq module its correspondence driver evaluates
        # (read off the driver's own headers) - each with everything it depends on, and nothing else: a change that only
        # concerns another property's model or extractor must not make this check fail
        targets = ["Props/%s.vo" % pid] + list(extra_targets)
        try:
            src = open(os.path.join(TOOLS, "props", pid + ".py")).read()
            for mod in sorted(set(re.findall(r"GV\.((?:Model|Gen|Lib|Proofs|Pinned)\.[A-Za-z0-9_]+(?:\.[A-Za-z0-9_]+)*)", src))):
                rel = mod.replace(".", "/") + ".vo"
                if os.path.exists(os.path.join(COQ, rel[:-1])) and rel not in targets:
                    targets.append(rel)
        except OSError:
            pass
        self.extra["coq_targets"] = targets
        ok, log = coq_make(targets, timeout=timeout)
        needed = dep_closure(targets)          # after the build: coqdep has refreshed the dependency file
        for g, err in gen_status.items():
            files = GEN_FILES.get(g, ())
            relevant = any(n.startswith(f) for n in needed for f in files) or g in PY_GENS.get(pid, ())
            if relevant:
                self.oblige("gen:" + g, err is None, err or "")
        names = prop_theorems(pid)
        built = vo_exists("Props/%s.vo" % pid) and ok
        if not built:
            err = _first_error(log)
            for n in names:
                self.oblige("theorem:" + n, False, err)
            self.extra["build_error"] = err
            return False
        assum = print_assumptions(pid, names)
        self.assumptions_text = assum
        for n in names:
            a = assum.get(n, "missing")
            okk = not a.startswith("ERROR") and a != "missing"
            if okk and not a.startswith("Closed under the global context"):
                # not closed: every axiom must be one the standard library declares, and the theorem must be listed as relying on such
                # the kernel's primitive machine integers / binary64 floats are listed by Print Assumptions too: they are primitives, not axioms
                allax = AXIOMS_OF.get(n, [])
                ax = [x for x in allax if not (x.startswith("PrimInt63.") or x.startswith("PrimFloat."))]
                if not ax:
                    okk = bool(allax)
                    a = "Closed under the global context but for the kernel's primitive int63 / binary64 operations (%d listed)" % len(allax)
                else:
                    okk = all(x in STDLIB_AXIOMS for x in ax) and n in getattr(self, "may_use_stdlib_axioms", ())
                    a = ("relies on axioms declared by the standard library: " + ", ".join(ax) + " (and the kernel's primitive int63 / binary64 operations)") if okk \
                        else ("NOT CLOSED (axioms: %s) " % ", ".join(ax)) + a
            self.oblige("theorem:" + n, okk, a[:300])
        if self.thorough and not os.environ.get("VERIF_SKIP_COQCHK"):
            # independent re-check of the compiled property file and everything it depends on; -o prints the axioms relied upon
            with CoqLock():
                try:
                    p = subprocess.run(["timeout", "600", "coqchk", "-silent", "-o", "-Q", ".", "GV", "GV.Props.%s" % pid], cwd=COQ,
                                       stdout=subprocess.PIPE, stderr=subprocess.STDOUT, text=True)
                    out = p.stdout
                    rc = p.returncode
                except Exception as e:  # noqa
                    out, rc = repr(e), 1
            tail = out[out.find("CONTEXT SUMMARY"):] if "CONTEXT SUMMARY" in out else out[-1500:]
            self.extra["coqchk"] = " ".join(tail.split())[:1500]
            axioms_ok = "Axioms: <none>" in " ".join(tail.split()) or bool(re.search(r"Axioms:\s*(\* )?(Coq\.(Floats|Numbers)[^ ]* ?)*($|\* Constants)", " ".join(tail.split())))
            if rc == 124:
                # the checker re-evaluates the vm_compute sweeps with its own, slower conversion: not finishing in 10 minutes is recorded, not counted
                self.extra["coqchk"] = "timed out after 600 s (the finite sweeps of this property are re-evaluated by coqchk's own conversion)"
            else:
                self.oblige("coqchk:modules_rechecked", rc == 0, tail[-300:] if rc else "")
            self.extra["coqchk_axioms_none_or_primitive_only"] = axioms_ok
        return True

    # -- model evaluation (correspondence)
    def coq_cases(self, name, header, exprs, timeout=900, shard=400):
        """exprs: list of Coq boolean expressions (true = model agrees with impl).
        Evaluated in shards; returns list of bool (None where the shard failed)."""
        shards = []
        for i in range(0, len(exprs), shard):
            body = header + "\nDefinition cases : list bool := [\n" + ";\n".join(exprs[i:i + shard]) + "\n].\n"
            body += "Definition failing := (fix go (i:nat) (l:list bool) : list nat := match l with [] => [] | b :: r => if b then go (S i) r else i :: go (S i) r end) O cases.\n"
            body += "Eval vm_compute in (List.length cases, failing).\n"
            shards.append(("%s_%s_%d" % (self.pid, name, i // shard), body))
        res = []
        outs = coqc_many(shards, timeout=timeout)
        for k, (n, rc, out) in enumerate(outs):
            cnt = min(shard, len(exprs) - k * shard)
            if rc != 0:
                errs = self.extra.setdefault("coq_errors", [])
                if len(errs) < 3:
                    errs.append(_first_error(out))
                res.extend([None] * cnt)
                continue
            vals = eval_results(out)
            try:
                ln, failing = parse_coq_list(vals[-1])
                assert ln == cnt
                fs = set(failing)
                res.extend([(j not in fs) for j in range(cnt)])
            except Exception as e:  # noqa
                self.extra.setdefault("coq_errors", []).append("parse: %r %r" % (e, out[-300:]))
                res.extend([None] * cnt)
        return res

    # -- verdict
    def finish(self):
        os.makedirs(EVID, exist_ok=True)
        os.makedirs(REPLAYS, exist_ok=True)
        import glob as _glob
        for old in _glob.glob(os.path.join(REPLAYS, self.pid + "_*.json")):
            os.remove(old)
        lines = []
        known_open = {k["key"]: k for k in self.known if k.get("status") == "open"}
        unlisted = []
        seen_known = {}
        for f in self.failures:
            if f["key"] in known_open:
                seen_known.setdefault(f["key"], f)
            else:
                unlisted.append(f)
        for key, f in sorted(seen_known.items()):
            lines.append("KNOWN-FINDING: property=%s %s [%s]" % (self.pid, known_open[key]["what"], key))
        rc = 0
        nviol = 0
        if unlisted:
            rc = 1
            byk = {}
            for f in unlisted:
                byk.setdefault(f["key"], f)
            for i, (key, f) in enumerate(sorted(byk.items())):
                nviol += 1
                path = os.path.join(REPLAYS, "%s_%d.json" % (self.pid, i))
                with open(path, "w") as fh:
                    json.dump({"property": self.pid, "key": key, "what": f["what"], "replay": f["replay"],
                               "broken_obligations": self.broken, "seed": self.seed, "tier": self.tier},
                              fh, indent=1, default=str)
                lines.append("VIOLATION property=%s replay=%s" % (self.pid, path))
        elif self.broken:
            rc = 1
            nviol = 1
            path = os.path.join(REPLAYS, "%s_broken.json" % self.pid)
            with open(path, "w") as fh:
                json.dump({"property": self.pid, "no_failing_input_found": True,
                           "broken_obligations": [(n, d) for (n, ok, d) in self.obligations if not ok],
                           "extra": self.extra, "seed": self.seed, "tier": self.tier}, fh, indent=1, default=str)
            lines.append("VIOLATION property=%s replay=%s no-failing-input-found" % (self.pid, path))
        nob = len(self.obligations)
        ndis = sum(1 for (_, ok, _) in self.obligations if ok)
        cov = {
            "obligations": nob, "discharged": ndis,
            "checker_cmd": "coq_makefile + make Props/%s.vo (coqc 8.16.1, full .vo) ; Print Assumptions per theorem ; coqc Corr/cases (vm_compute) for the correspondence" % self.pid,
            "trusted_base": ["Coq 8.16.1 kernel + vm_compute", "tools/gen extractors", "tools/props/%s.py correspondence driver" % self.pid,
                             "CPython / asyncio / struct / re as modelled"] + self.trusted,
            "evaluations": max(self.evaluations, 1) if self.evaluations else 0,
            "distinct_nontrivial": len(self.distinct),
            "rule": self.rule,
            "samples": self.samples[:8] or ["(none)"],
            "exhaustive": self.exhaustive,
            "input_distribution": self.dist,
            "obligation_list": [{"name": n, "ok": ok, "detail": d} for (n, ok, d) in self.obligations][:400],
            "print_assumptions": self.assumptions_text,
            "known_findings_reproduced": sorted(seen_known),
        }
        cov.update(self.extra)
        ev = {"property_id": self.pid, "tier": self.tier, "seed": self.seed, "level": "proof",
              "coverage": cov, "assumptions": self.assume, "wall_s": round(time.time() - self.t0, 2),
              "violations": nviol}
        with open(os.path.join(EVID, self.pid + ".json"), "w") as fh:
            json.dump(ev, fh, indent=1, default=str)
        for l in lines:
            print(l)
        print("%s %s: obligations %d/%d, cases %d (%d distinct non-trivial), %.1fs -> %s" % (
            self.pid, self.tier, ndis, nob, self.evaluations, len(self.distinct), time.time() - self.t0,
            "OK" if rc == 0 else "FAIL"))
        return rc


def _first_error(log):
    m = re.search(r'(File "[^"]+", line \d+.*?\nError:.*?)(?:\n\n|\nmake|\Z)', log, re.S)
    if m:
        return " ".join(m.group(1).split())[:600]
    return " ".join(log[-600:].split())
