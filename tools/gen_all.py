"""Regenerate everything under coq/Gen from the current /repo working tree."""
import vf


def regen_all():
    import gen_counter
    gen_counter.gen_counter()
    gen_counter.gen_sites()


if __name__ == "__main__":
    regen_all()
