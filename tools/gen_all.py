"""Regenerate everything under coq/Gen from the current /repo working tree.
Every check calls this first, so that theorems are always re-checked against what the code says now."""
import time
import traceback

import vf

_done = {}


def regen_all(force=False):
    """Returns {generator: None | error text}. Fail-closed: an extractor error is reported, never guessed around."""
    if _done and not force:
        return _done
    import gen_counter
    import gen_tables
    gens = [("counter", gen_counter.gen_counter), ("seq_sites", gen_counter.gen_sites), ("tables", gen_tables.gen_tables)]
    import gen_lifecycle
    gens.append(("lifecycle_rules", gen_lifecycle.gen_lifecycle))
    try:
        import gen_misc
        gens += gen_misc.GENERATORS
    except ImportError:
        pass
    for name, fn in gens:
        t = time.time()
        try:
            fn()
            _done[name] = None
        except Exception:
            _done[name] = traceback.format_exc()[-600:]
    return _done


if __name__ == "__main__":
    for k, v in regen_all().items():
        print(k, "ok" if v is None else v)
