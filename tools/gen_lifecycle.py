"""C08 extractor (fail-closed): the event pre-processing switch of GeckoAsyncSpaMan._handle_event as a rule table,
async_reset / the phase methods as checked shapes, the state and event enumerations and GeckoSpaState.to_string
 -> coq/Gen/LifecycleRules.v"""
import ast
import os

import vf


class Unsupported(Exception):
    pass


def _state(node):
    if isinstance(node, ast.Attribute) and isinstance(node.value, ast.Name) and node.value.id == "GeckoSpaState":
        return node.attr
    raise Unsupported("state expected: " + ast.dump(node))


def _event(node):
    if isinstance(node, ast.Attribute) and isinstance(node.value, ast.Name) and node.value.id == "GeckoSpaEvent":
        return node.attr
    raise Unsupported("event expected: " + ast.dump(node))


def _is_self_attr(node, name):
    return isinstance(node, ast.Attribute) and isinstance(node.value, ast.Name) and node.value.id == "self" and node.attr == name


def _test_events(test):
    if isinstance(test, ast.Compare) and len(test.ops) == 1 and isinstance(test.left, ast.Name) and test.left.id == "event":
        if isinstance(test.ops[0], ast.Eq):
            return [_event(test.comparators[0])]
        if isinstance(test.ops[0], ast.In) and isinstance(test.comparators[0], ast.Tuple):
            return [_event(e) for e in test.comparators[0].elts]
    raise Unsupported("event test: " + ast.dump(test))


def _actions(body):
    """statement list -> list of action terms (Coq syntax)"""
    acts = []
    for s in body:
        if isinstance(s, ast.Assign) and len(s.targets) == 1 and _is_self_attr(s.targets[0], "_spa_state"):
            acts.append("ASet %s" % _state(s.value))
        elif isinstance(s, ast.Assign) and len(s.targets) == 1 and isinstance(s.targets[0], ast.Attribute) and s.targets[0].attr in (
                "_reconnect_button", "_ping_sensor", "_radio_sensor", "_channel_sensor"):
            acts.append("ASensor")
        elif isinstance(s, ast.Expr) and isinstance(s.value, ast.Await) and isinstance(s.value.value, ast.Call):
            c = s.value.value
            fn = ast.unparse(c.func)
            if fn == "self._handle_event" and len(c.args) == 1 and not c.keywords:
                acts.append("ANest %s" % _event(c.args[0]))
            elif fn == "self.async_reset" and not c.args:
                acts.append("AReset")
            else:
                raise Unsupported("await " + fn)
        elif isinstance(s, ast.Expr) and isinstance(s.value, ast.Call) and ast.unparse(s.value.func) in (
                "self._radio_sensor.set_signal", "self._channel_sensor.set_channel"):
            acts.append("ASensor")
        elif isinstance(s, ast.Expr) and isinstance(s.value, ast.Call) and ast.unparse(s.value.func) == "self.facade._water_care.change_watercare_mode":
            acts.append("AWatercare")
        elif isinstance(s, ast.Assert):
            continue
        else:
            raise Unsupported("statement: " + ast.dump(s)[:200])
    return acts


def _guarded(body):
    """a branch is a flat action list, optionally under ONE guard on the state or on the facade"""
    stmts = [x for x in body if not isinstance(x, ast.Assert)]
    if len(stmts) == 1 and isinstance(stmts[0], ast.If) and not stmts[0].orelse:
        t = stmts[0].test
        if isinstance(t, ast.Compare) and len(t.ops) == 1 and _is_self_attr(t.left, "_spa_state"):
            if isinstance(t.ops[0], ast.Eq):
                g = "GState [%s]" % _state(t.comparators[0])
            elif isinstance(t.ops[0], ast.In) and isinstance(t.comparators[0], ast.Tuple):
                g = "GState [%s]" % "; ".join(_state(e) for e in t.comparators[0].elts)
            else:
                raise Unsupported(ast.dump(t))
        elif isinstance(t, ast.Compare) and len(t.ops) == 1 and isinstance(t.ops[0], ast.IsNot) and _is_self_attr(t.left, "_facade") \
                and isinstance(t.comparators[0], ast.Constant) and t.comparators[0].value is None:
            g = "GFacade"
        else:
            raise Unsupported("guard: " + ast.dump(t))
        return g, _actions(stmts[0].body)
    return "GNone", _actions(stmts)


def _method(cls, name):
    for n in cls.body:
        if isinstance(n, (ast.FunctionDef, ast.AsyncFunctionDef)) and n.name == name:
            return n
    raise Unsupported("no method " + name)


def extract():
    path = os.path.join(vf.SRC, "geckolib", "async_spa_manager.py")
    tree = ast.parse(open(path).read())
    cls = [n for n in tree.body if isinstance(n, ast.ClassDef) and n.name == "GeckoAsyncSpaMan"][0]
    he = _method(cls, "_handle_event")
    body = list(he.body)
    # 1. status sensor creation block
    s0 = body.pop(0)
    if not (isinstance(s0, ast.If) and "self._status_sensor is None" in ast.unparse(s0.test)):
        raise Unsupported("status sensor block")
    ss_body = [x for x in s0.body]
    if not (len(ss_body) == 2 and ast.unparse(ss_body[1]).strip() == "await self._handle_event(GeckoSpaEvent.CLIENT_HAS_STATUS_SENSOR)"):
        raise Unsupported("status sensor block body")
    # 2. the switch
    sw = body.pop(0)
    rules = []
    node = sw
    while True:
        if not isinstance(node, ast.If):
            raise Unsupported("switch shape")
        rules.append((_test_events(node.test),) + _guarded(node.body))
        if not node.orelse:
            break
        if len(node.orelse) != 1:
            raise Unsupported("else branch in the switch")
        node = node.orelse[0]
    # 3. sensor update, client call
    rest = [ast.unparse(x).strip() for x in body]
    want = ["if self._status_sensor is not None:\n    self._status_sensor.on_event(event)", "await self.handle_event(event, **kwargs)"]
    if rest != want:
        raise Unsupported("tail of _handle_event: %r" % rest)
    # async_reset shape
    ar = [ast.unparse(x).strip() for x in _method(cls, "async_reset").body if not (isinstance(x, ast.Expr) and isinstance(x.value, ast.Constant))]
    reset_shapes = {
        "original": ["self._spa_descriptors = None",
                     "if self._facade is not None:\n    await self._facade.disconnect()\n    self._facade = None",
                     "if self._spa is not None:\n    await self._spa.disconnect()\n    self._spa = None",
                     "self._spa_state = GeckoSpaState.IDLE"],
        "facade_cleared_last": ["self._spa_descriptors = None",
                                "if self._facade is not None:\n    await self._facade.disconnect()",
                                "if self._spa is not None:\n    await self._spa.disconnect()\n    self._spa = None",
                                "self._facade = None",
                                "self._spa_state = GeckoSpaState.IDLE"],
    }
    shape = [k for k, v in reset_shapes.items() if v == ar]
    if not shape:
        raise Unsupported("async_reset has an unknown shape: %r" % ar)
    # phases: try / finally with the started / finished events
    def phase(name, started, finished):
        m = _method(cls, name)
        tries = [x for x in m.body if isinstance(x, ast.Try)]
        if len(tries) != 1 or not tries[0].finalbody:
            raise Unsupported(name + ": no try/finally")
        t = tries[0]
        first = [x for x in t.body if isinstance(x, ast.Expr) and isinstance(x.value, ast.Await)]
        if not first or started not in ast.unparse(first[0]):
            raise Unsupported(name + ": started event not first await in try")
        if finished not in ast.unparse(t.finalbody[0]):
            raise Unsupported(name + ": finished event not in finally")
        return True
    phase("async_locate_spas", "GeckoSpaEvent.LOCATING_STARTED", "GeckoSpaEvent.LOCATING_FINISHED")
    phase("async_connect_to_spa", "GeckoSpaEvent.CONNECTION_STARTED", "GeckoSpaEvent.CONNECTION_FINISHED")
    cts = ast.unparse(_method(cls, "async_connect_to_spa"))
    if "if self._spa_state == GeckoSpaState.SPA_READY:\n            self._facade = GeckoAsyncFacade(self._spa, self)" not in cts:
        raise Unsupported("facade construction guard changed")
    return rules, shape[0]


def gen_lifecycle():
    from geckolib.spa_state import GeckoSpaState
    from geckolib.spa_events import GeckoSpaEvent
    rules, reset_shape = extract()
    states = [s.name for s in GeckoSpaState]
    events = [e.name for e in GeckoSpaEvent]
    t = "(* GENERATED from /repo (async_spa_manager.py AST, spa_state.py, spa_events.py) by tools/gen_lifecycle.py - do not edit *)\n"
    t += "From Coq Require Import List String Bool.\nImport ListNotations.\nOpen Scope string_scope.\n\n"
    t += "Inductive sstate := " + " | ".join(states) + ".\n"
    t += "Inductive event := " + " | ".join(events) + ".\n"
    t += "Definition all_states : list sstate := [" + "; ".join(states) + "].\n"
    t += "Definition all_events : list event := [" + "; ".join(events) + "].\n"
    t += "Definition sstate_eqb (a b : sstate) : bool := match a, b with " + " | ".join("%s, %s" % (s, s) for s in states) + " => true | _, _ => false end.\n"
    t += "Definition event_eqb (a b : event) : bool := match a, b with " + " | ".join("%s, %s" % (s, s) for s in events) + " => true | _, _ => false end.\n"
    t += "Definition state_text (s : sstate) : string := match s with " + " | ".join("%s => %s" % (s.name, vf.cstr(GeckoSpaState.to_string(s))) for s in GeckoSpaState) + " end.\n\n"
    t += "Inductive action := ASet (s : sstate) | ANest (e : event) | AReset | ASensor | AWatercare.\n"
    t += "Inductive guard := GNone | GState (g : list sstate) | GFacade.\n"
    t += "(* the if / elif chain of _handle_event: first matching branch; (events, guard, actions) *)\n"
    t += "Definition rules : list (list event * guard * list action) := [\n" + ";\n".join("  ([%s], %s, [%s])" % ("; ".join(ev), g, "; ".join(ac)) for ev, g, ac in rules) + "\n].\n"
    t += "(* async_reset: true = self._facade is cleared only after the spa has been disconnected *)\n"
    t += "Definition reset_clears_facade_last : bool := %s.\n" % vf.cbool(reset_shape == "facade_cleared_last")
    vf.write_if_changed(os.path.join(vf.GEN, "LifecycleRules.v"), t)
    return rules, reset_shape


if __name__ == "__main__":
    r, s = gen_lifecycle()
    for x in r:
        print(x)
    print(s)
