"""C08 extractor (fail-closed): the event pre-processing switch of GeckoAsyncSpaMan._handle_event as a rule table,
async_reset / the phase methods as checked shapes, the state and event enumerations and GeckoSpaState.to_string
 -> coq/Gen/LifecycleRules.v"""
import ast
import os

import vf


class Unsupported(Exception):
    pass


def _state(node):
    if isinstance(node, ast.Attribute) and isinstance(node.value, ast.Name) and node.value.id == "GeckoSpaState":
        return node.attr
    raise Unsupported("state expected: " + ast.dump(node))


def _event(node):
    if isinstance(node, ast.Attribute) and isinstance(node.value, ast.Name) and node.value.id == "GeckoSpaEvent":
        return node.attr
    raise Unsupported("event expected: " + ast.dump(node))


def _is_self_attr(node, name):
    return isinstance(node, ast.Attribute) and isinstance(node.value, ast.Name) and node.value.id == "self" and node.attr == name


def _test_events(test):
    if isinstance(test, ast.Compare) and len(test.ops) == 1 and isinstance(test.left, ast.Name) and test.left.id == "event":
        if isinstance(test.ops[0], ast.Eq):
            return [_event(test.comparators[0])]
        if isinstance(test.ops[0], ast.In) and isinstance(test.comparators[0], ast.Tuple):
            return [_event(e) for e in test.comparators[0].elts]
    raise Unsupported("event test: " + ast.dump(test))


def _is_log(s):
    """a logging statement (no effect on the model)"""
    return isinstance(s, ast.Expr) and isinstance(s.value, ast.Call) and ast.unparse(s.value.func).startswith("_LOGGER.")


def _actions(body):
    """statement list -> list of action terms (Coq syntax)"""
    acts = []
    for s in body:
        if _is_log(s):
            continue
        if isinstance(s, ast.Assign) and len(s.targets) == 1 and _is_self_attr(s.targets[0], "_spa_state"):
            acts.append("ASet %s" % _state(s.value))
        elif isinstance(s, ast.Assign) and len(s.targets) == 1 and isinstance(s.targets[0], ast.Attribute) and s.targets[0].attr in (
                "_reconnect_button", "_ping_sensor", "_radio_sensor", "_channel_sensor"):
            acts.append("ASensor")
        elif isinstance(s, ast.Expr) and isinstance(s.value, ast.Await) and isinstance(s.value.value, ast.Call):
            c = s.value.value
            fn = ast.unparse(c.func)
            if fn == "self._handle_event" and len(c.args) == 1 and not c.keywords:
                acts.append("ANest %s" % _event(c.args[0]))
            elif fn == "self.async_reset" and not c.args:
                acts.append("AReset")
            else:
                raise Unsupported("await " + fn)
        elif isinstance(s, ast.Expr) and isinstance(s.value, ast.Call) and ast.unparse(s.value.func) in (
                "self._radio_sensor.set_signal", "self._channel_sensor.set_channel"):
            acts.append("ASensor")
        elif isinstance(s, ast.Expr) and isinstance(s.value, ast.Call) and ast.unparse(s.value.func) == "self.facade._water_care.change_watercare_mode":
            acts.append("AWatercare")
        elif isinstance(s, ast.Assert):
            continue
        else:
            raise Unsupported("statement: " + ast.dump(s)[:200])
    return acts


def _guarded(body):
    """a branch is a flat action list, optionally under ONE guard on the state or on the facade"""
    stmts = [x for x in body if not isinstance(x, ast.Assert) and not _is_log(x)]
    if len(stmts) == 1 and isinstance(stmts[0], ast.If) and not stmts[0].orelse:
        t = stmts[0].test
        if isinstance(t, ast.Compare) and len(t.ops) == 1 and _is_self_attr(t.left, "_spa_state"):
            if isinstance(t.ops[0], ast.Eq):
                g = "GState [%s]" % _state(t.comparators[0])
            elif isinstance(t.ops[0], ast.In) and isinstance(t.comparators[0], ast.Tuple):
                g = "GState [%s]" % "; ".join(_state(e) for e in t.comparators[0].elts)
            else:
                raise Unsupported(ast.dump(t))
        elif isinstance(t, ast.Compare) and len(t.ops) == 1 and isinstance(t.ops[0], ast.IsNot) and _is_self_attr(t.left, "_facade") \
                and isinstance(t.comparators[0], ast.Constant) and t.comparators[0].value is None:
            g = "GFacade"
        else:
            raise Unsupported("guard: " + ast.dump(t))
        return g, _actions(stmts[0].body)
    return "GNone", _actions(stmts)


def _method(cls, name):
    for n in cls.body:
        if isinstance(n, (ast.FunctionDef, ast.AsyncFunctionDef)) and n.name == name:
            return n
    raise Unsupported("no method " + name)


def extract():
    path = os.path.join(vf.SRC, "geckolib", "async_spa_manager.py")
    tree = ast.parse(open(path).read())
    cls = [n for n in tree.body if isinstance(n, ast.ClassDef) and n.name == "GeckoAsyncSpaMan"][0]
    he = _method(cls, "_handle_event")
    body = list(he.body)
    # 1. status sensor creation block
    s0 = body.pop(0)
    if not (isinstance(s0, ast.If) and "self._status_sensor is None" in ast.unparse(s0.test)):
        raise Unsupported("status sensor block")
    ss_body = [x for x in s0.body]
    if not (len(ss_body) == 2 and ast.unparse(ss_body[1]).strip() == "await self._handle_event(GeckoSpaEvent.CLIENT_HAS_STATUS_SENSOR)"):
        raise Unsupported("status sensor block body")
    # 2. the switch
    sw = body.pop(0)
    rules = []
    node = sw
    while True:
        if not isinstance(node, ast.If):
            raise Unsupported("switch shape")
        rules.append((_test_events(node.test),) + _guarded(node.body))
        if not node.orelse:
            break
        if len(node.orelse) != 1:
            raise Unsupported("else branch in the switch")
        node = node.orelse[0]
    # 3. sensor update, client call
    rest = [ast.unparse(x).strip() for x in body]
    want = ["if self._status_sensor is not None:\n    self._status_sensor.on_event(event)", "await self.handle_event(event, **kwargs)"]
    if rest != want:
        raise Unsupported("tail of _handle_event: %r" % rest)
    # async_reset shape
    ar = [ast.unparse(x).strip() for x in _method(cls, "async_reset").body if not (isinstance(x, ast.Expr) and isinstance(x.value, ast.Constant))]
    reset_shapes = {
        "original": ["self._spa_descriptors = None",
                     "if self._facade is not None:\n    await self._facade.disconnect()\n    self._facade = None",
                     "if self._spa is not None:\n    await self._spa.disconnect()\n    self._spa = None",
                     "self._spa_state = GeckoSpaState.IDLE"],
        "facade_cleared_last": ["self._spa_descriptors = None",
                                "if self._facade is not None:\n    await self._facade.disconnect()",
                                "if self._spa is not None:\n    await self._spa.disconnect()\n    self._spa = None",
                                "self._facade = None",
                                "self._spa_state = GeckoSpaState.IDLE"],
        "facade_cleared_last_descriptors_twice": ["self._spa_descriptors = None",
                                                  "if self._facade is not None:\n    await self._facade.disconnect()",
                                                  "if self._spa is not None:\n    await self._spa.disconnect()\n    self._spa = None",
                                                  "self._facade = None",
                                                  "self._spa_descriptors = None",
                                                  "self._spa_state = GeckoSpaState.IDLE"],
        "facade_cleared_last_descriptors_twice_loop": ["self._spa_descriptors = None",
                                                       "if self._facade is not None:\n    await self._facade.disconnect()",
                                                       "while self._spa is not None:\n    spa = self._spa\n    await spa.disconnect()\n    if self._spa is spa:\n        self._spa = None",
                                                       "self._facade = None",
                                                       "self._spa_descriptors = None",
                                                       "self._spa_state = GeckoSpaState.IDLE"],
        "facade_cleared_last_descriptors_twice_facade_again": ["self._spa_descriptors = None",
                                                               "if self._facade is not None:\n    await self._facade.disconnect()",
                                                               "if self._spa is not None:\n    await self._spa.disconnect()\n    self._spa = None",
                                                               "if self._facade is not None:\n    await self._facade.disconnect()",
                                                               "self._facade = None",
                                                               "self._spa_descriptors = None",
                                                               "self._spa_state = GeckoSpaState.IDLE"],
    }
    shape = [k for k, v in reset_shapes.items() if v == ar]
    if not shape:
        raise Unsupported("async_reset has an unknown shape: %r" % ar)
    # phases: try / finally with the started / finished events
    def phase(name, started, finished):
        m = _method(cls, name)
        tries = [x for x in m.body if isinstance(x, ast.Try)]
        if len(tries) != 1 or not tries[0].finalbody:
            raise Unsupported(name + ": no try/finally")
        t = tries[0]
        first = [x for x in t.body if isinstance(x, ast.Expr) and isinstance(x.value, ast.Await)]
        if not first or started not in ast.unparse(first[0]):
            raise Unsupported(name + ": started event not first await in try")
        if finished not in ast.unparse(t.finalbody[0]):
            raise Unsupported(name + ": finished event not in finally")
        return True
    phase("async_locate_spas", "GeckoSpaEvent.LOCATING_STARTED", "GeckoSpaEvent.LOCATING_FINISHED")
    phase("async_connect_to_spa", "GeckoSpaEvent.CONNECTION_STARTED", "GeckoSpaEvent.CONNECTION_FINISHED")
    cts = ast.unparse(_method(cls, "async_connect_to_spa"))
    if "if self._spa_state == GeckoSpaState.SPA_READY:\n            self._facade = GeckoAsyncFacade(self._spa, self)" not in cts:
        raise Unsupported("facade construction guard changed")
    return rules, shape[0], pump_shape(cls)


def pump_shape(cls):
    """the sequence pump: `while True` around the locate clause, the connect clause, optionally the not-found retry clause,
    optionally all inside try / except Exception -> async_reset; then the poll sleep.  Returns (survives, retries_not_found)."""
    m = _method(cls, "_sequence_pump")
    outer = [x for x in m.body if isinstance(x, ast.Try)]
    if len(outer) != 1:
        raise Unsupported("pump: outer try")
    loops = [x for x in outer[0].body if isinstance(x, ast.While)]
    if len(loops) != 1 or ast.unparse(loops[0].test) != "True":
        raise Unsupported("pump: while True")
    body = list(loops[0].body)
    if ast.unparse(body[-1]).strip() != "await asyncio.sleep(GeckoConstants.ASYNCIO_SLEEP_TIMEOUT_FOR_YIELD)":
        raise Unsupported("pump: poll sleep")
    body = body[:-1]
    survives = False
    if len(body) == 1 and isinstance(body[0], ast.Try):
        t = body[0]
        hs = {ast.unparse(h.type) if h.type is not None else "": [ast.unparse(x).strip() for x in h.body] for h in t.handlers}
        if t.finalbody or t.orelse or set(hs) != {"asyncio.CancelledError", "Exception"} or hs["asyncio.CancelledError"] != ["raise"]:
            raise Unsupported("pump: handlers %r" % hs)
        if hs["Exception"][-1] != "await self.async_reset()" or any(not x.startswith("_LOGGER.") for x in hs["Exception"][:-1]):
            raise Unsupported("pump: exception handler body %r" % hs["Exception"])
        survives = True
        body = list(t.body)
    clauses = [ast.unparse(x).strip() for x in body]
    locate = "if self.spa_state == GeckoSpaState.IDLE and self._spa_descriptors is None:\n    await self.async_locate_spas(self._spa_address)"
    connect = ("if self.spa_state == GeckoSpaState.LOCATED_SPAS and self._spa_identifier is not None and (self._facade is None):\n"
               "    await self.async_connect(self._spa_identifier, self._spa_address)")
    retry = ("if self.spa_state == GeckoSpaState.ERROR_SPA_NOT_FOUND:\n    await config_sleep(GeckoConfig.DISCOVERY_TIMEOUT_IN_SECONDS)\n"
             "    if self.spa_state == GeckoSpaState.ERROR_SPA_NOT_FOUND:\n        await self.async_reset()")
    if clauses == [locate, connect]:
        return survives, False
    if clauses == [locate, connect, retry]:
        return survives, True
    raise Unsupported("pump: clauses %r" % clauses)


def gen_lifecycle():
    from geckolib.spa_state import GeckoSpaState
    from geckolib.spa_events import GeckoSpaEvent
    rules, reset_shape, (survives, retries_nf) = extract()
    states = [s.name for s in GeckoSpaState]
    events = [e.name for e in GeckoSpaEvent]
    t = "(* GENERATED from /repo (async_spa_manager.py AST, spa_state.py, spa_events.py) by tools/gen_lifecycle.py - do not edit *)\n"
    t += "From Coq Require Import List String Bool.\nImport ListNotations.\nOpen Scope string_scope.\n\n"
    t += "Inductive sstate := " + " | ".join(states) + ".\n"
    t += "Inductive event := " + " | ".join(events) + ".\n"
    t += "Definition all_states : list sstate := [" + "; ".join(states) + "].\n"
    t += "Definition all_events : list event := [" + "; ".join(events) + "].\n"
    t += "Definition sstate_eqb (a b : sstate) : bool := match a, b with " + " | ".join("%s, %s" % (s, s) for s in states) + " => true | _, _ => false end.\n"
    t += "Definition event_eqb (a b : event) : bool := match a, b with " + " | ".join("%s, %s" % (s, s) for s in events) + " => true | _, _ => false end.\n"
    t += "Definition state_text (s : sstate) : string := match s with " + " | ".join("%s => %s" % (s.name, vf.cstr(GeckoSpaState.to_string(s))) for s in GeckoSpaState) + " end.\n\n"
    t += "Inductive action := ASet (s : sstate) | ANest (e : event) | AReset | ASensor | AWatercare.\n"
    t += "Inductive guard := GNone | GState (g : list sstate) | GFacade.\n"
    t += "(* the if / elif chain of _handle_event: first matching branch; (events, guard, actions) *)\n"
    t += "Definition rules : list (list event * guard * list action) := [\n" + ";\n".join("  ([%s], %s, [%s])" % ("; ".join(ev), g, "; ".join(ac)) for ev, g, ac in rules) + "\n].\n"
    t += "(* async_reset: true = self._facade is cleared only after the spa has been disconnected *)\n"
    t += "Definition reset_clears_facade_last : bool := %s.\n" % vf.cbool(reset_shape.startswith("facade_cleared_last"))
    t += "(* async_reset: true = self._spa_descriptors is cleared again when the reset finishes (after its last await) *)\n"
    t += "Definition reset_clears_descriptors_last : bool := %s.\n" % vf.cbool("descriptors_twice" in reset_shape)
    t += "(* async_reset: true = a facade that exists when the spa has been disconnected is disconnected (again) before the reference is cleared *)\n"
    t += "Definition reset_disconnects_facade_last : bool := %s.\n" % vf.cbool(reset_shape.endswith("_facade_again"))
    t += "(* async_reset: true = it disconnects spa objects until self._spa is None, and clears the reference only if it still is the object it disconnected *)\n"
    t += "Definition reset_loops_until_no_spa : bool := %s.\n" % vf.cbool(reset_shape.endswith("_loop"))
    t += "(* _sequence_pump: an exception of a locate / connect attempt is caught, logged and followed by async_reset (else it ends the task) *)\n"
    t += "Definition pump_survives : bool := %s.\n" % vf.cbool(survives)
    t += "(* _sequence_pump: ERROR_SPA_NOT_FOUND is left by a reset after the discovery timeout (else it is terminal for the pump) *)\n"
    t += "Definition pump_retries_not_found : bool := %s.\n" % vf.cbool(retries_nf)
    vf.write_if_changed(os.path.join(vf.GEN, "LifecycleRules.v"), t)
    return rules, reset_shape


if __name__ == "__main__":
    r, s = gen_lifecycle()[:2]
    for x in r:
        print(x)
    print(s)
