"""writes seeded/<id>/meta.json from the table below (what each seeded change is and which check catches it)"""
import json, os
ROOT = os.path.dirname(os.path.dirname(os.path.abspath(__file__)))
SEEDS = {
 "S01-C01": ("C01", "GeckoAsyncStructure.get: segment list moved out of the retry loop - a retry after a partly received attempt installs the stale prefix plus the new chain", "C01 correspondence (transfer model vs real get under loss scripts) + install oracle", "VIOLATION with the loss script as replay", ""),
 "S02-C02": ("C02", "accessor bit mask: maxitems >= 8 -> 4 bits (was > 8): writes to 8-entry enums clear the neighbouring bit", "C02 shape correspondence + table obligations (C18 too); concrete input from the neighbour oracle", "VIOLATION (inxe-2-cfg-60 KeypadBacklightColor flips KeypadBacklightEdit)", "first run reported no-failing-input-found: the isolation oracle used the accessor's own (changed) mask; added a declared-cell neighbour oracle and a targeted search over the shipped items of the disagreeing shapes"),
 "S03-C03": ("C03", "status_block_changed: interval intersection replaced by 'item position inside the patch': a patch starting on the 2nd byte of a 2-byte item is not notified", "C03 history correspondence + exactly-once oracle", "VIOLATION", ""),
 "S04-C04": ("C04", "packet regex pre-compiled without re.DOTALL: any packet containing byte 0x0A no longer un-frames", "C04 codec correspondence (frame / unframe) + round-trip oracle", "VIOLATION", ""),
 "S05-C05": ("C05", "async STATP parser de-duplicates change records by position (dict): repeated positions are applied out of order", "C05 history correspondence + in-order oracle", "VIOLATION", ""),
 "S06-C06": ("C06", "get(): lock taken per attempt instead of per call: retries of different callers interleave, FIFO and the per-call bound are lost", "C06 trace acceptance (LAcquire of a call that is not at the head / second acquire) + FIFO and duration oracles", "VIOLATION", ""),
 "S07-C07": ("C07", "consume(): queue.pop() moved after the handling: while a client handler is suspended the handled datagram is discarded as unhandled and the late pop takes the next datagram", "C07 trace acceptance + head-of-line oracle", "VIOLATION", "missed at first: no harness client handler ever suspended and RFERR / WCERR were not injected; sessions now inject them and the client's handler suspends 0 .. 0.55 s on their events"),
 "S08-C08": ("C08", "_handle_event: CLIENT_FACADE_TEARDOWN announced before the state leaves CONNECTED: a second teardown when another task raises an event while the client's handler is suspended", "new theorem c08_teardown_rules_exclude_each_other_across_awaits on the extracted rule table + concurrent-teardown schedules on the real manager", "VIOLATION with the two-task schedule as replay", "missed at first: interleavings inside one _handle_event call were outside the model; added the cross-await theorem and 9 two-task schedules with a suspended client handler"),
 "S09-C09": ("C09", "cancel_key_tasks matches the bare prefix: disconnecting the spa ('SPA') also cancels the manager's 'SPAMAN:Sequence Pump'", "C09 pump-alive / heal oracles on the full stack; C10 no-reconnect-after-reset", "VIOLATION (C09 and C10)", ""),
 "S10-C10": ("C10", "disconnect(): SPA tasks cancelled before RUNNING_SPA_DISCONNECTED is announced: when the reset runs on an SPA task and the client's handler suspends, the clean-up is abandoned half-way", "C09 heal oracle and C10 ledger accounting, in the runs whose client handler suspends", "VIOLATION (C09 heal:stuck, C10 ledger:unaccounted)", "missed at first (no suspending client handler in the full-stack harness); every other C09 run and a third of the C10 crash sweep plus half of the cycle runs now use a suspending handler"),
}
def main():
    for sid, (prop, summary, caught, verdict, strengthened) in SEEDS.items():
        d = os.path.join(ROOT, "seeded", sid)
        if not os.path.isdir(d):
            continue
        res = open(os.path.join(d, "result.txt")).read().strip() if os.path.exists(os.path.join(d, "result.txt")) else ""
        json.dump({"id": sid, "property": prop, "summary": summary, "caught_by": caught, "verdict": verdict, "strengthened": strengthened,
                   "confirmed": "demo.py exits 1 on the changed code and 0 on the original; the unedited test-suite passes on the changed code (re-run by tools/seeded.sh in the scratch worktree)",
                   "first_run": res, "apply": "git -C /repo apply /verif/seeded/%s/patch.diff ; ./check %s ; git -C /repo checkout -- ." % (sid, prop)},
                  open(os.path.join(d, "meta.json"), "w"), indent=1)
if __name__ == "__main__":
    main()
