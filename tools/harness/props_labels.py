"""every label of the interleaved lifecycle harness (used for the 'wild' choices of the adaptive schedules)"""
from harness.lifecycle import EXT

ALL_LABELS = ([("Pump",), ("LocOutcome", True, False), ("LocOutcome", False, False), ("LocOutcome", False, True)] +
              [("ConnOutcome", o) for o in ("next", "retry", "cannot0", "cannot1", "cannot2", "raise")] +
              [("UserReset",), ("SetSpaInfo",), ("NotFoundWake",)] + [("Ext", e) for e in EXT] + [("Resume", s) for s in "PEU"])
