"""The REAL GeckoAsyncSpaMan with its real locator, real GeckoAsyncSpa, real facade and the real in-process simulator,
under virtual time, on a scripted network: healthy / blackout / lossy / RF-error windows, user resets and set-spa-info calls
at arbitrary virtual times.  Nothing in /repo is edited."""
import asyncio

from harness import vloop, session


def reset_config():
    import geckolib.config as C
    idle = C._GeckoIdleConfig()
    for m in C.CONFIG_MEMBERS:
        setattr(C.GeckoConfig, m, getattr(idle, m))
    C.ConfigChange = None


class Stack:
    def __init__(self, loop, snap, plan, rng, latency=0.02, configured=True, suspend=None):
        import geckolib.async_spa_manager as M
        self.loop, self.plan, self.rng = loop, plan, rng
        self.suspend = suspend      # None, or event name -> seconds the client's handler stays suspended (0 = one pass of the loop)
        self.events = []            # (t, event name, state name, facade?)
        self.states = []            # (t, state name) on change
        stack = self

        def mode_now():
            t = loop.time()
            for (a, b, m, p) in stack.plan:
                if a <= t < b:
                    return m, p
            return "healthy", 0

        self.mode_now = mode_now

        def script(direction, data):
            m, p = mode_now()
            base = 0.0 if direction == "up" else latency
            if m == "blackout":
                return []
            if m == "lossy" and rng.random() < p:
                return []
            if m == "noping" and direction == "up" and b"APING" in data:
                return []       # the keep-alive pings get lost (say, dropped by a filter), everything else passes
            if m == "rferr_all":
                # the radio link between the home module and the spa is down and the module answers EVERYTHING for the spa side, pings included, with RFERR
                if direction == "up" and b"<HELLO>" not in data:
                    stack.rferr_due.append(data)
                    return []
            if m == "rferr":
                # the home module answers pings and hellos itself; everything for the spa side is answered with RFERR
                if direction == "up" and not (b"APING" in data or b"<HELLO>" in data):
                    stack.rferr_due.append(data)
                    return []
            if direction == "down" and b"<DATAS>STATP" in data:
                return [(latency + 0.2, data)]
            return [(base, data)]
        self.rferr_due = []
        self.peer = session.Peer(loop, snap, latency=latency, script=script)
        inner_net = loop.net

        def net(tr, data, addr):
            n0 = len(stack.rferr_due)
            inner_net(tr, data, addr)
            if len(stack.rferr_due) > n0:
                stack.rferr_due.pop()
                import re
                mm = re.search(rb"<SRCCN>(.*?)</SRCCN><DESCN>(.*?)</DESCN>", data, re.S)
                if mm:
                    reply = b"<PACKT><SRCCN>" + mm.group(2) + b"</SRCCN><DESCN>" + mm.group(1) + b"</DESCN><DATAS>RFERR</DATAS></PACKT>"
                    loop.call_later(latency, lambda: (not tr.closed) and tr.proto.datagram_received(reply, vloop.SIMADDR))
        loop.net = net

        class Man(M.GeckoAsyncSpaMan):
            async def handle_event(self, event, **kw):
                stack.events.append((loop.time(), event.name, self.spa_state.name, self.facade is not None))
                if not stack.states or stack.states[-1][1] != self.spa_state.name:
                    stack.states.append((loop.time(), self.spa_state.name))
                if stack.suspend is not None:
                    d = stack.suspend(event.name)
                    if d is not None:
                        await asyncio.sleep(d)
        kw = dict(spa_identifier=session.SPA_ID.decode(), spa_name="Spa", spa_address=None) if configured else {}
        self.man = Man("00000000-1111-2222-3333-444444444444", **kw)

    def inject_rferr(self):
        """the home module reports a radio error on the current connection (unsolicited)"""
        for tr in self.loop.endpoints:
            if not tr.closed and not tr.kw.get("allow_broadcast"):
                d = b"<PACKT><SRCCN>" + session.SPA_ID + b"</SRCCN><DESCN>" + self.man._client_id + b"</DESCN><DATAS>RFERR</DATAS></PACKT>"
                tr.proto.datagram_received(d, vloop.SIMADDR)

    def pump_alive(self):
        pump = [t for t in self.man._tasks if t.get_name() == "SPAMAN:Sequence Pump"]
        # the tidy task drops finished tasks from the list: a missing pump is a dead pump
        return bool(pump) and not pump[0].done()

    def pump_exception(self):
        for t in self.man._tasks:
            if t.get_name() == "SPAMAN:Sequence Pump" and t.done() and not t.cancelled():
                return repr(t.exception())
        return None

    def healthy(self):
        """CONNECTED with a facade whose values mirror the spa"""
        m = self.man
        if m.spa_state.name != "CONNECTED" or m._facade is None or m._spa is None:
            return False
        return m._spa.struct.status_block == self.peer.sim.structure.status_block

    def note_state(self):
        s = self.man.spa_state.name
        if not self.states or self.states[-1][1] != s:
            self.states.append((self.loop.time(), s))


def fault_plan(rng, t0, duration, kinds=("blackout", "lossy", "rferr", "healthy")):
    plan, t = [], t0 + rng.choice([0.0, 0.3, 2.0, 6.0, 15.0, 40.0])
    while t < t0 + duration:
        mode = rng.choice(kinds)
        ln = rng.choice([0.4, 1.5, 5.0, 12.0, 30.0, 75.0, 140.0]) if mode != "healthy" else rng.choice([3.0, 10.0, 40.0, 130.0])
        par = {"lossy": rng.choice([0.3, 0.6, 0.9])}.get(mode, 0)
        plan.append((t, min(t + ln, t0 + duration), mode, par))
        t += ln
    return plan
