"""Run the REAL GeckoAsyncLocator.discover under virtual time against scripted spas, recording the label stream
(arrivals, consumer pops, main-loop polls) in real execution order."""
import asyncio
import math

from harness import vloop


def run_discovery(spas, filt_id=None, filt_addr=None, stalls=(), seed=0, handler_delay=0.0):
    """spas: list of dict(id=bytes, name=str, addr=(ip,port), replies=[(broadcast_no, delay_s, copies)]).
    returns dict(labels, listed, finished_age_us, closed, loc_tasks_left, skipped)"""
    import random
    from geckolib.async_locator import GeckoAsyncLocator
    from geckolib.async_tasks import AsyncTasks
    from geckolib.driver.async_peekablequeue import AsyncPeekableQueue
    rng = random.Random(seed)
    log = []
    events = []

    async def main(loop):
        tm = AsyncTasks()

        async def on_event(ev, **kw):
            events.append(ev.name)
            if ev.name == "LOCATING_DISCOVERED_SPA":
                if handler_delay:
                    await asyncio.sleep(handler_delay)      # the client's handler for a newly seen spa really suspends
                log.append(("H",))
        loc = GeckoAsyncLocator(tm, on_event, spa_address=filt_addr, spa_identifier=filt_id)
        bno = [0]

        def net(tr, data, addr):
            if data != b"<HELLO>1</HELLO>":
                return
            b = bno[0]
            bno[0] += 1
            for sp in spas:
                for (bn, delay, copies) in sp["replies"]:
                    if bn != b:
                        continue
                    payload = b"<HELLO>" + sp["id"] + b"|" + sp["name"].encode("latin1") + b"</HELLO>"

                    def deliver(payload=payload, sp=sp, copies=copies):
                        for _ in range(copies):
                            if not tr.closed:
                                log.append(("A", sp["id"], sp["name"], sp["addr"]))
                                tr.proto.datagram_received(payload, sp["addr"])
                    loop.call_later(delay, deliver)
        loop.net = net
        # instrumentation (harness side only)
        real_pop = AsyncPeekableQueue.pop

        def pop(q):
            log.append(("C",))
            return real_pop(q)
        AsyncPeekableQueue.pop = pop
        real_age = GeckoAsyncLocator.age

        def age(self):
            a = real_age.fget(self)
            if self._started is not None and self._transport is not None:
                us = math.floor(a * 1e6)
                if not (log and log[-1][0] == "M" and log[-1][1] == us):
                    log.append(("M", us, a))
            return a
        GeckoAsyncLocator.age = property(age)

        async def staller():
            for (t, dt) in stalls:
                await asyncio.sleep(t)
                loop.jump(dt)
        st = loop.create_task(staller())
        try:
            t0 = loop.time()
            await loc.discover()
            t1 = loop.time()
        finally:
            AsyncPeekableQueue.pop = real_pop
            GeckoAsyncLocator.age = real_age
            st.cancel()
        await asyncio.sleep(0.3)
        left = [t.get_name() for t in tm._tasks if t.get_name().startswith("LOC:") and not t.done()]
        closed = all(tr.closed for tr in loop.endpoints)
        listed = [(d.identifier, d.name, (d.ipaddress, d.port)) for d in (loc.spas or [])]
        await tm.gather()
        return listed, closed, left, t1 - t0, bno[0]
    listed, closed, left, dur, nb = vloop.run(main)
    ms = [e for e in log if e[0] == "M"]
    fin = ms[-1][1] if ms else None
    near = any(abs(e[2] - th) < 3e-6 for e in ms for th in (4.0, 10.0))
    return {"labels": log, "listed": listed, "finished_us": fin, "closed": closed, "loc_tasks_left": left, "duration": dur, "skipped": near, "events": events, "broadcasts": nb}
