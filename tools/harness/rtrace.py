"""Record, from the harness process, the observable events of the async request engine as a label stream in real
execution order (Model/Request.v): call / lock acquire / send / poll miss / hit / timeout / pause done / release / cancel,
each stamped with the virtual clock in microseconds.  Nothing in /repo is edited: the wrappers are installed on the classes
from here and removed afterwards."""
import ast
import asyncio
import sys

NOT_QUERY = {"_connect", "_ping_loop"}       # handshake and keep-alive: not 'command or query' traffic of the gate clause


def gate_sites(src_path="/repo/src/geckolib/async_spa.py"):
    """{function name: [(first line, last line, gated?), ...] per request call}: a request call is gated when both
    `if not self.is_connected` and `if not self.is_responding_to_pings` guards (leaving the block) precede it with no await
    in between."""
    tree = ast.parse(open(src_path).read())
    out = {}

    def is_guard(st, attr):
        if not isinstance(st, ast.If) or st.orelse:
            return False
        t = st.test
        if not (isinstance(t, ast.UnaryOp) and isinstance(t.op, ast.Not) and isinstance(t.operand, ast.Attribute) and t.operand.attr == attr
                and isinstance(t.operand.value, ast.Name) and t.operand.value.id == "self"):
            return False
        return isinstance(st.body[-1], (ast.Return, ast.Continue, ast.Raise))

    def request_call_nodes(node):
        found = []
        for x in ast.walk(node):
            if isinstance(x, ast.Call) and isinstance(x.func, ast.Attribute) and x.func.attr == "get" and isinstance(x.func.value, ast.Attribute) \
                    and x.func.value.attr in ("_protocol", "struct"):
                found.append(x)
        return sorted(found, key=lambda x: (x.lineno, x.col_offset))

    def request_calls(node):
        return len(request_call_nodes(node))

    def has_await(node):
        return any(isinstance(x, ast.Await) for x in ast.walk(node))

    def walk_block(body, fname, checked):
        for st in body:
            if is_guard(st, "is_connected"):
                checked = checked | {"conn"}
                continue
            if is_guard(st, "is_responding_to_pings"):
                checked = checked | {"ping"}
                continue
            n = request_calls(st)
            if n and not isinstance(st, (ast.While, ast.For, ast.Try, ast.With, ast.AsyncWith)) and not (isinstance(st, ast.If) and request_calls(st.test) == 0):
                # the first request call of the statement sees the guards; any further one follows an await
                for j, x in enumerate(request_call_nodes(st)):
                    out.setdefault(fname, []).append((x.lineno, x.end_lineno, j == 0 and checked == {"conn", "ping"}))
                checked = set()
                continue
            for sub in ("body", "orelse", "finalbody"):
                if hasattr(st, sub) and isinstance(getattr(st, sub), list):
                    walk_block(getattr(st, sub), fname, set(checked) if not isinstance(st, (ast.While, ast.For)) else set())
            if isinstance(st, ast.Try):
                for h in st.handlers:
                    walk_block(h.body, fname, set())
            if has_await(st):
                checked = set()
    for cls in [n for n in tree.body if isinstance(n, ast.ClassDef) and n.name == "GeckoAsyncSpa"]:
        for fn in cls.body:
            if isinstance(fn, (ast.AsyncFunctionDef, ast.FunctionDef)):
                walk_block(fn.body, fn.name, set())
    return out


class RTrace:
    def __init__(self, spa_getter, loop):
        self.spa_getter = spa_getter
        self.loop = loop
        self.log = []            # label tuples
        self.calls = {}          # cid -> dict(kind, retries, caller, gated, query)
        self.active = {}         # task name -> cid
        self.state = {}          # cid -> dict(created, sent, waiting, holding)
        self.problems = []       # oracle facts the label stream does not carry
        self.sites = gate_sites()
        self._site_count = {}
        self._gate = None
        self._patched = []
        self.other_sends = 0

    def now(self):
        return int(round(self.loop.time() * 1e6))

    def gate_now(self):
        spa = self.spa_getter()
        try:
            return bool(spa is not None and spa.is_connected and spa.is_responding_to_pings)
        except Exception:
            return False

    def emit_gate(self):
        g = self.gate_now()
        if g != self._gate:
            self._gate = g
            self.log.append(("gate", g))

    def install(self):
        from geckolib.driver import async_udp_protocol as M
        from geckolib.driver.async_spastruct import GeckoAsyncStructure as S
        from geckolib.driver.udp_protocol_handler import GeckoUdpProtocolHandler as H
        P = M.GeckoAsyncUdpProtocol
        L = M.DbgLock
        tr = self
        real_get, real_sget = P.get, S.get
        real_enter, real_exit = L.__aenter__, L.__aexit__
        real_send = P.queue_send
        real_timedout = H.has_timedout
        real_wait = H.wait_for_response
        real_sleep = M.config_sleep
        default_retries = real_get.__defaults__[-1] if real_get.__defaults__ else None

        def task():
            t = asyncio.current_task()
            return t.get_name() + "#%x" % id(t) if t else "?"

        def new_call(kind, retries, caller, lineno):
            cid = len(tr.calls)
            gated, idx = False, None
            for (a, b, g) in tr.sites.get(caller, []):
                if a <= lineno <= b:
                    gated, idx = g, a
            if idx is None and caller in tr.sites:
                tr.problems.append("request call at %s:%d not found in the source scan" % (caller, lineno))
            info = dict(kind=kind, retries=retries, caller=caller, gated=gated, query=caller not in NOT_QUERY, site=idx)
            tr.calls[cid] = info
            tr.state[cid] = dict(created=[], sent=[], waiting=False, holding=False, done=False)
            return cid

        async def run_call(cid, coro_fn):
            name = task()
            if name in tr.active:
                tr.problems.append("task %s started a request while another of its own is active" % name)
            tr.active[name] = cid
            tr.emit_gate()
            tr.log.append(("call", cid, tr.now()))
            try:
                res = await coro_fn()
            except BaseException:
                tr.log.append(("cancel", cid, tr.now()))
                tr.state[cid]["done"] = True
                tr.active.pop(name, None)
                raise
            st = tr.state[cid]
            if st["holding"]:
                tr.problems.append("call %d returned while still holding the lock" % cid)
            info = tr.calls[cid]
            ok = bool(res) if info["kind"] == "struct" else res is not None
            if info["kind"] == "simple" and res is not None and (not st["sent"] or res is not st["sent"][-1]):
                tr.problems.append("call %d returned an object that is not the request of its last attempt" % cid)
            tr.log.append(("release", cid, tr.now(), ok))
            st["done"] = True
            tr.active.pop(name, None)
            return res

        def get(self, create_func, destination=None, retry_count=default_retries):
            fr = sys._getframe(1)
            cid = new_call("simple", retry_count, fr.f_code.co_name, fr.f_lineno)

            def cf():
                obj = create_func()
                tr.state[cid]["created"].append(obj)
                return obj
            return run_call(cid, lambda: real_get(self, cf, destination, retry_count))

        def sget(self, protocol, create_func, retry_count=10):
            fr = sys._getframe(1)
            cid = new_call("struct", retry_count, fr.f_code.co_name, fr.f_lineno)

            def cf():
                obj = create_func()
                tr.state[cid]["created"].append(obj)
                return obj
            return run_call(cid, lambda: real_sget(self, protocol, cf, retry_count))

        async def aenter(lock):
            r = await real_enter(lock)
            cid = tr.active.get(task())
            if cid is None:
                tr.problems.append("lock acquired outside a request call by %s" % task())
            else:
                tr.state[cid]["holding"] = True
                tr.log.append(("acquire", cid, tr.now()))
            return r

        async def aexit(lock, et, ev, tb):
            cid = tr.active.get(task())
            if cid is not None:
                tr.state[cid]["holding"] = False
            return await real_exit(lock, et, ev, tb)

        def queue_send(self, handler, destination=None):
            cid = tr.active.get(task())
            if cid is None or not tr.state[cid]["holding"]:
                if cid is not None:
                    tr.problems.append("call %d sent without holding the lock" % cid)
                tr.other_sends += 1
                return real_send(self, handler, destination)
            st = tr.state[cid]
            fresh = bool(st["created"]) and handler is st["created"][-1] and all(handler is not o for o in st["sent"]) and len(st["created"]) == len(st["sent"]) + 1
            st["sent"].append(handler)
            tr.emit_gate()
            tr.log.append(("send", cid, tr.now(), fresh))
            return real_send(self, handler, destination)

        def has_timedout(h):
            r = real_timedout.fget(h)
            cid = tr.active.get(task())
            if cid is not None and tr.state[cid]["waiting"] and not r:
                tr.log.append(("miss", cid, tr.now()))
            return r

        async def wait_for_response(h, protocol):
            cid = tr.active.get(task())
            if cid is None:
                return await real_wait(h, protocol)
            tr.state[cid]["waiting"] = True
            try:
                r = await real_wait(h, protocol)
            finally:
                tr.state[cid]["waiting"] = False
            tr.log.append(("hit" if r else "timeout", cid, tr.now()))
            return r

        async def config_sleep(delay):
            cid = tr.active.get(task())
            await real_sleep(delay)
            if cid is not None:
                tr.log.append(("pausedone", cid, tr.now()))
        P.get, S.get = get, sget
        L.__aenter__, L.__aexit__ = aenter, aexit
        P.queue_send = queue_send
        H.has_timedout = property(has_timedout)
        H.wait_for_response = wait_for_response
        M.config_sleep = config_sleep
        self._patched = [(P, "get", real_get), (S, "get", real_sget), (L, "__aenter__", real_enter), (L, "__aexit__", real_exit), (P, "queue_send", real_send),
                         (H, "has_timedout", real_timedout), (H, "wait_for_response", real_wait), (M, "config_sleep", real_sleep)]
        return self

    def remove(self):
        for obj, name, val in self._patched:
            setattr(obj, name, val)


def coq_labels(tr):
    """label stream -> Coq list text (Model/Request.v labels)"""
    out = []
    for l in tr.log:
        k = l[0]
        if k == "gate":
            out.append("LGate %s" % ("true" if l[1] else "false"))
        elif k == "call":
            c = tr.calls[l[1]]
            out.append("LCall (mkc %d %s (%d) %s %s)" % (l[1], "Struct" if c["kind"] == "struct" else "Simple", c["retries"],
                                                      "true" if c["gated"] else "false", "true" if c["query"] else "false"))
        elif k == "acquire":
            out.append("LAcquire %d (%d)" % (l[1], l[2]))
        elif k == "send":
            out.append("LSend %d (%d) %s" % (l[1], l[2], "true" if l[3] else "false"))
        elif k == "miss":
            out.append("LMiss %d (%d)" % (l[1], l[2]))
        elif k == "hit":
            out.append("LHit %d (%d)" % (l[1], l[2]))
        elif k == "timeout":
            out.append("LTimeout %d (%d)" % (l[1], l[2]))
        elif k == "pausedone":
            out.append("LPauseDone %d (%d)" % (l[1], l[2]))
        elif k == "release":
            out.append("LRelease %d (%d) %s" % (l[1], l[2], "true" if l[3] else "false"))
        elif k == "cancel":
            out.append("LCancel %d" % l[1])
    return out


def coq_wlabels(tr):
    """label stream for the timed layer (Model/RequestW.v): the same labels wrapped in WL, with the clock reading WTick t in
    front of the two untimed events (a call entering get(), a call leaving it by an exception)"""
    out = []
    for l, txt in zip([l for l in tr.log], coq_labels(tr)):
        if l[0] in ("call", "cancel"):
            out.append("WTick (%d)" % l[2])
        out.append("WL (%s)" % txt)
    return out


def struct_ceiling(tr):
    """the longest time a structure download held the lock in this run (microseconds): the timed layer's parameter cS"""
    acq, worst, last = {}, 0, 0
    for l in tr.log:
        if len(l) > 2 and isinstance(l[2], int):
            last = max(last, l[2])
        if l[0] == "acquire" and tr.calls[l[1]]["kind"] == "struct":
            acq[l[1]] = l[2]
        elif l[0] in ("release", "cancel") and l[1] in acq:
            worst = max(worst, l[2] - acq.pop(l[1]))
    for c, t in acq.items():
        worst = max(worst, last - t)
    return worst
