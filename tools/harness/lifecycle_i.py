"""Interleavings inside the REAL GeckoAsyncSpaMan: the client's handle_event stays suspended at EVERY delivery until the
schedule resumes that task, so the sequence pump (P), one task of the connection that raised an event (E) and one user task
calling async_reset / async_set_spa_info (U) can be inside the manager at the same time (Model/LifecycleI.v)."""
import asyncio

from harness import vloop
from harness.lifecycle import Rig, EXT, HANDSHAKE  # noqa: F401


class RigI(Rig):
    def __init__(self, loop, configured):
        super().__init__(loop, configured)
        rig = self
        self.parked = {}            # slot -> future the client's handler of that task is waiting on
        self.free_run = True        # no suspension (used while entering the context)
        self.etask = None
        self.utask = None
        self.nf_future = None
        M = self.M

        def slot_of_current():
            name = asyncio.current_task().get_name()
            if name == "SPAMAN:Sequence Pump":
                return "P"
            if name.startswith("SPA:"):
                return "E"
            return "U"

        async def handle_event(man, event, **kw):
            ssr = man.status_sensor
            sl = slot_of_current()
            rig.deliveries.append((event.name, man.spa_state.name, man.facade is not None, ssr.state if ssr is not None else "", sl))
            if rig.free_run:
                return
            fut = loop.create_future()
            rig.parked[sl] = fut
            try:
                await fut
            finally:
                if rig.parked.get(sl) is fut:
                    del rig.parked[sl]
        type(self.man).handle_event = handle_event

        async def nf_sleep(delay):
            # the pump's sleep in its not-found clause: over when the schedule says so
            fut = loop.create_future()
            rig.nf_future = fut
            try:
                await fut
            finally:
                rig.nf_future = None
        self._patch(M, "config_sleep", nf_sleep)

    def alive(self, t):
        return t is not None and not t.done()

    def occupancy(self):
        return ("P" in self.parked, self.alive(self.etask), self.alive(self.utask))

    async def settle(self):
        await asyncio.sleep(0.35)

    def pump_blocked_idle(self):
        return (self.pump_alive() and "P" not in self.parked and self.pending_discover is None and self.pending_connect is None
                and self.nf_future is None)

    def stuck_idle(self):
        """the pump polls, nobody is inside the manager, and no branch of the pump applies: IDLE with descriptors in place"""
        m = self.man
        return (self.pump_blocked_idle() and not self.parked and not self.alive(self.etask) and not self.alive(self.utask)
                and m.spa_state.name == "IDLE" and m._spa_descriptors is not None)

    async def apply(self, label):
        self.deliveries.clear()
        kind = label[0]
        applicable = True
        if kind == "Pump":
            applicable = self.pump_blocked_idle()
        elif kind == "LocOutcome":
            if self.pending_discover is None:
                applicable = False
            else:
                fut = self.pending_discover[0]
                if label[2]:
                    fut.set_exception(RuntimeError("discover raised"))
                else:
                    fut.set_result(label[1])
        elif kind == "ConnOutcome":
            if self.pending_connect is None:
                applicable = False
            else:
                fut, spa, k = self.pending_connect
                out = label[1]
                if (self.man._spa is not spa and out != "raise") or (out.startswith("cannot") and k < 2):
                    applicable = False
                else:
                    fut.set_result(out)
        elif kind == "Ext":
            ev = label[1]
            if (self.alive(self.etask) or self.man._spa is None
                    or (ev in ("RUNNING_SPA_PACK_REFRESHED", "RUNNING_SPA_WATER_CARE_ERROR") and self.man._facade is None)):
                applicable = False
            else:
                self.man.add_task(self.man._spa._event_handler(getattr(self.E, ev)), "ext " + ev, "SPA")
                self.etask = self.man._tasks[-1]
        elif kind == "NotFoundWake":
            if self.nf_future is None or self.nf_future.done():
                applicable = False
            else:
                self.nf_future.set_result(True)
        elif kind == "UserReset":
            if self.alive(self.utask):
                applicable = False
            else:
                self.utask = self.loop.create_task(self.man.async_reset(), name="USER:reset")
        elif kind == "SetSpaInfo":
            if self.alive(self.utask):
                applicable = False
            else:
                self.utask = self.loop.create_task(self.man.async_set_spa_info("10.0.0.1", "SPA01:02:03:04:05:06", "Spa"), name="USER:setinfo")
        elif kind == "Resume":
            fut = self.parked.get(label[1])
            if fut is None or fut.done():
                applicable = False
            else:
                fut.set_result(True)
        if applicable:
            await self.settle()
        exc = []
        for t, nm in ((self.etask, "E"), (self.utask, "U")):
            if t is not None and t.done() and not t.cancelled() and t.exception() is not None:
                exc.append((nm, repr(t.exception())[:80]))
        return applicable, self.snapshot(), list(self.deliveries), self.occupancy(), exc, self.abandoned_not_disconnected(), self.facades_dropped_alive(), (applicable and self.stuck_idle())

    async def close(self):
        self.free_run = True
        for f in list(self.parked.values()):
            if not f.done():
                f.set_result(True)
        if self.nf_future is not None and not self.nf_future.done():
            self.nf_future.cancel()
        for t in (self.etask, self.utask):
            if self.alive(t):
                t.cancel()
        await super().close()


def candidates(rig):
    """labels that can happen now, with weights that favour progress towards CONNECTED and concurrency"""
    c = []
    for sl in ("P", "E", "U"):
        f = rig.parked.get(sl)
        if f is not None and not f.done():
            c.append((("Resume", sl), 6 if sl == "P" else 3))
    if rig.pending_discover is not None:
        c += [(("LocOutcome", True, False), 6), (("LocOutcome", False, False), 1), (("LocOutcome", False, True), 0.5)]
    if rig.pending_connect is not None:
        k = rig.pending_connect[2]
        c += [(("ConnOutcome", "next"), 8), (("ConnOutcome", "retry"), 0.7), (("ConnOutcome", "raise"), 0.7)]
        if k >= 2:
            c += [(("ConnOutcome", "cannot%d" % (k % 3)), 0.5)]
    if rig.nf_future is not None and not rig.nf_future.done():
        c.append((("NotFoundWake",), 3))
    if not rig.alive(rig.utask):
        c += [(("UserReset",), 0.45), (("SetSpaInfo",), 0.15)]
    if not rig.alive(rig.etask) and rig.man._spa is not None:
        connected = rig.man.spa_state.name == "CONNECTED"
        for ev in EXT:
            if ev in ("RUNNING_SPA_PACK_REFRESHED", "RUNNING_SPA_WATER_CARE_ERROR") and rig.man._facade is None:
                continue
            c.append((("Ext", ev), 0.9 if connected else (0.3 if ev == "RUNNING_PING_RECEIVED" else 0.06)))
    if rig.pump_blocked_idle():
        c.append((("Pump",), 0.5))
    return c


def run_adaptive(configured, rng, n, wild=0.08, warm=False):
    """a schedule chosen step by step among the labels that can happen (plus a few that cannot)"""
    from harness.props_labels import ALL_LABELS

    async def main(loop):
        rig = RigI(loop, configured)
        try:
            enter = await rig.enter()
            rig.free_run = False
            await rig.settle()
            first, occ0, snap0 = list(rig.deliveries), rig.occupancy(), rig.snapshot()
            out = []
            if warm:
                # straight to CONNECTED first (every step still recorded and checked), then the adaptive part
                for _ in range(40):
                    if rig.man.spa_state.name == "CONNECTED" and "P" not in rig.parked:
                        break
                    if "P" in rig.parked:
                        l = ("Resume", "P")
                    elif rig.pending_discover is not None:
                        l = ("LocOutcome", True, False)
                    elif rig.pending_connect is not None:
                        l = ("ConnOutcome", "next")
                    else:
                        l = ("Pump",)
                    out.append((l,) + tuple(await rig.apply(l)))
            for _ in range(n):
                c = candidates(rig)
                if rng.random() < wild or not c:
                    l = rng.choice(ALL_LABELS)
                else:
                    tot = sum(w for _, w in c)
                    x = rng.random() * tot
                    for l, w in c:
                        x -= w
                        if x <= 0:
                            break
                out.append((l,) + tuple(await rig.apply(l)))
            alive = rig.pump_alive()
            await rig.close()
            return enter, (first, snap0, occ0), out, alive
        finally:
            rig.unpatch()
    return vloop.run(main)


def run_schedule(configured, labels):
    """labels: big-step labels of harness.lifecycle plus ("Resume", "P" | "E" | "U").  Returns (enter deliveries, steps, pump alive)."""
    async def main(loop):
        rig = RigI(loop, configured)
        try:
            enter = await rig.enter()
            rig.free_run = False
            await rig.settle()                 # the pump's first poll
            first = list(rig.deliveries)
            occ0 = rig.occupancy()
            snap0 = rig.snapshot()
            out = []
            for l in labels:
                out.append((l,) + tuple(await rig.apply(l)))
            alive = rig.pump_alive()
            await rig.close()
            return enter, (first, snap0, occ0), out, alive
        finally:
            rig.unpatch()
    return vloop.run(main)
