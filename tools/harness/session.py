"""A real GeckoAsyncSpa (+ optional real facade) connected, under virtual time, to the REAL in-process GeckoSimulator.

The simulator is extended (from the harness, no repo change) into a 'model spa' for commands: a SPACK set-value is applied
to its structure and echoed to every client as a STATP partial update (the simulator's own _on_set_value does both);
a SPACK key press toggles the device the keypad code belongs to (environment assumption recorded in C13)."""
import asyncio
import os

from harness import vloop

SNAPDIR = "/repo/tests/snapshots"
SPA_ID = b"SPA01:02:03:04:05:06"
CLIENT_ID = b"IOS00000000-1111-2222-3333-444444444444"


class Peer:
    def __init__(self, loop, snapshot, latency=0.01, script=None, echo_delay=None):
        self.loop = loop
        if script is None and echo_delay is not None:
            # unsolicited partial updates travel separately from the reply they follow
            def script(direction, data, latency=latency, echo_delay=echo_delay):
                if direction == "down" and b"<DATAS>STATP" in data:
                    return [(latency + echo_delay, data)]
                return [(0.0 if direction == "up" else latency, data)]
        self.script, self.latency = script, latency
        self.sim = vloop.make_sim(os.path.join(SNAPDIR, snapshot) if not os.path.isabs(snapshot) else snapshot)
        self.commands = []          # decoded SPACK commands that reached the spa
        self.raw = []               # every datagram content that reached the spa (time, bytes)
        orig = self.sim._on_pack_command

        def on_pack(handler, sender):
            with vloop.quiet():
                orig(handler, sender)
                if handler.is_set_value:
                    self.commands.append(("set", handler._sequence, handler.pack_type, handler.position, bytes(handler.new_data)))
                    self.sim._send_structure_change = True
                    try:
                        self.sim._on_set_value(handler.position, len(handler.new_data), int.from_bytes(handler.new_data, "big"))
                    finally:
                        self.sim._send_structure_change = False
                elif handler.is_key_press:
                    self.commands.append(("key", handler._sequence, handler.pack_type, handler.keycode))
                    self.press(handler.keycode)
        # the handler object was registered with the bound method: patch its callback
        for h in self.sim._socket._receive_handlers:
            if getattr(h, "_on_handled", None) == orig:
                h._on_handled = on_pack
        loop.net = self._net(latency, script)

    def press(self, keycode):
        """toggle the device that keypad code belongs to and echo the change"""
        from geckolib.const import GeckoConstants as K
        accs = self.sim.structure.accessors
        target = None
        for dev, (name, kp, state_key, cls) in K.DEVICES.items():
            if kp == keycode and state_key in accs:
                target = accs[state_key]
        if keycode == K.KEYPAD_ECOMODE and K.KEY_ECON_ACTIVE in accs:
            target = accs[K.KEY_ECON_ACTIVE]
        if target is None:
            return
        self.sim._send_structure_change = True
        try:
            if target.type == "Bool":
                target.value = not target.value
            else:
                cur = target.value
                items = target.items
                on = [x for x in items if x != "OFF"]
                target.value = "OFF" if cur != "OFF" else (on[0] if on else cur)
        finally:
            self.sim._send_structure_change = False

    def spontaneous(self, tag, value):
        """the spa changes one of its own values and reports it to its clients with a partial update (through the same network script)"""
        acc = self.sim.structure.accessors.get(tag)
        if acc is None:
            return False
        with vloop.quiet():
            self.sim._send_structure_change = True
            try:
                acc.value = value
            finally:
                self.sim._send_structure_change = False
        out = self.sim._socket._send_handlers
        self.sim._socket._send_handlers = []
        for h, dest in out:
            data = h.send_bytes
            for tr in self.loop.endpoints:
                if tr.closed or tuple(tr.addr) != tuple(dest[:2]):
                    continue
                for dl, b in ([(self.latency, data)] if self.script is None else self.script("down", data)):
                    self.loop.call_later(dl, lambda b=b, tr=tr: (not tr.closed) and tr.proto.datagram_received(b, vloop.SIMADDR))
        return True

    def _net(self, latency, script):
        inner = vloop.sim_net(self.sim, self.loop, latency, script)

        def net(tr, data, addr):
            self.raw.append((self.loop.time(), data))
            inner(tr, data, addr)
        return net


class Client:
    """real GeckoAsyncSpa with a real AsyncTasks"""

    def __init__(self, peer):
        from geckolib.async_spa import GeckoAsyncSpa
        from geckolib.async_spa_descriptor import GeckoAsyncSpaDescriptor
        from geckolib.async_tasks import AsyncTasks
        self.peer = peer
        self.events = []

        class TM(AsyncTasks):
            unique_id = "uid"
            spa_name = "spa"
        self.taskman = TM()

        self.suspend = None         # event name -> seconds the client's handler stays suspended (None: returns at once)

        async def on_event(event, **kw):
            self.events.append((peer.loop.time(), event))
            if self.suspend is not None:
                d = self.suspend(event.name)
                if d is not None:
                    await asyncio.sleep(d)
        self.spa = GeckoAsyncSpa(CLIENT_ID, GeckoAsyncSpaDescriptor(SPA_ID, "Udp Test Spa", vloop.SIMADDR), self.taskman, on_event)
        self.facade = None

    async def connect(self, with_facade=False):
        await self.spa.connect()
        if with_facade and self.spa.is_connected:
            from geckolib.automation.async_facade import GeckoAsyncFacade
            self.facade = GeckoAsyncFacade(self.spa, self.taskman)
        return self.spa.is_connected

    async def close(self):
        if self.facade is not None:
            await self.facade.disconnect()
        await self.spa.disconnect()
        await self.taskman.gather()


def spack_datagrams(peer, since=0):
    return [d for (t, d) in peer.raw[since:] if b"<DATAS>SPACK" in d]
