"""Drive the REAL GeckoAsyncSpaMan (its real _handle_event, async_reset, phase methods and sequence pump) with scripted
outcomes for discovery and the connection handshake, under the virtual-time loop."""
import asyncio

from harness import vloop

HANDSHAKE = ["CONNECTION_GOT_FIRMWARE_VERSION", "CONNECTION_GOT_CHANNEL", "CONNECTION_GOT_CONFIG_FILES",
             "CONNECTION_INITIAL_DATA_BLOCK_REQUEST", "CONNECTION_SPA_COMPLETE"]
EXT = ["RUNNING_PING_RECEIVED", "RUNNING_PING_MISSED", "RUNNING_PING_NO_RESPONSE", "ERROR_RF_ERROR", "ERROR_TOO_MANY_RF_ERRORS",
       "ERROR_PROTOCOL_RETRY_COUNT_EXCEEDED", "RUNNING_SPA_PACK_REFRESHED", "RUNNING_SPA_WATER_CARE_ERROR", "CONNECTION_PROTOCOL_RETRY_COUNT_EXCEEDED"]


class Rig:
    def __init__(self, loop, configured):
        import geckolib.async_spa_manager as M
        from geckolib.spa_events import GeckoSpaEvent
        from geckolib.async_spa_descriptor import GeckoAsyncSpaDescriptor
        self.M, self.E, self.loop = M, GeckoSpaEvent, loop
        rig = self
        self.deliveries = []
        self.pending_discover = None       # (future, locator)
        self.pending_connect = None        # (future, spa)
        self.nf_sleeping = False           # the pump is asleep in its not-found retry clause
        self.patches = []

        self.suspend_on = set()            # event names at which the client's handler stays suspended until release()
        self.suspended = []

        class Man(M.GeckoAsyncSpaMan):
            async def handle_event(self, event, **kw):
                ssr = self.status_sensor
                rig.deliveries.append((event.name, self.spa_state.name, self.facade is not None, ssr.state if ssr is not None else ""))
                if event.name in rig.suspend_on:
                    fut = loop.create_future()
                    rig.suspended.append(fut)
                    await fut
        kw = dict(spa_identifier="SPA01:02:03:04:05:06", spa_name="Spa", spa_address="10.0.0.1") if configured else {}
        self.man = Man("uuid", **kw)

        async def discover(locator):
            fut = loop.create_future()
            rig.pending_discover = (fut, locator)
            try:
                found = await fut
            finally:
                rig.pending_discover = None
            locator._spas = [GeckoAsyncSpaDescriptor(b"SPA01:02:03:04:05:06", "Spa", ("10.0.0.1", 10022))] if found else []

        self.spas = []                     # every spa object the manager ever created
        self.facades = []                  # every facade object the manager ever created

        async def connect(spa):
            # emits what GeckoAsyncSpa._connect emits, step by step, on demand
            rig.spas.append(spa)
            for k, name in enumerate(HANDSHAKE):
                fut = loop.create_future()
                rig.pending_connect = (fut, spa, k)
                try:
                    out = await fut
                finally:
                    rig.pending_connect = None
                if rig.man._spa is not spa:
                    raise AttributeError("'NoneType' object has no attribute 'get'")     # protocol gone after a reset
                if out == "raise":
                    raise RuntimeError("handshake step raised")
                if out == "retry":
                    await spa._event_handler(rig.E.CONNECTION_PROTOCOL_RETRY_COUNT_EXCEEDED)
                    return
                if out.startswith("cannot"):
                    await spa._event_handler(getattr(rig.E, {"cannot0": "CONNECTION_CANNOT_FIND_SPA_PACK", "cannot1": "CONNECTION_CANNOT_FIND_CONFIG_VERSION",
                                                             "cannot2": "CONNECTION_CANNOT_FIND_LOG_VERSION"}[out]))
                    return
                if name == "CONNECTION_SPA_COMPLETE":
                    spa._is_connected = True
                await spa._event_handler(getattr(rig.E, name))

        class FakeFacade:
            def __init__(self, spa, taskman):
                self.disconnected = False
                rig.facades.append(self)

                class WC:
                    def change_watercare_mode(self, m):
                        pass
                self._water_care = WC()

            async def disconnect(self):
                self.disconnected = True

        async def get_watercare(spa):
            return 1
        self._patch(M.GeckoAsyncLocator, "discover", discover)
        self._patch(M.GeckoAsyncSpa, "connect", connect)
        self._patch(M.GeckoAsyncSpa, "async_get_watercare", get_watercare)
        self._patch(M, "GeckoAsyncFacade", FakeFacade)

    def release(self):
        for f in self.suspended:
            if not f.done():
                f.set_result(True)
        self.suspended = []

    def _patch(self, obj, name, val):
        self.patches.append((obj, name, getattr(obj, name)))
        setattr(obj, name, val)

    def unpatch(self):
        for obj, name, old in reversed(self.patches):
            setattr(obj, name, old)

    def abandoned_not_disconnected(self):
        """spa objects the manager no longer references on which disconnect() never completed: whatever they hold (endpoint, tasks) is lost"""
        return sum(1 for spa in self.spas if spa is not self.man._spa and not getattr(spa, "_disconnected", False))

    def facades_dropped_alive(self):
        """facade objects the manager no longer references that were never disconnected since: their update task keeps running for nobody"""
        return sum(1 for f in self.facades if f is not self.man._facade and not f.disconnected)

    def snapshot(self):
        m = self.man
        return (m.spa_state.name, m._facade is not None, m._spa is not None, m._spa_descriptors is not None)

    async def settle(self):
        await asyncio.sleep(0.35)
        # the pump polls every 0.1 s: if the state is ERROR_SPA_NOT_FOUND and it is between phases it has entered the
        # not-found clause (when the code has one: recognised by the state still being there after the discovery timeout)
        if (self.man.spa_state.name == "ERROR_SPA_NOT_FOUND" and self.pending_discover is None and self.pending_connect is None
                and self.pump_alive() and self.has_nf_clause):
            self.nf_sleeping = True

    def pump_alive(self):
        pump = [t for t in self.man._tasks if t.get_name() == "SPAMAN:Sequence Pump"]
        return bool(pump) and not pump[0].done()

    @property
    def has_nf_clause(self):
        import inspect
        return "ERROR_SPA_NOT_FOUND" in inspect.getsource(self.M.GeckoAsyncSpaMan._sequence_pump)

    async def enter(self):
        await self.man.__aenter__()
        d = list(self.deliveries)
        self.deliveries.clear()
        return d

    async def apply(self, label):
        """returns (applicable, snapshot, deliveries)"""
        self.deliveries.clear()
        kind = label[0]
        applicable = True
        if kind == "Pump":
            pump = [t for t in self.man._tasks if t.get_name() == "SPAMAN:Sequence Pump"]
            applicable = bool(pump) and not pump[0].done() and self.pending_discover is None and self.pending_connect is None and not self.nf_sleeping
            await self.settle()
        elif kind == "LocOutcome":
            if self.pending_discover is None:
                applicable = False
            else:
                fut = self.pending_discover[0]
                if label[2]:
                    fut.set_exception(RuntimeError("discover raised"))
                else:
                    fut.set_result(label[1])
                await self.settle()
        elif kind == "ConnOutcome":
            if self.pending_connect is None:
                applicable = False
            else:
                fut, spa, k = self.pending_connect
                out = label[1]
                if self.man._spa is not spa and out != "raise":
                    applicable = False
                elif out.startswith("cannot") and k < 2:
                    applicable = False
                else:
                    fut.set_result(out)
                    await self.settle()
        elif kind == "Ext":
            ev = label[1]
            if self.man._spa is None or (ev in ("RUNNING_SPA_PACK_REFRESHED", "RUNNING_SPA_WATER_CARE_ERROR") and self.man._facade is None):
                applicable = False
            else:
                if ev == "RUNNING_SPA_PACK_REFRESHED" and self.man._radio_sensor is None:
                    applicable = False
                else:
                    t = self.loop.create_task(self.man._spa._event_handler(getattr(self.E, ev)))
                    await self.settle()
                    if t.done() and t.exception() is not None:
                        self.deliveries.append(("EXCEPTION", repr(t.exception())[:60], False, ""))
        elif kind == "NotFoundWake":
            if not self.nf_sleeping:
                applicable = False
            else:
                import geckolib.config as C
                await asyncio.sleep(C.GeckoConfig.DISCOVERY_TIMEOUT_IN_SECONDS + 0.05)
                self.nf_sleeping = False
                await self.settle()
        elif kind == "UserReset":
            await self.man.async_reset()
            await self.settle()
        elif kind == "SetSpaInfo":
            await self.man.async_set_spa_info("10.0.0.1", "SPA01:02:03:04:05:06", "Spa")
            await self.settle()
        return applicable, self.snapshot(), list(self.deliveries)

    async def close(self):
        if self.pending_discover:
            self.pending_discover[0].cancel()
        if self.pending_connect:
            self.pending_connect[0].cancel()
        try:
            await self.man.__aexit__(None, None, None)
        except BaseException:
            pass


def run_trace(configured, labels):
    async def main(loop):
        rig = Rig(loop, configured)
        try:
            enter = await rig.enter()
            out = []
            for l in labels:
                out.append((l,) + tuple(await rig.apply(l)))
            pump = [t for t in rig.man._tasks if t.get_name() == "SPAMAN:Sequence Pump"]
            pump_alive = bool(pump) and not pump[0].done()
            await rig.close()
            return enter, out, pump_alive
        finally:
            rig.unpatch()
    return vloop.run(main)


def run_concurrent_teardown(e1, e2):
    """CONNECTED; the client's handler suspends when it is told CLIENT_FACADE_TEARDOWN; e1 is raised by one task and, while that
    handler is suspended, e2 by another.  Returns the deliveries and the final state."""
    to_connected = [("Pump",), ("LocOutcome", True, False), ("LocOutcome", True, False)] + [("ConnOutcome", "next")] * 5

    async def main(loop):
        rig = Rig(loop, True)
        try:
            await rig.enter()
            for l in to_connected:
                await rig.apply(l)
            if rig.man.spa_state.name != "CONNECTED":
                return None
            rig.deliveries.clear()
            rig.suspend_on = {"CLIENT_FACADE_TEARDOWN"}
            spa = rig.man._spa

            def raise_(ev):
                if ev == "UserReset":
                    return loop.create_task(rig.man.async_reset())
                return loop.create_task(spa._event_handler(getattr(rig.E, ev)))
            t1 = raise_(e1)
            await asyncio.sleep(0.05)
            t2 = raise_(e2)
            await asyncio.sleep(0.05)
            rig.release()
            await asyncio.sleep(0.05)
            rig.release()
            await asyncio.sleep(0.3)
            rig.release()
            out = (list(rig.deliveries), rig.man.spa_state.name)
            rig.suspend_on = set()
            await rig.close()
            return out
        finally:
            rig.unpatch()
    return vloop.run(main)
