"""Build the REAL automation facades on a pack table + block without any network."""
import asyncio
import importlib


def load_classes(stem_pack, stem_cfg, stem_log):
    P = importlib.import_module("geckolib.driver.packs." + stem_pack).GeckoPack
    C = importlib.import_module("geckolib.driver.packs." + stem_cfg).GeckoConfigStruct
    L = importlib.import_module("geckolib.driver.packs." + stem_log).GeckoLogStruct
    return P, C, L


def make_async_spa(stem_pack, stem_cfg, stem_log, block):
    from geckolib.async_spa import GeckoAsyncSpa
    from geckolib.async_spa_descriptor import GeckoAsyncSpaDescriptor
    from geckolib.async_tasks import AsyncTasks

    async def ev(*a, **k):
        pass
    P, C, L = load_classes(stem_pack, stem_cfg, stem_log)
    tm = AsyncTasks()
    spa = GeckoAsyncSpa(b"IOS00000000", GeckoAsyncSpaDescriptor(b"SPA01:02:03:04:05:06", "x", ("10.0.0.1", 10022)), tm, ev)
    spa.pack_class = P(spa.struct)
    spa.pack_type = spa.pack_class.type
    spa.config_class = C(spa.struct)
    spa.log_class = L(spa.struct)
    spa.config_version = spa.config_class.version
    spa.log_version = spa.log_class.version
    spa.struct.set_status_block(bytes(block))
    spa.struct.build_accessors(spa.config_class, spa.log_class)
    spa._is_connected = True
    return spa, tm


class FakeTaskman:
    unique_id = "uid"
    spa_name = "spa"

    def __init__(self):
        self.tasks = []

    def add_task(self, coro, name, key):
        coro.close()
        self.tasks.append((name, key))

    def cancel_key_tasks(self, key):
        pass


def build_async_facade(stem_pack, stem_cfg, stem_log, block):
    from geckolib.automation.async_facade import GeckoAsyncFacade
    spa, tm = make_async_spa(stem_pack, stem_cfg, stem_log, block)
    ftm = FakeTaskman()
    return GeckoAsyncFacade(spa, ftm), spa


def build_sync_facade(stem_pack, stem_cfg, stem_log, block):
    """GeckoFacade._on_connected on a GeckoSpa whose structure has been populated (no threads started)."""
    import threading
    from geckolib.automation.facade import GeckoFacade
    from geckolib.spa import GeckoSpa
    from geckolib.spa_descriptor import GeckoSpaDescriptor
    P, C, L = load_classes(stem_pack, stem_cfg, stem_log)
    spa = GeckoSpa(GeckoSpaDescriptor(b"IOS00000000", b"SPA01:02:03:04:05:06", "x", ("10.0.0.1", 10022)))
    spa.struct.set_status_block(bytes(block))
    spa.struct.build_accessors(C(spa.struct), L(spa.struct))
    spa._is_connected = True
    real_start = threading.Thread.start
    threading.Thread.start = lambda self: None
    try:
        fac = GeckoFacade(spa)
    finally:
        threading.Thread.start = real_start
    fac._on_connected(spa)
    return fac, spa


READONLY = ["unique_id", "name", "spa", "reminders_manager", "water_heater", "water_care", "keypad", "pumps", "blowers", "lights", "sensors",
            "binary_sensors", "error_sensor", "eco_mode", "all_user_devices", "all_config_change_devices", "all_automation_devices", "devices"]


def eval_members(fac, is_async=True):
    """Evaluate every public read-only member of the facade and of its devices; returns list of (member, exception) that raised."""
    bad = []

    def tryit(name, fn):
        try:
            return fn()
        except Exception as e:   # noqa
            bad.append((name, type(e).__name__ + ": " + str(e)[:80]))
            return None
    for m in READONLY:
        if hasattr(type(fac), m):
            tryit("facade." + m, lambda m=m: getattr(fac, m))
    devs = tryit("facade.all_automation_devices", lambda: [d for d in fac.all_automation_devices if d is not None]) or []
    for d in devs:
        n = type(d).__name__ + ":" + str(getattr(d, "_key", "?"))
        for attr in ("name", "key", "unique_id", "parent_name", "parent_unique_id", "monitor", "is_on", "mode", "modes", "state", "unit_of_measurement",
                     "device_class", "is_present", "target_temperature", "real_target_temperature", "current_temperature", "min_temp", "max_temp",
                     "temperature_unit", "current_operation", "reminders", "last_update"):
            if hasattr(type(d), attr) or attr in getattr(d, "__dict__", {}):
                tryit(n + "." + attr, lambda d=d, attr=attr: getattr(d, attr))
        tryit(n + ".str", lambda d=d: str(d))
        tryit(n + ".repr", lambda d=d: repr(d))
    for k in tryit("facade.devices", lambda: list(fac.devices)) or []:
        got = tryit("get_device(%s)" % k, lambda k=k: fac.get_device(k))
        if got is not None and got.key != k:
            bad.append(("get_device(%s)" % k, "returned device with key %s" % got.key))
    es = getattr(fac, "error_sensor", None) if is_async else getattr(fac, "_error_sensor", None)
    if es is not None:
        tryit("error_sensor.state", lambda: es.state)
        tryit("error_sensor.str", lambda: repr(es))
    return bad
