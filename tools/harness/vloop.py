"""Virtual-time asyncio loop + fake UDP + in-process simulator peer.

VLoop is a SelectorEventLoop whose selector never blocks: when asyncio would wait for
the next timer it advances a virtual clock instead. time.monotonic is patched to the
loop's clock while a VLoop runs (geckolib reads time.monotonic directly), so 200 virtual
seconds cost well under a second of wall time and runs are deterministic.
"""
import asyncio
import contextlib
import io
import selectors
import time

_real_monotonic = time.monotonic


class _FakeSelector(selectors.BaseSelector):
    def __init__(self, loop):
        self._loop = loop
        self._map = {}

    def register(self, fileobj, events, data=None):
        k = selectors.SelectorKey(fileobj, fileobj if isinstance(fileobj, int) else fileobj.fileno(), events, data)
        self._map[k.fd] = k
        return k

    def unregister(self, fileobj):
        fd = fileobj if isinstance(fileobj, int) else fileobj.fileno()
        return self._map.pop(fd)

    def modify(self, fileobj, events, data=None):
        self.unregister(fileobj)
        return self.register(fileobj, events, data)

    def select(self, timeout=None):
        if timeout is None:
            raise RuntimeError("deadlock: nothing scheduled")
        if timeout > 0:
            self._loop._vtime += timeout
        return []

    def get_map(self):
        return self._map

    def close(self):
        pass


class FakeTransport(asyncio.DatagramTransport):
    def __init__(self, loop, proto, n, local=None):
        super().__init__()
        self.loop = loop
        self.proto = proto
        self.closed = False
        self.n = n
        self.addr = local or ("10.0.0.9", 40000 + n)
        self.sent = []
        self.opened_at = loop.time()
        self.closed_at = None

    def sendto(self, data, addr=None):
        if self.closed:
            return
        self.sent.append((self.loop.time(), data, addr))
        if self.loop.net is not None:
            self.loop.net(self, data, addr)

    def close(self):
        if not self.closed:
            self.closed = True
            self.closed_at = self.loop.time()
            self.loop.call_soon(self.proto.connection_lost, None)

    def is_closing(self):
        return self.closed

    def abort(self):
        self.close()

    def get_extra_info(self, name, default=None):
        if name == "sockname":
            return self.addr
        return default


class VLoop(asyncio.SelectorEventLoop):
    def __init__(self, t0=1000.0):
        self._vtime = t0
        super().__init__(selector=_FakeSelector(self))
        self.endpoints = []
        self.net = None
        self.iterations = 0
        self.on_iteration = None      # callback(iteration number) run before each pass of the event loop

    def _run_once(self):
        self.iterations += 1
        if self.on_iteration is not None:
            self.on_iteration(self.iterations)
        super()._run_once()

    def time(self):
        return self._vtime

    async def create_datagram_endpoint(self, protocol_factory, **kw):
        proto = protocol_factory()
        tr = FakeTransport(self, proto, len(self.endpoints) + 1)
        tr.kw = kw
        self.endpoints.append(tr)
        # as the selector loop does: connection_made is called on the next pass and the creating coroutine resumes after it (one real
        # suspension inside the call); an exception thrown into the wait (a cancellation) closes the transport again
        waiter = self.create_future()

        def made():
            proto.connection_made(tr)
            if not waiter.done():
                waiter.set_result(None)
        self.call_soon(made)
        try:
            await waiter
        except BaseException:
            tr.close()
            raise
        return tr, proto

    def jump(self, dt):
        """event-loop stall: the clock moves while nothing runs"""
        self._vtime += dt


@contextlib.contextmanager
def virtual_time(loop):
    time.monotonic = loop.time
    try:
        yield loop
    finally:
        time.monotonic = _real_monotonic


def run(coro_fn, t0=1000.0):
    """Run coro_fn(loop) on a fresh VLoop with time.monotonic patched; returns its result."""
    loop = VLoop(t0)
    # geckolib keeps one module-global future for 'the configuration changed' and mutates one module-global timing table: a fresh
    # process starts with neither; every run here starts the same way (a future of an earlier, closed loop must not leak in)
    try:
        import geckolib.config as _C
        _C.ConfigChange = None
        _idle = _C._GeckoIdleConfig()
        for _m in _C.CONFIG_MEMBERS:
            setattr(_C.GeckoConfig, _m, getattr(_idle, _m))
    except Exception:  # noqa
        pass
    asyncio.set_event_loop(loop)
    try:
        with virtual_time(loop):
            return loop.run_until_complete(coro_fn(loop))
    finally:
        try:
            pending = [t for t in asyncio.all_tasks(loop) if not t.done()]
            for t in pending:
                t.cancel()
            if pending:
                with virtual_time(loop):
                    loop.run_until_complete(asyncio.gather(*pending, return_exceptions=True))
        finally:
            asyncio.set_event_loop(None)
            loop.close()


def quiet():
    return contextlib.redirect_stdout(io.StringIO())


def make_sim(snapshot_file=None, block=None):
    from geckolib import GeckoSimulator
    with quiet():
        sim = GeckoSimulator()
        if snapshot_file:
            sim.do_load(snapshot_file)
    sim._reliability = 1.0
    # GeckoCmd installs a stderr StreamHandler on the root logger: keep the harness output clean
    import logging
    for h in list(logging.getLogger().handlers):
        if isinstance(h, logging.StreamHandler) and not isinstance(h, logging.FileHandler) and type(h) is logging.StreamHandler:
            logging.getLogger().removeHandler(h)
    if block is not None:
        sim.structure.set_status_block(bytes(block))
    return sim


SIMADDR = ("10.0.0.1", 10022)


def sim_replies(sim, data, addr):
    """Feed one datagram to the in-process simulator; returns the reply datagrams (bytes), in order."""
    with quiet():
        sim._socket.dispatch_recevied_data(data, addr)
    out = sim._socket._send_handlers
    sim._socket._send_handlers = []
    return [h.send_bytes for h, dest in out]


def sim_net(sim, loop, latency=0.01, script=None):
    """Network between the client's fake transports and the simulator.
    script(direction, data) -> list of (delay, data) deliveries (default: deliver once after `latency`).
    A reply batch is delivered in one callback, in order (equal-deadline timers would be re-ordered)."""
    def net(tr, data, addr):
        ups = [(0.0, data)] if script is None else script("up", data)
        for d_up, dat in ups:
            def arrive(dat=dat):
                batch = sim_replies(sim, dat, tr.addr)
                downs = []
                for b in batch:
                    downs += [(latency, b)] if script is None else script("down", b)
                by_delay = {}
                for dl, b in downs:
                    by_delay.setdefault(dl, []).append(b)
                for dl, bs in sorted(by_delay.items()):
                    def deliver(bs=bs):
                        for b in bs:
                            if not tr.closed:
                                tr.proto.datagram_received(b, SIMADDR)
                    loop.call_later(dl, deliver)
            if d_up <= 0:
                arrive()
            else:
                loop.call_later(d_up, arrive)
    return net
