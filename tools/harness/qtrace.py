"""Record, from the harness process, every access of the connection's tasks to the peekable receive queue as a label
stream in real execution order: put (datagram_received or re-queue), poll (a task looks at the head), pop.
The unhandled consumer's `mark` and `is_marked` accesses are recorded too, so its two phases are visible."""
import asyncio

CLASSES = None


def class_table():
    """handler classes in a fixed order; index 1 is the packet handler (Dispatch.PACKET_CLASS)"""
    global CLASSES
    if CLASSES is None:
        from geckolib.driver import protocol as P

        class MS:
            def queue_send(self, *a):
                pass

            def get_and_increment_sequence_counter(self, c):
                return 1
        CLASSES = [("Hello", P.GeckoHelloProtocolHandler(b"")), ("Packet", P.GeckoPacketProtocolHandler()), ("Ping", P.GeckoPingProtocolHandler()),
                   ("Version", P.GeckoVersionProtocolHandler()), ("GetChannel", P.GeckoGetChannelProtocolHandler()), ("ConfigFile", P.GeckoConfigFileProtocolHandler()),
                   ("StatusBlock", P.GeckoStatusBlockProtocolHandler()), ("PartialStatusBlock", P.GeckoAsyncPartialStatusBlockProtocolHandler(MS())),
                   ("PackCommand", P.GeckoPackCommandProtocolHandler()), ("Watercare", P.GeckoWatercareProtocolHandler()), ("WatercareError", P.GeckoWatercareErrorHandler()),
                   ("Reminders", P.GeckoRemindersProtocolHandler()), ("UpdateFirmware", P.GeckoUpdateFirmwareProtocolHandler()), ("RFErr", P.GeckoRFErrProtocolHandler())]
    return CLASSES


def class_index(handler):
    name = type(handler).__name__
    for i, (n, h) in enumerate(class_table()):
        if type(h).__name__ == name or (n == "PartialStatusBlock" and "PartialStatusBlock" in name):
            return i
    return None


def acceptors(data):
    return [i for i, (n, h) in enumerate(class_table()) if h.can_handle(data, ("x", 1))]


class Trace:
    def __init__(self, spa_getter):
        self.log = []               # ("put", dgram) | ("poll", cons, popped?)
        self.spa_getter = spa_getter
        self._patched = []
        self._pending = {}          # task -> index of its open poll entry
        self.waiter_class = {}      # task -> class index while inside wait_for_response

    def dgram(self, item):
        data, sender = item
        acc = acceptors(data)
        if 1 in acc:
            from geckolib.driver.protocol import GeckoPacketProtocolHandler
            h = GeckoPacketProtocolHandler()
            h.handle(data, sender)
            spa = self.spa_getter()
            ours = spa is not None and h.parms == spa.sendparms
            inner = acceptors(h.packet_content) if h.packet_content is not None else []
            return ("packet", ours, inner)
        return ("plain", acc)

    def install(self):
        from geckolib.driver.async_peekablequeue import AsyncPeekableQueue as Q
        from geckolib.driver.udp_protocol_handler import GeckoUdpProtocolHandler as H
        tr = self
        real = {k: getattr(Q, k) for k in ("head", "is_marked", "pop", "mark", "put_nowait")}
        real_wait = H.wait_for_response
        real_consume = H.consume

        def task():
            t = asyncio.current_task()
            return t.get_name() if t else "?"

        def cons_of(name):
            if name == "SPA:Unhandled packet":
                return ("unh",)
            c = tr.waiter_class.get(name)
            return ("k", c) if c is not None else ("k", tr.consumer_class.get(name))

        tr.consumer_class = {}

        def head(q):
            h = real["head"].fget(q)
            name = task()
            if name == "SPA:Unhandled packet":
                ph = tr._unh_phase.get(id(q), "idle")
                if ph == "idle":
                    tr.log.append(["poll", ("unh",), False])      # idle-phase poll: marks (and sleeps) iff there is a head
                    if h is not None:
                        tr._unh_phase[id(q)] = "sleeping"
                # in the waking phase the read only unpacks the head it is about to pop
                return h
            pend = tr._pending.get(name)
            if pend is None or pend[1] >= 2:
                # first read of a new loop iteration of this task
                tr.log.append(["poll", cons_of(name), False])
                tr._pending[name] = [len(tr.log) - 1, 1]
            else:
                pend[1] = 2                      # second read of the same iteration (data, sender = queue.head)
            if h is None:
                tr._pending[name] = None
            return h

        tr._unh_phase = {}

        def is_marked(q):
            m = real["is_marked"].fget(q)
            if task() == "SPA:Unhandled packet":
                # one poll per wake-up: the consumer may look at the mark twice in the same wake-up (loop test, then the pop test)
                lp = asyncio.get_running_loop()
                stamp = (getattr(lp, "iterations", None), lp.time())
                if tr._unh_wake.get(id(q)) != stamp or stamp[0] is None:
                    tr.log.append(["poll", ("unh",), False])      # wake-up in the mark phase: pops iff still marked and out of patience
                    tr._unh_wake[id(q)] = stamp
                    tr._unh_idx[id(q)] = len(tr.log) - 1
                tr._pending["SPA:Unhandled packet"] = [tr._unh_idx[id(q)], 2]
                tr._unh_phase[id(q)] = "waking" if m else "idle"
            return m

        tr._unh_wake, tr._unh_idx = {}, {}

        def pop(q):
            name = task()
            pend = tr._pending.get(name)
            idx = pend[0] if isinstance(pend, list) else pend
            if idx is None:
                # a pop without a recorded poll of this task (should not happen): record it as its own poll
                tr.log.append(["poll", cons_of(name), True])
            else:
                tr.log[idx][2] = True
            tr._pending[name] = None
            if name == "SPA:Unhandled packet":
                tr._unh_phase[id(q)] = "idle"
            return real["pop"](q)

        def put_nowait(q, item):
            tr.log.append(["put", tr.dgram(item), task()])
            return real["put_nowait"](q, item)

        async def wait_for_response(h, protocol):
            name = task()
            tr.waiter_class[name] = class_index(h)
            try:
                return await real_wait(h, protocol)
            finally:
                tr.waiter_class.pop(name, None)
                tr._pending[name] = None

        async def consume(h, protocol):
            tr.consumer_class[task()] = class_index(h)
            return await real_consume(h, protocol)
        Q.head = property(head)
        Q.is_marked = property(is_marked)
        Q.pop = pop
        Q.put_nowait = put_nowait
        H.wait_for_response = wait_for_response
        H.consume = consume
        self._patched = [(Q, "head", real["head"]), (Q, "is_marked", real["is_marked"]), (Q, "pop", real["pop"]), (Q, "put_nowait", real["put_nowait"]),
                         (H, "wait_for_response", real_wait), (H, "consume", real_consume)]
        return self

    def remove(self):
        for obj, name, val in self._patched:
            setattr(obj, name, val)
