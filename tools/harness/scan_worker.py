"""Runs the REAL _scan_outputs / scan_outputs of both facades for synthetic output wirings.
stdin: JSON {"cfg": stem, "log": stem, "wirings": [{output: label, ...}, ...]}; stdout: JSON results.
Run as a subprocess so that PYTHONHASHSEED can be varied (the threaded facade used a set())."""
import json
import struct
import sys
import importlib


class Stub:
    pass


def build(cfg, log):
    from geckolib.driver.async_spastruct import GeckoAsyncStructure
    st = GeckoAsyncStructure(None, None)
    C = importlib.import_module("geckolib.driver.packs." + cfg).GeckoConfigStruct(st)
    L = importlib.import_module("geckolib.driver.packs." + log).GeckoLogStruct(st)
    st.build_accessors(C, L)
    return st


def set_enum(st, acc, label):
    idx = acc.items.index(label)
    blk = bytearray(st.status_block)
    cur = struct.unpack(acc.format, bytes(blk[acc.pos:acc.pos + acc.length]))[0]
    if acc.bitpos is not None:
        cur = (cur & ~(acc.bitmask << acc.bitpos)) | ((idx & acc.bitmask) << acc.bitpos)
    else:
        cur = idx
    blk[acc.pos:acc.pos + acc.length] = struct.pack(acc.format, cur)
    st.set_status_block(bytes(blk))


def describe(fac):
    def dev(d):
        return {"key": d.key, "name": d.name, "class": type(d).__name__, "uid": d.unique_id,
                "demand": getattr(d, "_user_demand", {}).get("demand") if hasattr(d, "_user_demand") else None,
                "modes": list(d.modes) if hasattr(d, "modes") and hasattr(d, "_user_demand") else None,
                "keypad": getattr(d, "_keypad_button", None), "device_class": getattr(d, "device_class", None)}
    return {"pumps": [dev(d) for d in fac._pumps], "blowers": [dev(d) for d in fac._blowers], "lights": [dev(d) for d in fac._lights],
            "sensors": [d.key for d in fac._sensors], "binary_sensors": [d.key for d in fac._binary_sensors],
            "eco": fac._ecomode.key if getattr(fac, "_ecomode", None) is not None else None}


def main():
    req = json.load(sys.stdin)
    from geckolib.automation import async_facade as AF
    from geckolib.automation import facade as F
    out = []
    for w in req["wirings"]:
        st = build(req["cfg"], req["log"])
        for o, label in w.items():
            set_enum(st, st.accessors[o], label)
        res = {}
        for name, fn in (("async", AF.GeckoAsyncFacade._scan_outputs), ("sync", F.GeckoFacade.scan_outputs)):
            fac = Stub()
            fac.unique_id = "uid"
            fac.name = "spa"
            fac._spa = Stub()
            fac._spa.struct = st
            fac._spa.accessors = st.accessors
            fac.spa = fac._spa
            fac.facade = fac
            fac._ecomode = None
            try:
                fn(fac)
                res[name] = describe(fac)
            except Exception as e:
                res[name] = {"error": type(e).__name__ + ": " + str(e)}
        out.append(res)
    json.dump(out, sys.stdout)


main()
