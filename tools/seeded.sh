#!/bin/bash
# usage: tools/seeded.sh <seed-id> <worktree> <property> [more properties to run...]
# confirms the seeded change in its scratch worktree, stores it under /verif/seeded/<id>, applies it to /repo, runs the checks, undoes it.
set -u
id=$1; wt=$2; shift 2
dst=/verif/seeded/$id
mkdir -p $dst
git -C $wt diff > $dst/patch.diff
cp $wt/demo.py $dst/demo.py 2>/dev/null; cp $wt/DEMO.md $dst/DEMO.md 2>/dev/null
# 1. confirm: demo on changed code exits 1, on original exits 0, test-suite passes on changed code
( cd $wt && PYTHONPATH=$wt/src timeout 600 /venv/bin/python $wt/demo.py > $dst/demo_changed.out 2>&1 ); rc_changed=$?
( cd $wt && git apply -R $dst/patch.diff && PYTHONPATH=$wt/src timeout 600 /venv/bin/python $wt/demo.py > $dst/demo_original.out 2>&1; echo $? > $dst/.rc_orig; git apply $dst/patch.diff )
rc_orig=$(cat $dst/.rc_orig); rm -f $dst/.rc_orig
tests=$(cd $wt && PYTHONPATH=$wt/src timeout 900 /venv/bin/python -m pytest -q -p no:cacheprovider tests 2>&1 | tail -1)
echo "confirm: demo changed rc=$rc_changed original rc=$rc_orig tests: $tests"
# 2. run the checks against it
git -C /repo apply $dst/patch.diff || { echo "patch does not apply"; exit 2; }
res=""
for p in "$@"; do
  out=$(cd /verif && VERIF_EVIDENCE_DIR=/tmp/seed_evidence timeout 2400 ./check $p 2>&1 | grep -v '^KNOWN-FINDING' | tail -4)
  echo "$out" | tail -3
  v=$(echo "$out" | grep -c '^VIOLATION')
  nf=$(echo "$out" | grep -c 'no-failing-input-found')
  res="$res $p:violations=$v,nofailinginput=$nf"
  rp=$(echo "$out" | grep '^VIOLATION' | head -1 | sed 's/.*replay=\([^ ]*\).*/\1/')
  [ -n "$rp" ] && cp "$rp" $dst/replay_$p.json
done
git -C /repo checkout -- .
echo "RESULT $id demo_changed=$rc_changed demo_original=$rc_orig tests='$tests' $res" | tee $dst/result.txt
git -C /repo status --short | head -3
