"""Regenerate the pack tables (13 pack / 83 cfg / 68 log modules) as Coq data.

Every module under geckolib/driver/packs is imported from the current working
tree, its classes instantiated, and for every accessor BOTH the arguments the
module passed to GeckoStructAccessor.__init__ (recorded by wrapping the
constructor) and the attributes the real constructor derived (length, format,
bitmask) are emitted, so Coq checks `derive decl = shape` for all items.

Output: coq/Gen/Labels.v (interned label lists), coq/Gen/Tables/T_<stem>.v (one
per module, with its obligation), coq/Gen/AllTables.v (index + combined lemma).
"""
import importlib
import os
import re
import sys

import vf

PACKS_DIR = os.path.join(vf.SRC, "geckolib", "driver", "packs")
TYPES = {"Byte": "TByte", "Word": "TWord", "Time": "TTime", "Bool": "TBool", "Enum": "TEnum"}

_loaded = None
LABEL_IDS = {}


class _S:
    pass


def coq_ident(stem):
    return "T_" + re.sub(r"[^A-Za-z0-9]", "_", stem)


def load_tables(force=False):
    """Returns list of dict per module (sorted by stem)."""
    global _loaded
    if _loaded is not None and not force:
        return _loaded
    from geckolib.driver import accessor as A
    if not getattr(A.GeckoStructAccessor.__init__, "_verif_wrapped", False):
        orig = A.GeckoStructAccessor.__init__

        def wrap(self, struct_, tag, pos, type, bitpos, items, size, maxitems, rw):
            orig(self, struct_, tag, pos, type, bitpos, items, size, maxitems, rw)
            self._decl = (type, pos, bitpos, items, size, maxitems, rw)
        wrap._verif_wrapped = True
        A.GeckoStructAccessor.__init__ = wrap
    mods = []
    for fn in sorted(os.listdir(PACKS_DIR)):
        if not fn.endswith(".py") or fn == "__init__.py":
            continue
        stem = fn[:-3]
        name = "geckolib.driver.packs." + stem
        if name in sys.modules:
            del sys.modules[name]
        m = importlib.import_module(name)
        kinds = [c for c in ("GeckoPack", "GeckoConfigStruct", "GeckoLogStruct") if hasattr(m, c)]
        if len(kinds) != 1:
            raise ValueError("module %s defines %r" % (stem, kinds))
        kind = kinds[0]
        st = _S()
        st.accessors = {}
        obj = getattr(m, kind)(st)
        rec = {"stem": stem, "kind": {"GeckoPack": "KPack", "GeckoConfigStruct": "KCfg", "GeckoLogStruct": "KLog"}[kind],
               "items": [], "outputs": [], "devices": [], "demands": [], "errors": [], "begin": 0, "end": 0,
               "version": 0, "pack_name": "", "pack_type": 0, "revision": ""}
        if kind == "GeckoPack":
            rec["pack_name"] = obj.name
            rec["pack_type"] = int(obj.type)
            rec["revision"] = str(obj.revision)
        else:
            rec["version"] = int(obj.version)
            if kind == "GeckoConfigStruct":
                rec["outputs"] = list(obj.output_keys)
            else:
                rec["begin"], rec["end"] = int(obj.begin), int(obj.end)
                rec["devices"] = list(obj.all_device_keys)
                rec["demands"] = list(obj.user_demand_keys)
                rec["errors"] = list(obj.error_keys)
            accs = obj.accessors
            for key, a in accs.items():
                typ, pos, bitpos, items, size, maxitems, rw = a._decl
                if isinstance(items, str):
                    items = items.split("|")
                rec["items"].append({
                    "key": key, "tag": a.tag, "type": typ, "pos": pos, "bitpos": bitpos,
                    "items": list(items) if items is not None else None, "size": size,
                    "maxitems": (int(maxitems) if maxitems is not None else None), "rw": rw,
                    "temp": isinstance(a, A.GeckoTempStructAccessor),
                    "length": a.length, "two": a.format == ">H", "format": a.format,
                    "mask": getattr(a, "bitmask", None),
                })
        mods.append(rec)
    _loaded = mods
    return mods


# ---------------------------------------------------------------- python mirror of Model/TableWf.item_ok (for the oracle)
def mask_width(m):
    return {1: 1, 3: 2, 7: 3, 15: 4}.get(m)


def item_problems(it):
    p = []
    ln = it["length"]
    if it["format"] not in (">B", ">H"):
        p.append("format %r" % it["format"])
    if not (isinstance(it["pos"], int) and 0 <= it["pos"] and it["pos"] + ln <= 1024):
        p.append("bytes [%s,%s) not inside the 1024-byte block" % (it["pos"], it["pos"] + ln))
    if ln not in (1, 2) or (ln == 2) != it["two"]:
        p.append("length %s does not match format %s" % (ln, it["format"]))
    if it["bitpos"] is not None:
        w = mask_width(it["mask"])
        if w is None or it["bitpos"] < 0 or it["bitpos"] + w > 8 * ln:
            p.append("bit field (bitpos %s, mask %s) not inside its %d byte(s)" % (it["bitpos"], it["mask"], ln))
    if it["type"] == "Enum":
        if it["items"] is None:
            p.append("enum without labels")
        else:
            cap = (it["mask"] + 1) if (it["bitpos"] is not None and it["mask"] is not None) else 256 ** ln
            if len(it["items"]) > cap:
                p.append("%d labels do not fit the field (capacity %d)" % (len(it["items"]), cap))
    if it["key"] != it["tag"]:
        p.append("dictionary key %r differs from tag %r" % (it["key"], it["tag"]))
    return p


# ---------------------------------------------------------------- Coq emission
def _oz(x):
    return "None" if x is None else "(Some %d)" % x


def decl_coq(it, tag="t"):
    """Coq `decl` literal for a regenerated item (labels by interned id, see Gen/Labels.v)."""
    return "(mkDecl %s %s %d %s %s %s %s %s %s)" % (
        vf.cstr(tag), TYPES[it["type"]], it["pos"], _oz(it["bitpos"]),
        "None" if it["items"] is None else "(Some lbl_%d)" % LABEL_IDS[tuple(it["items"])],
        _oz(it["size"]), _oz(it["maxitems"]), vf.cbool(it["rw"] is not None), vf.cbool(it["temp"]))


def emit(mods, outdir, label_path, label_mod, modpath, prefix, obligation):
    """Write label file + one Coq file per module; returns the module identifiers."""
    labels = {}
    for m in mods:
        for it in m["items"]:
            if it["items"] is not None:
                labels.setdefault(tuple(it["items"]), len(labels))
    if prefix == "T_":
        LABEL_IDS.clear()
        LABEL_IDS.update(labels)
    txt = "(* GENERATED from /repo by tools/gen_tables.py - do not edit *)\nFrom Coq Require Import List String.\nImport ListNotations.\nOpen Scope string_scope.\n"
    for ls, i in sorted(labels.items(), key=lambda kv: kv[1]):
        txt += "Definition lbl_%d : list string := [%s].\n" % (i, "; ".join(vf.cstr(s) for s in ls))
    vf.write_if_changed(label_path, txt)
    os.makedirs(outdir, exist_ok=True)
    wanted = set()
    sl = lambda xs: "[" + "; ".join(vf.cstr(x) for x in xs) + "]"
    for m in mods:
        ident = prefix + coq_ident(m["stem"])[2:]
        wanted.add(ident + ".v")
        t = "(* GENERATED from /repo (geckolib/driver/packs/%s.py) by tools/gen_tables.py - do not edit *)\n" % m["stem"]
        t += "From Coq Require Import ZArith List String Bool.\nRequire Import GV.Model.Accessor GV.Model.TableWf %s.\nImport ListNotations.\nOpen Scope string_scope. Open Scope Z_scope.\n" % label_mod
        t += "Definition items : list titem := [\n"
        rows = []
        for it in m["items"]:
            rows.append("  mkT (mkDecl %s %s %d %s %s %s %s %s %s) (mkShape %d %s %s)" % (
                vf.cstr(it["tag"]), TYPES[it["type"]], it["pos"], _oz(it["bitpos"]),
                "None" if it["items"] is None else "(Some lbl_%d)" % labels[tuple(it["items"])],
                _oz(it["size"]), _oz(it["maxitems"]), vf.cbool(it["rw"] is not None), vf.cbool(it["temp"]),
                it["length"], vf.cbool(it["two"]), _oz(it["mask"])))
        t += ";\n".join(rows) + "\n].\n"
        t += "Definition table : tmodule := mkM %s %s %d %s %d %s %d %d %s %s %s %s items.\n" % (
            vf.cstr(m["stem"]), m["kind"], m["version"], vf.cstr(m["pack_name"]), m["pack_type"], vf.cstr(m["revision"]),
            m["begin"], m["end"], sl(m["outputs"]), sl(m["devices"]), sl(m["demands"]), sl(m["errors"]))
        if obligation:
            t += "Lemma ok : module_ok table = true.\nProof. vm_compute. reflexivity. Qed.\n"
        vf.write_if_changed(os.path.join(outdir, ident + ".v"), t)
    for fn in os.listdir(outdir):
        if fn.endswith(".v") and fn.startswith(prefix) and fn not in wanted:
            os.remove(os.path.join(outdir, fn))
            for ext in (".vo", ".vok", ".vos", ".glob"):
                try:
                    os.remove(os.path.join(outdir, fn[:-2] + ext))
                except FileNotFoundError:
                    pass
    return [prefix + coq_ident(m["stem"])[2:] for m in mods]


def gen_tables():
    mods = load_tables(force=True)
    idents = emit(mods, os.path.join(vf.GEN, "Tables"), os.path.join(vf.GEN, "Labels.v"), "GV.Gen.Labels", "GV.Gen.Tables", "T_", True)
    a = "(* GENERATED by tools/gen_tables.py - do not edit *)\nFrom Coq Require Import List String Bool.\nRequire Import GV.Model.Accessor GV.Model.TableWf.\n"
    for i in idents:
        a += "Require GV.Gen.Tables.%s.\n" % i
    a += "Import ListNotations.\n"
    a += "Definition all_tables : list tmodule := [\n" + ";\n".join("  %s.table" % i for i in idents) + "\n].\n"
    a += "Lemma all_tables_ok : forallb module_ok all_tables = true.\nProof.\n  unfold all_tables. cbn [forallb].\n"
    for i in idents:
        a += "  rewrite %s.ok.\n" % i
    a += "  reflexivity.\nQed.\n"
    vf.write_if_changed(os.path.join(vf.GEN, "AllTables.v"), a)
    gen_pincheck(idents)
    return mods


def gen_pinned():
    """Run once at the audited commit: writes the committed coq/Pinned/*.v."""
    mods = load_tables(force=True)
    pdir = os.path.join(vf.COQ, "Pinned")
    emit(mods, pdir, os.path.join(pdir, "PLabels.v"), "GV.Pinned.PLabels", "GV.Pinned", "P_", False)
    import json
    with open(os.path.join(pdir, "layout.json"), "w") as f:
        json.dump({m["stem"]: layout_of(m) for m in mods}, f, separators=(",", ":"), sort_keys=True)


def layout_of(m):
    """The published layout of a module: what C18 says must never change."""
    return {"version": m["version"], "pack_type": m["pack_type"], "begin": m["begin"], "end": m["end"],
            "items": {it["tag"]: [it["type"], it["pos"], it["length"], it["bitpos"], it["mask"], it["items"], it["rw"] is not None, it["temp"]]
                      for it in m["items"]}}


def gen_pincheck(current_idents):
    """Gen/PinCheck.v: every pinned module must exist in the current tree with an identical layout."""
    pdir = os.path.join(vf.COQ, "Pinned")
    pinned = sorted(fn[2:-2] for fn in os.listdir(pdir) if fn.startswith("P_") and fn.endswith(".v"))
    cur = {i[2:] for i in current_idents}
    t = "(* GENERATED by tools/gen_tables.py - do not edit *)\nFrom Coq Require Import List String Bool.\nRequire Import GV.Model.Accessor GV.Model.TableWf GV.Gen.AllTables.\n"
    for s in pinned:
        t += "Require GV.Pinned.P_%s.\n" % s
    t += "Import ListNotations.\n"
    t += "Definition pinned_tables : list tmodule := [\n" + ";\n".join("  GV.Pinned.P_%s.table" % s for s in pinned) + "\n].\n"
    t += "Definition find_module (file : string) : option tmodule := find (fun m => String.eqb (m_file m) file) all_tables.\n"
    t += "Definition pin_ok (p : tmodule) : bool := match find_module (m_file p) with Some c => layout_eqb p c | None => false end.\n"
    for s in pinned:
        t += "Lemma pin_%s : pin_ok GV.Pinned.P_%s.table = true.\nProof. vm_compute. reflexivity. Qed.\n" % (s, s)
    t += "Lemma all_pinned_ok : forallb pin_ok pinned_tables = true.\nProof.\n  unfold pinned_tables. cbn [forallb].\n"
    for s in pinned:
        t += "  rewrite pin_%s.\n" % s
    t += "  reflexivity.\nQed.\n"
    vf.write_if_changed(os.path.join(vf.GEN, "PinCheck.v"), t)
    return pinned


if __name__ == "__main__":
    mods = load_tables()
    n = 0
    for m in mods:
        tags = {it["tag"] for it in m["items"]}
        for it in m["items"]:
            n += 1
            pr = item_problems(it)
            if pr:
                print(m["stem"], it["tag"], pr)
        for k in m["outputs"] + m["demands"] + m["errors"]:
            if k not in tags:
                print(m["stem"], "key does not resolve:", k)
    print(len(mods), "modules", n, "items")
