"""Regenerates Part I of DESIGN.md (between the AS-BUILT markers) from tools/design_asbuilt.md, the table in
tools/mkmanifest.py, the theorem names in coq/Props, known_findings.json and seeded/*/meta.json."""
import glob
import json
import os
import re

ROOT = os.path.dirname(os.path.dirname(os.path.abspath(__file__)))
BEGIN, END = "<!-- BEGIN AS-BUILT -->", "<!-- END AS-BUILT -->"


def theorems(pid):
    p = os.path.join(ROOT, "coq", "Props", pid + ".v")
    if not os.path.exists(p):
        return []
    return re.findall(r"^(?:Theorem|Corollary)\s+([A-Za-z0-9_']+)", open(p).read(), re.M)


def main():
    import mkmanifest
    titles = {json.loads(l)["id"]: json.loads(l)["title"] for l in open(os.path.join(ROOT, "properties.jsonl"))}
    out = [open(os.path.join(ROOT, "tools", "design_asbuilt.md")).read().rstrip(), "", "### I.7 Per property: what is proved, how it is tied to the code, what is trusted", ""]
    known = json.load(open(os.path.join(ROOT, "known_findings.json")))["findings"]
    for pid in sorted(mkmanifest.CLAIMED):
        c = mkmanifest.CLAIMED[pid]
        out.append("#### %s - %s" % (pid, titles.get(pid, "")))
        out.append("")
        out.append("*Technique.* %s" % c["technique"])
        out.append("")
        out.append("*What is decided.* %s" % c["text"])
        out.append("")
        out.append("*Trusted / partial.* %s" % c["note"])
        out.append("")
        th = theorems(pid)
        out.append("*Theorems (coq/Props/%s.v, %d).* %s" % (pid, len(th), ", ".join("`%s`" % t for t in th)))
        out.append("")
        ks = [k for k in known if k["property"] == pid]
        if ks:
            out.append("*Findings.* " + "; ".join("%s `%s`" % ("open" if k["status"] == "open" else "fixed " + k.get("commit", ""), k["key"]) for k in ks))
            out.append("")
    out += ["### I.8 Seeded changes (made by fresh sub-agents that saw only the property text and a scratch worktree) and which check catches them", ""]
    rows = []
    for m in sorted(glob.glob(os.path.join(ROOT, "seeded", "*", "meta.json"))):
        d = json.load(open(m))
        rows.append("| %s | %s | %s | %s | %s |" % (os.path.basename(os.path.dirname(m)), d.get("property"), d.get("summary", "").replace("|", "/"), d.get("caught_by", ""), d.get("verdict", "")))
    if rows:
        out += ["| id | property | change | caught by | verdict of `./check` |", "|---|---|---|---|---|"] + rows + [""]
    else:
        out += ["(none recorded yet)", ""]
    notes = os.path.join(ROOT, "tools", "design_seeded_notes.md")
    if os.path.exists(notes):
        out += [open(notes).read().rstrip(), ""]
    block = BEGIN + "\n" + "\n".join(out) + "\n" + END
    p = os.path.join(ROOT, "DESIGN.md")
    s = open(p).read()
    if BEGIN in s:
        s = s[:s.index(BEGIN)] + block + s[s.index(END) + len(END):]
    else:
        marker = "---------------------------------------------------------------------------\n\n## 0. One-page summary"
        s = s.replace(marker, block + "\n\n" + marker, 1)
    open(p, "w").write(s)


if __name__ == "__main__":
    import sys
    sys.path.insert(0, os.path.join(ROOT, "tools"))
    main()
