"""C16 extractors (fail-closed).

1. Translate the bodies of the two get_and_increment_sequence_counter methods
   (GeckoAsyncUdpProtocol, GeckoUdpSocket) and the counter initialisers in their
   __init__ from the Python AST into Gallina  -> coq/Gen/Counter.v
2. Extract every call site of get_and_increment_sequence_counter with its
   literal flag and the handler factory the value is passed to -> coq/Gen/SeqSites.v
"""
import ast
import os

import vf


class Unsupported(Exception):
    pass


P, C = "_sequence_counter_protocol", "_sequence_counter_command"
VAR = {P: "p", C: "c"}


def _selfattr(node):
    if isinstance(node, ast.Attribute) and isinstance(node.value, ast.Name) and node.value.id == "self" and node.attr in VAR:
        return VAR[node.attr]
    raise Unsupported(ast.dump(node))


def _int(node):
    if isinstance(node, ast.Constant) and isinstance(node.value, int) and not isinstance(node.value, bool):
        return node.value
    raise Unsupported(ast.dump(node))


def _stmts(body, ind):
    """Translate a statement list that ends in `return self.X`."""
    pad = "  " * ind
    if not body:
        raise Unsupported("fell off the end without return")
    s, rest = body[0], body[1:]
    if isinstance(s, ast.Expr) and isinstance(s.value, ast.Constant) and isinstance(s.value.value, str):
        return _stmts(rest, ind)
    if isinstance(s, ast.Return):
        if rest:
            raise Unsupported("code after return")
        return pad + "((p, c), %s)" % _selfattr(s.value)
    if isinstance(s, ast.AugAssign) and isinstance(s.op, ast.Add):
        v = _selfattr(s.target)
        return pad + "let %s := %s + %d in\n" % (v, v, _int(s.value)) + _stmts(rest, ind)
    if isinstance(s, ast.Assign) and len(s.targets) == 1:
        v = _selfattr(s.targets[0])
        return pad + "let %s := %d in\n" % (v, _int(s.value)) + _stmts(rest, ind)
    if isinstance(s, ast.If):
        t = s.test
        if isinstance(t, ast.Name) and t.id == "command":
            if rest:
                raise Unsupported("code after if command")
            return (pad + "if command then\n" + _stmts(s.body, ind + 1) + "\n" + pad + "else\n" + _stmts(s.orelse, ind + 1))
        if (isinstance(t, ast.Compare) and len(t.ops) == 1 and isinstance(t.ops[0], ast.Eq) and not s.orelse
                and len(s.body) == 1 and isinstance(s.body[0], ast.Assign) and len(s.body[0].targets) == 1):
            v = _selfattr(t.left)
            k = _int(t.comparators[0])
            tv = _selfattr(s.body[0].targets[0])
            nv = _int(s.body[0].value)
            if tv != v:
                raise Unsupported("if tests %s but assigns %s" % (v, tv))
            return pad + "let %s := if %s =? %d then %d else %s in\n" % (v, v, k, nv, v) + _stmts(rest, ind)
        raise Unsupported(ast.dump(t))
    raise Unsupported(ast.dump(s))


def _method(cls, name):
    for n in cls.body:
        if isinstance(n, ast.FunctionDef) and n.name == name:
            return n
    raise Unsupported("no method " + name)


def _translate_class(path, clsname, coqname):
    tree = ast.parse(open(path).read())
    cls = [n for n in tree.body if isinstance(n, ast.ClassDef) and n.name == clsname]
    if len(cls) != 1:
        raise Unsupported("class %s not found once" % clsname)
    cls = cls[0]
    fn = _method(cls, "get_and_increment_sequence_counter")
    args = [a.arg for a in fn.args.args]
    if args != ["self", "command"]:
        raise Unsupported("signature %r" % args)
    body = fn.body
    locked = False
    if len(body) == 1 and isinstance(body[0], ast.With):
        w = body[0]
        if len(w.items) != 1 or ast.unparse(w.items[0].context_expr) != "self._lock":
            raise Unsupported("with item")
        locked = True
        body = w.body
    text = "Definition %s_next (command : bool) (s : Z * Z) : (Z * Z) * Z :=\n  let '(p, c) := s in\n%s.\n" % (coqname, _stmts(body, 1))
    init = {}
    for s in _method(cls, "__init__").body:
        if isinstance(s, ast.Assign) and len(s.targets) == 1:
            try:
                v = _selfattr(s.targets[0])
            except Unsupported:
                continue
            init[v] = _int(s.value)
    if set(init) != {"p", "c"}:
        raise Unsupported("initial values %r" % init)
    text += "Definition %s_init : Z * Z := (%d, %d).\n" % (coqname, init["p"], init["c"])
    text += "Definition %s_locked : bool := %s.\n" % (coqname, vf.cbool(locked))
    return text


def gen_counter():
    drv = os.path.join(vf.SRC, "geckolib", "driver")
    txt = "(* GENERATED from /repo by tools/gen_counter.py - do not edit *)\nFrom Coq Require Import ZArith Bool.\nOpen Scope Z_scope.\n\n"
    txt += _translate_class(os.path.join(drv, "async_udp_protocol.py"), "GeckoAsyncUdpProtocol", "async") + "\n"
    txt += _translate_class(os.path.join(drv, "udp_socket.py"), "GeckoUdpSocket", "sync")
    vf.write_if_changed(os.path.join(vf.GEN, "Counter.v"), txt)
    return txt


# ---------------------------------------------------------------- call sites
def call_sites():
    """[(file, function, lineno, flag, factory)] - factory is the dotted name of the
    innermost enclosing call the counter value is an argument of (through
    struct.pack / b"".join / list nesting up to the handler constructor)."""
    sites = []
    base = os.path.join(vf.SRC, "geckolib")
    for dirpath, _, files in os.walk(base):
        if "packs" in dirpath.split(os.sep):
            continue
        for fn in sorted(files):
            if not fn.endswith(".py"):
                continue
            path = os.path.join(dirpath, fn)
            tree = ast.parse(open(path).read())
            parents = {}
            for node in ast.walk(tree):
                for ch in ast.iter_child_nodes(node):
                    parents[ch] = node
            for node in ast.walk(tree):
                if (isinstance(node, ast.Call) and isinstance(node.func, ast.Attribute)
                        and node.func.attr == "get_and_increment_sequence_counter"):
                    if len(node.args) != 1 or node.keywords:
                        raise Unsupported("%s:%d arguments" % (path, node.lineno))
                    a = node.args[0]
                    if not (isinstance(a, ast.Constant) and isinstance(a.value, bool)):
                        raise Unsupported("%s:%d non-literal flag %s" % (path, node.lineno, ast.dump(a)))
                    # climb to the handler factory
                    cur = node
                    factory = None
                    verb = None
                    func = None
                    while cur in parents:
                        cur = parents[cur]
                        if isinstance(cur, ast.Call) and factory is None:
                            name = ast.unparse(cur.func)
                            if name in ("struct.pack", "b''.join", 'b"".join'):
                                continue
                            factory = name
                            # a raw GeckoPacketProtocolHandler(content=b"".join([VERB, ...]))
                            for kw in cur.keywords:
                                if kw.arg == "content":
                                    for sub in ast.walk(kw.value):
                                        if isinstance(sub, ast.Name) and sub.id.endswith("_VERB"):
                                            verb = sub.id
                                            break
                        if isinstance(cur, (ast.FunctionDef, ast.AsyncFunctionDef)) and func is None:
                            func = cur.name
                    if factory is None:
                        raise Unsupported("%s:%d no factory" % (path, node.lineno))
                    rel = os.path.relpath(path, base)
                    sites.append((rel, func or "?", node.lineno, a.value, factory + ("/" + verb if verb else "")))
    if not sites:
        raise Unsupported("no call sites found")
    return sorted(sites)


def is_pack_command(factory):
    return factory.startswith("GeckoPackCommandProtocolHandler.")


def gen_sites():
    sites = call_sites()
    txt = "(* GENERATED from /repo by tools/gen_counter.py - do not edit *)\nFrom Coq Require Import List String Bool.\nImport ListNotations.\nOpen Scope string_scope.\n\n"
    txt += "(* (file, function, factory, flag passed, factory builds a pack command) *)\n"
    txt += "Definition seq_sites : list (string * string * string * bool * bool) := [\n"
    txt += ";\n".join("  (%s, %s, %s, %s, %s)" % (vf.cstr(f), vf.cstr(fn), vf.cstr(fac), vf.cbool(flag), vf.cbool(is_pack_command(fac)))
                      for (f, fn, ln, flag, fac) in sites)
    txt += "\n].\n"
    vf.write_if_changed(os.path.join(vf.GEN, "SeqSites.v"), txt)
    return sites


if __name__ == "__main__":
    print(gen_counter())
    for s in gen_sites():
        print(s)
