#!/bin/bash
# usage: mk.sh target.vo ...
cd /verif && PYTHONPATH=/repo/src:/verif/tools /venv/bin/python -c "
import vf, sys, time
t=time.time(); import os; ok, log = vf.coq_make(sys.argv[1:], timeout=int(os.environ.get('MK_TIMEOUT','240'))); print('OK' if ok else 'FAIL', round(time.time()-t,1)); print(log[-1800:] if not ok else log[-300:])" "$@"
