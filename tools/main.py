import argparse, importlib, os, sys, subprocess, time, traceback
sys.path.insert(0, os.path.dirname(os.path.abspath(__file__)))
import vf
import logging
logging.lastResort = None
logging.getLogger().addHandler(logging.NullHandler())


def setup():
    import gen_all
    t0 = time.time()
    for k, v in gen_all.regen_all().items():
        print('gen', k, 'ok' if v is None else v)
    ok, log = vf.coq_make(["all"], timeout=3000)
    print(log[-3000:])
    print("setup: %s in %.0fs" % ("ok" if ok else "FAILED", time.time() - t0))
    return 0 if ok else 1


def main():
    ap = argparse.ArgumentParser()
    ap.add_argument("pid", nargs="?")
    ap.add_argument("--setup", action="store_true")
    ap.add_argument("--tier", default=os.environ.get("VERIF_TIER", "quick"))
    ap.add_argument("--replay")
    a = ap.parse_args()
    if a.setup:
        sys.exit(setup())
    seed = int(os.environ.get("VERIF_SEED", "1") or 1)
    mod = importlib.import_module("props." + a.pid)
    if a.replay:
        sys.exit(mod.replay(a.replay))
    ctx = vf.Ctx(a.pid, a.tier, seed)
    try:
        mod.run(ctx)
    except Exception:
        tb = traceback.format_exc()
        print(tb)
        ctx.oblige("driver:no_exception", False, tb[-800:])
    sys.exit(ctx.finish())


main()
