"""Small generated facts (fail-closed introspection): config tables (C17), device/sensor tables (C12), enums (C08)."""
import os

import vf


def _attrs(cls):
    return {a: getattr(cls, a) for a in dir(cls) if not callable(getattr(cls, a)) and not a.startswith("__")}


def config_tables():
    import importlib
    import geckolib.config as C
    C = importlib.reload(C) if False else C
    base, act, idle = _attrs(C._GeckoConfig), _attrs(C._GeckoActiveConfig), _attrs(C._GeckoIdleConfig)
    fields = sorted(set(base) | set(act) | set(idle))
    for f in fields:
        for t in (base, act, idle):
            if f in t and not (isinstance(t[f], int) and not isinstance(t[f], bool)):
                raise ValueError("config member %s is not an integer: %r" % (f, t[f]))
    return {"fields": fields, "members": list(C.CONFIG_MEMBERS), "base": base, "active": act, "idle": idle}


def gen_config():
    t = config_tables()
    def tbl(d):
        return "[" + "; ".join("(%s, %d)" % (vf.cstr(k), d[k]) for k in sorted(d)) + "]"
    txt = "(* GENERATED from /repo (geckolib/config.py) by tools/gen_misc.py - do not edit *)\nFrom Coq Require Import ZArith List String.\nImport ListNotations.\nOpen Scope string_scope. Open Scope Z_scope.\n"
    txt += "Definition cfg_fields : list string := [%s].\n" % "; ".join(vf.cstr(f) for f in t["fields"])
    txt += "Definition cfg_members : list string := [%s].\n" % "; ".join(vf.cstr(f) for f in t["members"])
    txt += "Definition cfg_default : list (string * Z) := %s.\n" % tbl(t["base"])
    txt += "Definition cfg_active : list (string * Z) := %s.\n" % tbl(t["active"])
    txt += "Definition cfg_idle : list (string * Z) := %s.\n" % tbl(t["idle"])
    vf.write_if_changed(os.path.join(vf.GEN, "ConfigTables.v"), txt)


GENERATORS = [("config_tables", gen_config)]


# ---------------------------------------------------------------- shipped snapshots (C19)
def shipped_snapshots():
    """Every snapshot in every file under tests/snapshots, parsed by the REAL parser."""
    from geckolib.utils.snapshot import GeckoSnapshot
    d = os.path.join(vf.REPO, "tests", "snapshots")
    out = []
    for fn in sorted(os.listdir(d)):
        if not fn.endswith(".snapshot"):
            continue
        for i, s in enumerate(GeckoSnapshot.parse_log_file(os.path.join(d, fn))):
            out.append({"file": fn, "index": i, "packtype": s.packtype, "cfg": s.config_version, "log": s.log_version,
                        "bytes": s.bytes, "en": s.intouch_EN, "co": s.intouch_CO})
    if not out:
        raise ValueError("no shipped snapshots found")
    return out


def gen_snapshots():
    snaps = shipped_snapshots()
    txt = "(* GENERATED from /repo/tests/snapshots by tools/gen_misc.py (real parser) - do not edit *)\nFrom Coq Require Import ZArith List String.\nImport ListNotations.\nOpen Scope string_scope. Open Scope Z_scope.\n"
    txt += "(* (file, lower-cased pack type, config version, log version, block) *)\n"
    txt += "Definition shipped_snapshots : list (string * string * Z * Z * list Z) := [\n"
    txt += ";\n".join("  (%s, %s, %d, %d, %s)" % (vf.cstr(s["file"]), vf.cstr((s["packtype"] or "").lower()), s["cfg"], s["log"], vf.zb(s["bytes"])) for s in snaps)
    txt += "\n].\n"
    vf.write_if_changed(os.path.join(vf.GEN, "Snapshots.v"), txt)


GENERATORS.append(("snapshots", gen_snapshots))
