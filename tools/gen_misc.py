"""Small generated facts (fail-closed introspection): config tables (C17), device/sensor tables (C12), enums (C08)."""
import os

import vf


def _attrs(cls):
    return {a: getattr(cls, a) for a in dir(cls) if not callable(getattr(cls, a)) and not a.startswith("__")}


def config_tables():
    import importlib
    import geckolib.config as C
    C = importlib.reload(C) if False else C
    base, act, idle = _attrs(C._GeckoConfig), _attrs(C._GeckoActiveConfig), _attrs(C._GeckoIdleConfig)
    fields = sorted(set(base) | set(act) | set(idle))
    for f in fields:
        for t in (base, act, idle):
            if f in t and not (isinstance(t[f], int) and not isinstance(t[f], bool)):
                raise ValueError("config member %s is not an integer: %r" % (f, t[f]))
    return {"fields": fields, "members": list(C.CONFIG_MEMBERS), "base": base, "active": act, "idle": idle}


def gen_config():
    t = config_tables()
    def tbl(d):
        return "[" + "; ".join("(%s, %d)" % (vf.cstr(k), d[k]) for k in sorted(d)) + "]"
    txt = "(* GENERATED from /repo (geckolib/config.py) by tools/gen_misc.py - do not edit *)\nFrom Coq Require Import ZArith List String.\nImport ListNotations.\nOpen Scope string_scope. Open Scope Z_scope.\n"
    txt += "Definition cfg_fields : list string := [%s].\n" % "; ".join(vf.cstr(f) for f in t["fields"])
    txt += "Definition cfg_members : list string := [%s].\n" % "; ".join(vf.cstr(f) for f in t["members"])
    txt += "Definition cfg_default : list (string * Z) := %s.\n" % tbl(t["base"])
    txt += "Definition cfg_active : list (string * Z) := %s.\n" % tbl(t["active"])
    txt += "Definition cfg_idle : list (string * Z) := %s.\n" % tbl(t["idle"])
    vf.write_if_changed(os.path.join(vf.GEN, "ConfigTables.v"), txt)


GENERATORS = [("config_tables", gen_config)]


# ---------------------------------------------------------------- shipped snapshots (C19)
def shipped_snapshots():
    """Every snapshot in every file under tests/snapshots, parsed by the REAL parser."""
    from geckolib.utils.snapshot import GeckoSnapshot
    d = os.path.join(vf.REPO, "tests", "snapshots")
    out = []
    for fn in sorted(os.listdir(d)):
        if not fn.endswith(".snapshot"):
            continue
        for i, s in enumerate(GeckoSnapshot.parse_log_file(os.path.join(d, fn))):
            out.append({"file": fn, "index": i, "packtype": s.packtype, "cfg": s.config_version, "log": s.log_version,
                        "bytes": s.bytes, "en": s.intouch_EN, "co": s.intouch_CO})
    if not out:
        raise ValueError("no shipped snapshots found")
    return out


def gen_snapshots():
    snaps = shipped_snapshots()
    txt = "(* GENERATED from /repo/tests/snapshots by tools/gen_misc.py (real parser) - do not edit *)\nFrom Coq Require Import ZArith List String.\nImport ListNotations.\nOpen Scope string_scope. Open Scope Z_scope.\n"
    txt += "(* (file, lower-cased pack type, config version, log version, block) *)\n"
    txt += "Definition shipped_snapshots : list (string * string * Z * Z * list Z) := [\n"
    txt += ";\n".join("  (%s, %s, %d, %d, %s)" % (vf.cstr(s["file"]), vf.cstr((s["packtype"] or "").lower()), s["cfg"], s["log"], vf.zb(s["bytes"])) for s in snaps)
    txt += "\n].\n"
    vf.write_if_changed(os.path.join(vf.GEN, "Snapshots.v"), txt)


GENERATORS.append(("snapshots", gen_snapshots))


# ---------------------------------------------------------------- device / sensor tables and fixed automation keys (C12)
def inventory_tables():
    from geckolib.const import GeckoConstants as K
    from geckolib.automation.heater import GeckoWaterHeater
    from geckolib.automation.watercare import GeckoWaterCare
    from geckolib.automation.reminders import GeckoReminders
    from geckolib.automation.keypad import GeckoKeypad
    from geckolib.automation.sensors import GeckoSensorBase

    class Acc:
        tag = "t"
        items = None

        def watch(self, o):
            pass

    class Accs(dict):
        def __contains__(self, k):
            return True

        def __getitem__(self, k):
            return Acc()

    class F:
        unique_id = "u"
        name = "n"

        class _spa:
            accessors = Accs()
        spa = _spa
    f = F()
    f.facade = f
    fixed = [GeckoWaterHeater(f).key, GeckoWaterCare(f).key, GeckoReminders(f).key, GeckoKeypad(f).key, K.KEY_ECON_ACTIVE]
    devices = [(k, v[0], int(v[1]), v[2], v[3]) for k, v in K.DEVICES.items()]
    sensors = [(s[0], s[1], GeckoSensorBase(f, s[0]).key) for s in K.SENSORS]
    bsensors = [(s[0], s[1], GeckoSensorBase(f, s[0]).key) for s in K.BINARY_SENSORS]
    classes = {"PUMP": K.DEVICE_CLASS_PUMP, "BLOWER": K.DEVICE_CLASS_BLOWER, "LIGHT": K.DEVICE_CLASS_LIGHT}
    for d in devices:
        if d[4] not in classes.values():
            raise ValueError("device %s has class %s" % (d[0], d[4]))
    return {"devices": devices, "sensors": sensors, "binary_sensors": bsensors, "fixed": fixed, "classes": classes}


def gen_inventory():
    t = inventory_tables()
    inv = {v: k for k, v in t["classes"].items()}
    txt = "(* GENERATED from /repo (geckolib/const.py + automation classes) by tools/gen_misc.py - do not edit *)\nFrom Coq Require Import ZArith List String.\nRequire Import GV.Model.Inventory.\nImport ListNotations.\nOpen Scope string_scope. Open Scope Z_scope.\n"
    txt += "(* (device id, name, keypad code, state item, class) *)\n"
    txt += "Definition devices_table : list (string * string * Z * string * dclass) := [\n" + ";\n".join(
        "  (%s, %s, %d, %s, C%s)" % (vf.cstr(d[0]), vf.cstr(d[1]), d[2], vf.cstr(d[3]), inv[d[4]]) for d in t["devices"]) + "\n].\n"
    txt += "(* (name, item key, automation key) *)\n"
    txt += "Definition sensors_table : list (string * string * string) := [%s].\n" % "; ".join("(%s, %s, %s)" % tuple(vf.cstr(x) for x in s) for s in t["sensors"])
    txt += "Definition binary_sensors_table : list (string * string * string) := [%s].\n" % "; ".join("(%s, %s, %s)" % tuple(vf.cstr(x) for x in s) for s in t["binary_sensors"])
    txt += "(* automation keys of heater, watercare, reminders, keypad, eco mode *)\n"
    txt += "Definition fixed_keys : list string := [%s].\n" % "; ".join(vf.cstr(x) for x in t["fixed"])
    vf.write_if_changed(os.path.join(vf.GEN, "InventoryTables.v"), txt)


GENERATORS.append(("inventory_tables", gen_inventory))


# ---------------------------------------------------------------- C10: who closes / cancels what (AST facts)
def ledger_facts():
    """Boolean facts about the clean-up code, read from the AST (fail-closed on a missing function)."""
    import ast
    import os

    def method(path, cls, name):
        tree = ast.parse(open(os.path.join(vf.SRC, "geckolib", path)).read())
        for c in tree.body:
            if isinstance(c, ast.ClassDef) and c.name == cls:
                for f in c.body:
                    if isinstance(f, (ast.FunctionDef, ast.AsyncFunctionDef)) and f.name == name:
                        return f
        raise RuntimeError("no %s.%s in %s" % (cls, name, path))

    def stmts(node):
        return [ast.unparse(x).strip() for x in ast.walk(node) if isinstance(x, ast.stmt)]
    dis = method("async_spa.py", "GeckoAsyncSpa", "disconnect")
    facts = {}
    ds = stmts(dis)
    facts["disconnect_closes_transport"] = "self._transport.close()" in ds
    facts["disconnect_cancels_spa_tasks"] = "self._taskman.cancel_key_tasks('SPA')" in ds
    facts["disconnect_unwatches"] = "self.unwatch_all()" in ds
    disc = method("async_locator.py", "GeckoAsyncLocator", "discover")
    fin = [t for t in ast.walk(disc) if isinstance(t, ast.Try) and t.finalbody]
    fs = [ast.unparse(x).strip() for t in fin for y in t.finalbody for x in ast.walk(y) if isinstance(x, ast.stmt)]
    facts["discover_cleans_up_in_finally"] = "self._transport.close()" in fs and "self._task_man.cancel_key_tasks('LOC')" in fs
    facts["discover_cleans_up_on_return"] = "self._transport.close()" in stmts(disc) and "self._task_man.cancel_key_tasks('LOC')" in stmts(disc)
    ex = method("async_spa_manager.py", "GeckoAsyncSpaMan", "__aexit__")
    es = stmts(ex)
    facts["exit_resets"] = "await self.async_reset()" in es
    facts["exit_gathers"] = "await AsyncTasks.__aexit__(self, exc_info)" in es and "self.cancel_key_tasks('SPAMAN')" in es
    fd = method(os.path.join("automation", "async_facade.py"), "GeckoAsyncFacade", "disconnect")
    facts["facade_disconnect_cancels_tasks"] = "self._taskman.cancel_key_tasks('FACADE')" in stmts(fd)
    # events of a disconnected spa are dropped: _event_handler returns early under `if self._disconnected`, disconnect() sets the flag
    try:
        eh = method("async_spa.py", "GeckoAsyncSpa", "_event_handler")
        first = [x for x in eh.body if not (isinstance(x, ast.Expr) and isinstance(x.value, ast.Constant))][0]
        guard = isinstance(first, ast.If) and ast.unparse(first.test) == "self._disconnected" and isinstance(first.body[-1], ast.Return)
    except RuntimeError:
        guard = False
    facts["spa_silent_after_disconnect"] = bool(guard and "self._disconnected = True" in ds)
    ar = stmts(method("async_spa_manager.py", "GeckoAsyncSpaMan", "async_reset"))
    facts["reset_disconnects_facade_and_spa"] = "await self._facade.disconnect()" in ar and "await self._spa.disconnect()" in ar
    return facts


def gen_ledger():
    import os
    f = ledger_facts()
    t = "(* GENERATED from /repo (async_spa.py, async_locator.py, async_spa_manager.py, automation/async_facade.py ASTs) by tools/gen_misc.py - do not edit *)\n"
    for k in sorted(f):
        t += "Definition %s : bool := %s.\n" % (k, vf.cbool(f[k]))
    vf.write_if_changed(os.path.join(vf.GEN, "LedgerFacts.v"), t)
    return f


GENERATORS.append(("ledger_facts", gen_ledger))


# ---------------------------------------------------------------- C07: the unhandled consumer's patience
def unhandled_patience():
    """number of polling intervals the unhandled consumer waits, mark still set, before it discards the head (fail-closed)"""
    import ast
    import os
    tree = ast.parse(open(os.path.join(vf.SRC, "geckolib", "driver", "protocol", "unhandled.py")).read())
    fn = [f for c in tree.body if isinstance(c, ast.ClassDef) for f in c.body if isinstance(f, ast.AsyncFunctionDef) and f.name == "consume"]
    if len(fn) != 1:
        raise RuntimeError("unhandled consume not found")
    loop = fn[0].body[0]
    if not (isinstance(loop, ast.While) and ast.unparse(loop.test) == "True" and len(loop.body) == 2):
        raise RuntimeError("unhandled consume: loop shape")
    sleep = "await asyncio.sleep(GeckoConstants.ASYNCIO_SLEEP_TIMEOUT_FOR_YIELD)"
    iff, tail = loop.body
    if ast.unparse(tail).strip() != sleep or not (isinstance(iff, ast.If) and ast.unparse(iff.test) == "protocol.queue.head is not None" and not iff.orelse):
        raise RuntimeError("unhandled consume: body shape")
    b = iff.body
    if ast.unparse(b[0]).strip() != "protocol.queue.mark()":
        raise RuntimeError("unhandled consume: mark first")
    pop = b[-1]
    if not (isinstance(pop, ast.If) and ast.unparse(pop.test) == "protocol.queue.is_marked" and "protocol.queue.pop()" in ast.unparse(pop)):
        raise RuntimeError("unhandled consume: pop under is_marked")
    mid = b[1:-1]
    if len(mid) == 1 and ast.unparse(mid[0]).strip() == sleep:
        return 1
    if len(mid) == 1 and isinstance(mid[0], ast.For) and isinstance(mid[0].iter, ast.Call) and ast.unparse(mid[0].iter.func) == "range" \
            and len(mid[0].iter.args) == 1 and isinstance(mid[0].iter.args[0], ast.Constant) and isinstance(mid[0].iter.args[0].value, int):
        fb = [ast.unparse(x).strip() for x in mid[0].body]
        if fb == [sleep, "if not protocol.queue.is_marked:\n    break"] and mid[0].iter.args[0].value >= 1:
            return mid[0].iter.args[0].value
    raise RuntimeError("unhandled consume: unknown waiting shape")


def gen_dispatch_facts():
    import os
    n = unhandled_patience()
    t = "(* GENERATED from /repo (driver/protocol/unhandled.py AST) by tools/gen_misc.py - do not edit *)\n"
    t += "(* polling intervals the unhandled consumer sleeps, mark still set, before it discards the head *)\n"
    t += "Definition unhandled_patience : nat := %d.\n" % n
    vf.write_if_changed(os.path.join(vf.GEN, "DispatchFacts.v"), t)
    return n


GENERATORS.append(("dispatch_facts", gen_dispatch_facts))
