"""Small generated facts (fail-closed introspection): config tables (C17), device/sensor tables (C12), enums (C08)."""
import os

import vf


def _attrs(cls):
    return {a: getattr(cls, a) for a in dir(cls) if not callable(getattr(cls, a)) and not a.startswith("__")}


def config_tables():
    import importlib
    import geckolib.config as C
    C = importlib.reload(C) if False else C
    base, act, idle = _attrs(C._GeckoConfig), _attrs(C._GeckoActiveConfig), _attrs(C._GeckoIdleConfig)
    fields = sorted(set(base) | set(act) | set(idle))
    for f in fields:
        for t in (base, act, idle):
            if f in t and not (isinstance(t[f], int) and not isinstance(t[f], bool)):
                raise ValueError("config member %s is not an integer: %r" % (f, t[f]))
    return {"fields": fields, "members": list(C.CONFIG_MEMBERS), "base": base, "active": act, "idle": idle}


def gen_config():
    t = config_tables()
    def tbl(d):
        return "[" + "; ".join("(%s, %d)" % (vf.cstr(k), d[k]) for k in sorted(d)) + "]"
    txt = "(* GENERATED from /repo (geckolib/config.py) by tools/gen_misc.py - do not edit *)\nFrom Coq Require Import ZArith List String.\nImport ListNotations.\nOpen Scope string_scope. Open Scope Z_scope.\n"
    txt += "Definition cfg_fields : list string := [%s].\n" % "; ".join(vf.cstr(f) for f in t["fields"])
    txt += "Definition cfg_members : list string := [%s].\n" % "; ".join(vf.cstr(f) for f in t["members"])
    txt += "Definition cfg_default : list (string * Z) := %s.\n" % tbl(t["base"])
    txt += "Definition cfg_active : list (string * Z) := %s.\n" % tbl(t["active"])
    txt += "Definition cfg_idle : list (string * Z) := %s.\n" % tbl(t["idle"])
    vf.write_if_changed(os.path.join(vf.GEN, "ConfigTables.v"), txt)


GENERATORS = [("config_tables", gen_config)]


# ---------------------------------------------------------------- shipped snapshots (C19)
def shipped_snapshots():
    """Every snapshot in every file under tests/snapshots, parsed by the REAL parser."""
    from geckolib.utils.snapshot import GeckoSnapshot
    d = os.path.join(vf.REPO, "tests", "snapshots")
    out = []
    for fn in sorted(os.listdir(d)):
        if not fn.endswith(".snapshot"):
            continue
        for i, s in enumerate(GeckoSnapshot.parse_log_file(os.path.join(d, fn))):
            out.append({"file": fn, "index": i, "packtype": s.packtype, "cfg": s.config_version, "log": s.log_version,
                        "bytes": s.bytes, "en": s.intouch_EN, "co": s.intouch_CO})
    if not out:
        raise ValueError("no shipped snapshots found")
    return out


def gen_snapshots():
    snaps = shipped_snapshots()
    txt = "(* GENERATED from /repo/tests/snapshots by tools/gen_misc.py (real parser) - do not edit *)\nFrom Coq Require Import ZArith List String.\nImport ListNotations.\nOpen Scope string_scope. Open Scope Z_scope.\n"
    txt += "(* (file, lower-cased pack type, config version, log version, block) *)\n"
    txt += "Definition shipped_snapshots : list (string * string * Z * Z * list Z) := [\n"
    txt += ";\n".join("  (%s, %s, %d, %d, %s)" % (vf.cstr(s["file"]), vf.cstr((s["packtype"] or "").lower()), s["cfg"], s["log"], vf.zb(s["bytes"])) for s in snaps)
    txt += "\n].\n"
    vf.write_if_changed(os.path.join(vf.GEN, "Snapshots.v"), txt)


GENERATORS.append(("snapshots", gen_snapshots))


# ---------------------------------------------------------------- device / sensor tables and fixed automation keys (C12)
def inventory_tables():
    from geckolib.const import GeckoConstants as K
    from geckolib.automation.heater import GeckoWaterHeater
    from geckolib.automation.watercare import GeckoWaterCare
    from geckolib.automation.reminders import GeckoReminders
    from geckolib.automation.keypad import GeckoKeypad
    from geckolib.automation.sensors import GeckoSensorBase

    class Acc:
        tag = "t"
        items = None

        def watch(self, o):
            pass

    class Accs(dict):
        def __contains__(self, k):
            return True

        def __getitem__(self, k):
            return Acc()

    class F:
        unique_id = "u"
        name = "n"

        class _spa:
            accessors = Accs()
        spa = _spa
    f = F()
    f.facade = f
    fixed = [GeckoWaterHeater(f).key, GeckoWaterCare(f).key, GeckoReminders(f).key, GeckoKeypad(f).key, K.KEY_ECON_ACTIVE]
    devices = [(k, v[0], int(v[1]), v[2], v[3]) for k, v in K.DEVICES.items()]
    sensors = [(s[0], s[1], GeckoSensorBase(f, s[0]).key) for s in K.SENSORS]
    bsensors = [(s[0], s[1], GeckoSensorBase(f, s[0]).key) for s in K.BINARY_SENSORS]
    classes = {"PUMP": K.DEVICE_CLASS_PUMP, "BLOWER": K.DEVICE_CLASS_BLOWER, "LIGHT": K.DEVICE_CLASS_LIGHT}
    for d in devices:
        if d[4] not in classes.values():
            raise ValueError("device %s has class %s" % (d[0], d[4]))
    return {"devices": devices, "sensors": sensors, "binary_sensors": bsensors, "fixed": fixed, "classes": classes}


def gen_inventory():
    t = inventory_tables()
    inv = {v: k for k, v in t["classes"].items()}
    txt = "(* GENERATED from /repo (geckolib/const.py + automation classes) by tools/gen_misc.py - do not edit *)\nFrom Coq Require Import ZArith List String.\nRequire Import GV.Model.Inventory.\nImport ListNotations.\nOpen Scope string_scope. Open Scope Z_scope.\n"
    txt += "(* (device id, name, keypad code, state item, class) *)\n"
    txt += "Definition devices_table : list (string * string * Z * string * dclass) := [\n" + ";\n".join(
        "  (%s, %s, %d, %s, C%s)" % (vf.cstr(d[0]), vf.cstr(d[1]), d[2], vf.cstr(d[3]), inv[d[4]]) for d in t["devices"]) + "\n].\n"
    txt += "(* (name, item key, automation key) *)\n"
    txt += "Definition sensors_table : list (string * string * string) := [%s].\n" % "; ".join("(%s, %s, %s)" % tuple(vf.cstr(x) for x in s) for s in t["sensors"])
    txt += "Definition binary_sensors_table : list (string * string * string) := [%s].\n" % "; ".join("(%s, %s, %s)" % tuple(vf.cstr(x) for x in s) for s in t["binary_sensors"])
    txt += "(* automation keys of heater, watercare, reminders, keypad, eco mode *)\n"
    txt += "Definition fixed_keys : list string := [%s].\n" % "; ".join(vf.cstr(x) for x in t["fixed"])
    vf.write_if_changed(os.path.join(vf.GEN, "InventoryTables.v"), txt)


GENERATORS.append(("inventory_tables", gen_inventory))
