"""C02 - pack-table items: write-then-read, isolation, permission, string forms, sync == async."""
import struct

import vf
import gen_tables

HEADER = """From Coq Require Import ZArith List Bool String.
Require Import GV.Lib.Bytes GV.Model.Accessor GV.Model.TableWf GV.Model.AccessorChk GV.Gen.Labels.
Import ListNotations. Open Scope string_scope. Open Scope Z_scope.
"""

TY = gen_tables.TYPES


def oz(x):
    return "None" if x is None else "(Some %d)" % x


def cval(v):
    """python value -> Coq `value`"""
    if isinstance(v, bool):
        return "(VBool %s)" % vf.cbool(v)
    if isinstance(v, int):
        return "(VInt (%d))" % v
    if isinstance(v, tuple):
        return "(VTime %d %d)" % v
    return "(VStr %s)" % vf.cstr(v)


def ocval(v):
    return "None" if v is None else "(Some %s)" % cval(v)


class Rec:
    """write sink handed to the real structure classes"""

    def __init__(self):
        self.w = None

    def sync(self, pos, length, newvalue):
        self.w = (pos, length, int(newvalue))

    async def asyn(self, pos, length, newvalue):
        self.w = (pos, length, int(newvalue))


def build(cls_struct, rec, decl, blk):
    from geckolib.driver import accessor as A
    from geckolib.driver.spastruct import GeckoStructure
    from geckolib.driver.async_spastruct import GeckoAsyncStructure
    st = GeckoStructure(rec.sync) if cls_struct == "sync" else GeckoAsyncStructure(rec.sync, rec.asyn)
    st.set_status_block(bytes(blk))
    typ, pos, bitpos, items, size, maxitems, rw = decl
    if typ == "Byte":
        a = A.GeckoByteStructAccessor(st, "t", pos, rw)
    elif typ == "Word":
        a = A.GeckoWordStructAccessor(st, "t", pos, rw)
    elif typ == "Time":
        a = A.GeckoTimeStructAccessor(st, "t", pos, rw)
    elif typ == "Bool":
        a = A.GeckoBoolStructAccessor(st, "t", pos, bitpos, rw)
    else:
        a = A.GeckoEnumStructAccessor(st, "t", pos, bitpos, items, size, maxitems, rw)
    return st, a


def norm_value(typ, v):
    """implementation value -> comparable python value"""
    if typ == "Time":
        h, m = v.split(":")
        return (int(h), int(m))
    return v


def py_value_arg(typ, v):
    """Coq-side value description -> the argument handed to the real setter"""
    if isinstance(v, tuple):
        return "%02d:%02d" % v
    return v


def drive(st, a, mode, arg, rec):
    rec.w = None
    try:
        if mode == "sync":
            a.value = arg
        else:
            co = a.async_set_value(arg)
            try:
                co.send(None)
            except StopIteration:
                pass
            else:
                raise RuntimeError("async setter suspended")
        return rec.w
    except Exception:
        return None


def apply_write(blk, w):
    pos, ln, v = w
    try:
        data = struct.pack(">B", v) if ln == 1 else struct.pack(">H", v) if ln == 2 else None
    except struct.error:
        return None
    if data is None:
        return None
    return bytes(blk[:pos]) + data + bytes(blk[pos + len(data):])


def declared_bits(it):
    """the (byte, bit) cells an item owns by its DECLARATION: whole bytes without a bit position, else the smallest field that
    holds the declared number of items (1 bit for a Bool) - independent of how the accessor derives its mask"""
    import math
    ln = it["length"]
    if it["bitpos"] is None:
        return {(it["pos"] + j, b) for j in range(ln) for b in range(8)}
    width = 1
    if it["type"] == "Enum" and it["maxitems"]:
        width = max(1, math.ceil(math.log2(int(it["maxitems"]))))
    return {(it["pos"] + ln - 1 - k // 8, k % 8) for k in range(it["bitpos"], it["bitpos"] + width)}


def real_value(it, blk):
    rec = Rec()
    try:
        st, a = build("sync", rec, (it["type"], it["pos"], it["bitpos"], it["items"], it["size"], it["maxitems"], it["rw"]), blk)
        return a.value
    except Exception as e:  # noqa
        return ("raises", type(e).__name__)


def one_case(ctx, decl, blk, v, exprs, meta, label_ref=None, tag="shape"):
    """Runs the real code (both structures, both setters) and emits the Coq case."""
    typ, pos, bitpos, items, size, maxitems, rw = decl
    rec = Rec()
    st, a = build("sync", rec, decl, blk)
    shape = (a.length, a.format == ">H", getattr(a, "bitmask", None))
    try:
        raw = a.raw_value
    except Exception:
        raw = None
    try:
        val = norm_value(typ, a.value)
    except Exception:
        val = None
    arg = py_value_arg(typ, v)
    w_sync = drive(st, a, "sync", arg, rec)
    rec2 = Rec()
    st2, a2 = build("async", rec2, decl, blk)
    w_async = drive(st2, a2, "async", arg, rec2)
    w_async_sync = drive(st2, a2, "sync", arg, rec2)
    if not (w_sync == w_async == w_async_sync):
        ctx.fail("sync_async_differ", "blocking and awaitable write paths emit different device writes",
                 {"decl": decl[:3] + (len(items) if items else None,) + decl[4:], "block": list(blk), "value": v,
                  "sync": w_sync, "async": w_async})
    after = None
    nblk = None
    if w_sync is not None:
        nblk = apply_write(blk, w_sync)
        if nblk is not None:
            st.set_status_block(nblk)
            try:
                after = norm_value(typ, a.value)
            except Exception:
                after = None
    items_c = "None" if items is None else ("(Some %s)" % label_ref if label_ref else "(Some [%s])" % "; ".join(vf.cstr(s) for s in items))
    d = "(mkDecl \"t\" %s %d %s %s %s %s %s false)" % (TY[typ], pos, oz(bitpos), items_c, oz(size), oz(maxitems), vf.cbool(rw is not None))
    sh = "(mkShape %d %s %s)" % (shape[0], vf.cbool(shape[1]), oz(shape[2]))
    ew = "None" if w_sync is None else "(Some (%d, %d, %d))" % w_sync
    eb = "None" if nblk is None else "(Some %s)" % vf.zb(nblk)
    exprs.append("chk %s %s %s %s %s %s %s %s %s" % (d, sh, vf.zb(blk), cval(v), oz(raw), ocval(val), ew, eb, ocval(after)))
    meta.append({"decl": [typ, pos, bitpos, (len(items) if items else None), size, maxitems, rw], "block": list(blk),
                 "value": v, "impl": {"raw": raw, "value": val, "write": w_sync, "after": after}})
    ctx.case((typ, bitpos, size, maxitems, len(items) if items else 0, rw is None, pos, bytes(blk), str(v)),
             nontrivial=(bitpos is not None or shape[0] == 2))
    ctx.count("type:" + typ)
    ctx.count("write:" + ("refused/raises" if w_sync is None else "ok"))
    return w_sync, after


def field_patterns(rng, ln):
    top = 256 ** ln
    pats = [0, top - 1] + [1 << k for k in range(8 * ln)] + [rng.randrange(top) for _ in range(3)]
    return pats


def domain(rng, typ, items, ln, thorough):
    if typ == "Bool":
        return [True, False, "true", "True", "TRUE", "false", "no"]
    if typ == "Enum":
        vs = list(dict.fromkeys(items))
        if len(vs) > 12 and not thorough:
            vs = vs[:4] + rng.sample(vs[4:], 6) + vs[-2:]
        return vs + ["__absent__"]
    if typ == "Time":
        return [(0, 0), (23, 59), (255, 255), (rng.randrange(24), rng.randrange(60)), (7, 300)]
    top = 256 ** ln
    return [0, 1, top - 1, rng.randrange(top), str(rng.randrange(top)), top, -1]


def run(ctx):
    ctx.rule = ("correspondence: every distinct declared shape (type, bitpos, size, maxitems, label count, rw) occurring in the shipped tables, "
                "rebuilt through the real accessor classes at several positions of a short block, field contents {0, all-ones, walking-1, random}, "
                "random neighbours, every domain value plus out-of-domain ones; real _get_raw_value/_get_value/_set_value/async_set_value on both "
                "structure classes vs Model/Accessor.v; plus shipped items on full 1024-byte blocks. non-trivial = distinct case on a bit field or 2-byte field")
    ctx.prove(timeout=2400)
    mods = gen_tables.load_tables()
    # per-module table obligations
    okm = 0
    for m in mods:
        ident = gen_tables.coq_ident(m["stem"])
        good = vf.vo_exists("Gen/Tables/%s.vo" % ident)
        okm += good
        if not good:
            ctx.oblige("table:" + m["stem"], False, "module_ok failed / did not compile")
    ctx.oblige("tables:all_%d_modules_ok" % len(mods), okm == len(mods), "%d/%d" % (okm, len(mods)))
    ctx.extra["table_modules"] = len(mods)
    ctx.extra["table_items"] = sum(len(m["items"]) for m in mods)
    # ---- oracle over the shipped tables (python mirror of item_ok) - concrete item for a broken table obligation
    known_bad = {("mrsteam-log-1", "WaterDetected"), ("mas-ibc-32k-log-1", "UserDryingDelay"), ("mas-ibc-32k-log-1", "PurgeDelayTimer")}
    shapes = {}
    overlaps = 0
    for m in mods:
        prev = None
        for it in m["items"]:
            pr = [p for p in gen_tables.item_problems(it) if "labels do not fit" in p]
            if pr:
                # demonstrate on the real accessor: write the last label, apply the device write, read back
                rec = Rec()
                blk0 = bytes(1024)
                decl = (it["type"], it["pos"], it["bitpos"], it["items"], it["size"], it["maxitems"], "ALL")
                st, a = build("sync", rec, decl, blk0)
                lab = it["items"][-1]
                w = drive(st, a, "sync", lab, rec)
                back = None
                if w is not None:
                    nb = apply_write(blk0, w)
                    if nb is not None:
                        st.set_status_block(nb)
                        back = a.value
                if back != lab:
                    ctx.fail("table:%s:%s" % (m["stem"], it["tag"]), "%s %s: %s" % (m["stem"], it["tag"], "; ".join(pr)),
                             {"module": m["stem"], "item": it["tag"], "problems": pr, "pos": it["pos"], "bitpos": it["bitpos"], "mask": it["mask"],
                              "labels": len(it["items"] or []), "real_code": {"block": "1024 zero bytes", "written_label": lab,
                                                                             "device_write": w, "read_back": back}})
            key = (it["type"], it["bitpos"], it["size"], it["maxitems"], len(it["items"]) if it["items"] else 0, it["rw"] is None)
            shapes.setdefault(key, (m, it))
    ctx.extra["distinct_declared_shapes"] = len(shapes)
    # ---- correspondence on shapes
    rng = ctx.rng
    exprs, meta = [], []
    for key, (m, it) in sorted(shapes.items(), key=lambda kv: str(kv[0])):
        typ = it["type"]
        ln = it["length"]
        for pos in ((0, 3) if not ctx.thorough else (0, 3, 6)):
            pats = field_patterns(rng, ln)
            if not ctx.thorough:
                pats = pats[:2] + rng.sample(pats[2:], 3)
            dom = domain(rng, typ, it["items"], ln, ctx.thorough)
            for fp in pats:
                blk = bytearray(rng.randrange(256) for _ in range(9))
                blk[pos:pos + ln] = fp.to_bytes(ln, "big")
                vals = dom if (ctx.thorough or typ != "Enum") else rng.sample(dom, min(len(dom), 5))
                for v in vals:
                    rw = it["rw"]
                    decl = (typ, pos, it["bitpos"], it["items"], it["size"], it["maxitems"], rw)
                    one_case(ctx, decl, bytes(blk), v, exprs, meta)
    # malformed stream: fields running off the end of the block, unexpected sizes
    for decl, blk, v in [(("Word", 8, None, None, None, None, "ALL"), bytes(range(9)), 5),
                         (("Byte", 9, None, None, None, None, "ALL"), bytes(range(9)), 5),
                         (("Enum", 2, 1, ["a", "b", "c"], 4, 3, "ALL"), bytes(range(9)), "b"),
                         (("Enum", 2, None, ["a", "b", "c"], 2, None, None), bytes(range(9)), "b"),
                         (("Bool", 2, 9, None, None, None, "ALL"), bytes(range(9)), True)]:
        one_case(ctx, decl, blk, v, exprs, meta)
        ctx.count("malformed")
    # shipped items on full blocks (+ direct property oracle)
    nmods = len(mods) if ctx.thorough else 12
    pick = [m for m in mods if m["items"]]
    pick = pick if ctx.thorough else rng.sample(pick, nmods)
    per = 6 if not ctx.thorough else 10
    by_byte = {}
    for m in pick:
        d = by_byte.setdefault(m["stem"], {})
        for it in m["items"]:
            for j in range(it["length"]):
                d.setdefault(it["pos"] + j, []).append(it)
    for m in pick:
        blk = bytes(rng.randrange(256) for _ in range(1024))
        its = [it for it in m["items"] if it["rw"] is not None and (m["stem"], it["tag"]) not in known_bad and it["pos"] + it["length"] <= 1024]
        for it in rng.sample(its, min(per, len(its))):
            dom = [d for d in domain(rng, it["type"], it["items"], it["length"], False) if d != "__absent__"]
            v = rng.choice(dom)
            decl = (it["type"], it["pos"], it["bitpos"], it["items"], it["size"], it["maxitems"], it["rw"])
            w, after = one_case(ctx, decl, blk, v, exprs, meta, tag="shipped")
            ctx.count("shipped_item_cases")
            # property oracle on the implementation: read-back + isolation
            top = 256 ** it["length"]
            in_dom = not (isinstance(v, int) and not isinstance(v, bool) and not 0 <= v < top) and not (isinstance(v, tuple) and v[1] > 255)
            if w is not None and in_dom:
                nb = apply_write(blk, w)
                want = v
                if isinstance(v, str) and it["type"] == "Bool":
                    want = v.lower() == "true"
                if isinstance(v, str) and it["type"] in ("Byte", "Word"):
                    want = int(v)
                if nb is None or after != want:
                    ctx.fail("readback:%s:%s" % (m["stem"], it["tag"]), "write-then-read does not return the written value",
                             {"module": m["stem"], "item": it["tag"], "value": v, "read_back": after, "write": w})
                else:
                    fieldmask = ((it["mask"] << it["bitpos"]) if it["bitpos"] is not None else top - 1)
                    old = int.from_bytes(blk, "big")
                    new = int.from_bytes(nb, "big")
                    shift = 8 * (1024 - it["pos"] - it["length"])
                    if (old ^ new) & ~(fieldmask << shift):
                        ctx.fail("isolation:%s:%s" % (m["stem"], it["tag"]), "a bit outside the item's field changed",
                                 {"module": m["stem"], "item": it["tag"], "value": v, "write": w})
                    # neighbours: an item whose declared cells are disjoint from this one's must read the same before and after
                    mine = declared_bits(it)
                    for other in by_byte.get(m["stem"], {}).get(it["pos"], []) + (by_byte.get(m["stem"], {}).get(it["pos"] + 1, []) if it["length"] == 2 else []):
                        if other is it or (m["stem"], other["tag"]) in known_bad or other["pos"] + other["length"] > 1024 or declared_bits(other) & mine:
                            continue
                        ctx.count("neighbour_checks")
                        b0, b1 = real_value(other, blk), real_value(other, nb)
                        if b0 != b1:
                            ctx.fail("neighbour:%s:%s" % (m["stem"], it["tag"]), "writing %s = %r changed the value of %s (%r -> %r), an item it does not overlap" % (
                                it["tag"], v, other["tag"], b0, b1), {"module": m["stem"], "item": it["tag"], "value": v, "write": w, "neighbour": other["tag"],
                                                                       "bytes_before": list(blk[it["pos"]:it["pos"] + 2]), "bytes_after": list(nb[it["pos"]:it["pos"] + 2])})
                            break
    # ---- temperature items (a Word accessor subclass with its own setters): permission and path equality on the REAL subclass
    from geckolib.driver import accessor as A
    from geckolib.driver.spastruct import GeckoStructure
    from geckolib.driver.async_spastruct import GeckoAsyncStructure
    from geckolib.const import GeckoConstants as K
    temp_items = [(m, it) for m in mods for it in m["items"] if it.get("temp") and it["pos"] + 2 <= 1024]
    rng.shuffle(temp_items)
    seen_rw = {}
    for m, it in temp_items:
        key = (it["rw"] is None)
        if seen_rw.get(key, 0) >= (40 if ctx.thorough else 8):
            continue
        seen_rw[key] = seen_rw.get(key, 0) + 1
        for units in ("C", "F"):
            outs = {}
            for mode in ("sync", "async"):
                rec = Rec()
                st = GeckoStructure(rec.sync) if mode == "sync" else GeckoAsyncStructure(rec.sync, rec.asyn)
                st.set_status_block(bytes(1024))
                tu = A.GeckoEnumStructAccessor(st, K.KEY_TEMP_UNITS, 1000, 0, ["F", "C"], None, 2, "ALL")
                st.accessors = {K.KEY_TEMP_UNITS: tu}
                blk = bytearray(1024)
                blk[1000] = 1 if units == "C" else 0
                st.set_status_block(bytes(blk))
                a = A.GeckoTempStructAccessor(st, it["tag"], it["pos"], it["rw"])
                st.accessors[it["tag"]] = a
                outs[mode] = drive(st, a, mode, 25.0 if units == "C" else 77.0, rec)
            ctx.count("temperature_permission_cases")
            ctx.case(("temp_perm", m["stem"], it["tag"], units))
            if it["rw"] is None and (outs["sync"] is not None or outs["async"] is not None):
                ctx.fail("permission:temp:%s" % ("async" if outs["async"] is not None else "sync"), "read-only temperature item %s.%s accepted a write on the %s path: device write %r" % (
                    m["stem"], it["tag"], "awaitable" if outs["async"] is not None else "blocking", outs["async"] or outs["sync"]),
                    {"module": m["stem"], "item": it["tag"], "units": units, "writes": outs})
                break
            if it["rw"] is not None and outs["sync"] != outs["async"]:
                ctx.fail("sync_async_differ:temp", "blocking and awaitable write paths of temperature item %s.%s emit different device writes: %r" % (m["stem"], it["tag"], outs),
                         {"module": m["stem"], "item": it["tag"], "units": units, "writes": outs})
                break
    # write-then-read on the real temperature subclass: every value the device can represent (0.1 degF steps, 1/18 degC steps) over the
    # setpoint range reads back exactly, on both write paths (the float layer itself is C14's model; this is the accessor law on the real class)
    wt = [(m, it) for (m, it) in temp_items if it["rw"] is not None][:1]
    for m, it in wt:
        off = rng.randrange(3)
        for units in ("C", "F"):
            for mode in ("sync", "async"):
                rec = Rec()
                st = GeckoStructure(rec.sync) if mode == "sync" else GeckoAsyncStructure(rec.sync, rec.asyn)
                blk = bytearray(1024)
                blk[1000] = 1 if units == "C" else 0
                st.set_status_block(bytes(blk))
                st.accessors = {K.KEY_TEMP_UNITS: A.GeckoEnumStructAccessor(st, K.KEY_TEMP_UNITS, 1000, 0, ["F", "C"], None, 2, "ALL")}
                a = A.GeckoTempStructAccessor(st, it["tag"], it["pos"], it["rw"])
                st.accessors[it["tag"]] = a
                for r in range(270 + (0 if ctx.thorough else off), 721, 1 if ctx.thorough else 3):
                    v = r / 18.0 if units == "C" else (r + 320) / 10.0
                    w = drive(st, a, mode, v, rec)
                    ctx.count("temperature_write_then_read")
                    nb = apply_write(bytes(blk), w) if w is not None else None
                    if nb is not None:
                        st.set_status_block(nb)
                    back = a.value if nb is not None else None
                    st.set_status_block(bytes(blk))
                    if back != v:
                        ctx.fail("write_read:temp:%s" % units, "temperature item %s.%s: writing %r deg%s (%s path) reads back %r (device write %r)" % (m["stem"], it["tag"], v, units, mode, back, w),
                                 {"module": m["stem"], "item": it["tag"], "units": units, "written": v, "read_back": back, "device_write": w, "path": mode})
                        break
    for s in meta[:2] + meta[len(meta) // 2:len(meta) // 2 + 2]:
        ctx.sample({k: (v if k != "block" else v[:12]) for k, v in s.items()})
    res = ctx.coq_cases("corr", HEADER, exprs, shard=300)
    bad = [m for m, r in zip(meta, res) if r is not True]
    ctx.oblige("correspondence:accessor_model", not bad, "first disagreements: %r" % (bad[:2],))
    if bad:
        # try to turn the disagreement into a concrete property failure on the implementation
        for b in bad[:50]:
            d, im = b["decl"], b["impl"]
            if im["write"] is not None and im["after"] is not None and im["after"] != b["value"] and not isinstance(b["value"], str):
                ctx.fail("readback:shape:%s" % (d[:3],), "write-then-read does not return the written value on the real accessor",
                         b)
                break
        # ... and on the shipped items of the disagreeing shapes: adversarial blocks (all ones / all zeros around the field), every label
        shapes_bad = {(b["decl"][0], b["decl"][2] is not None, b["decl"][4], b["decl"][5]) for b in bad}
        tried = 0
        for m in mods:
            if ctx.failures and any(f["key"].startswith(("neighbour:", "readback:", "isolation:")) for f in ctx.failures):
                break
            d = {}
            for it in m["items"]:
                for j in range(it["length"]):
                    d.setdefault(it["pos"] + j, []).append(it)
            for it in m["items"]:
                if (it["type"], it["bitpos"] is not None, it["size"], it["maxitems"]) not in shapes_bad or it["rw"] is None or (m["stem"], it["tag"]) in known_bad or it["pos"] + it["length"] > 1024:
                    continue
                if tried > 400:
                    break
                tried += 1
                for fill in (0xFF, 0x00, 0x01, 0x02, 0x03, 0x04, 0x05):      # also: the containing byte / word equals a small raw value that gets written
                    blk = bytes([fill]) * 1024
                    if fill not in (0xFF, 0x00):
                        blk = bytes(1024)[:it["pos"]] + (bytes([fill]) if it["length"] == 1 else bytes([0, fill])) + bytes(1024)[it["pos"] + it["length"]:]
                    for v in [x for x in domain(rng, it["type"], it["items"], it["length"], False) if x != "__absent__"][:4]:
                        rec = Rec()
                        st, a = build("sync", rec, (it["type"], it["pos"], it["bitpos"], it["items"], it["size"], it["maxitems"], it["rw"]), blk)
                        w = drive(st, a, "sync", py_value_arg(it["type"], v), rec)
                        nb = apply_write(blk, w) if w is not None else None
                        if nb is None:
                            # no device write at all: fine only if the item already reads as the requested value
                            cur = real_value(it, blk)
                            if w is None and it["type"] in ("Enum", "Bool") and cur != (v if it["type"] == "Enum" else (v in (True, "True", "true", 1))) and (it["type"] != "Enum" or isinstance(v, str)):
                                ctx.fail("readback:%s:%s" % (m["stem"], it["tag"]), "writing %s = %r emits no device write although the item reads %r (containing byte(s) %r)" % (
                                    it["tag"], v, cur, list(blk[it["pos"]:it["pos"] + it["length"]])), {"module": m["stem"], "item": it["tag"], "value": v, "reads": cur, "bytes": list(blk[it["pos"]:it["pos"] + it["length"]])})
                            continue
                        mine = declared_bits(it)
                        for other in d.get(it["pos"], []) + (d.get(it["pos"] + 1, []) if it["length"] == 2 else []):
                            if other is it or (m["stem"], other["tag"]) in known_bad or other["pos"] + other["length"] > 1024 or declared_bits(other) & mine:
                                continue
                            b0, b1 = real_value(other, blk), real_value(other, nb)
                            if b0 != b1:
                                ctx.fail("neighbour:%s:%s" % (m["stem"], it["tag"]), "writing %s = %r changed the value of %s (%r -> %r), an item it does not overlap" % (
                                    it["tag"], v, other["tag"], b0, b1), {"module": m["stem"], "item": it["tag"], "value": v, "write": w, "neighbour": other["tag"], "block_fill": fill})
                                break
                        got = real_value(it, nb)
                        if isinstance(v, str) and it["type"] == "Enum" and got != v:
                            ctx.fail("readback:%s:%s" % (m["stem"], it["tag"]), "write-then-read does not return the written value (%r written, %r read back, block filled with 0x%02x)" % (v, got, fill),
                                     {"module": m["stem"], "item": it["tag"], "value": v, "read_back": got, "write": w, "block_fill": fill})
        ctx.count("targeted_search_items", tried)
    ctx.assume += ["struct.pack/unpack big-endian semantics as modelled by be_encode/be_decode (exercised by every case)",
                   "Python int() is modelled for canonical decimal strings only",
                   "temperature accessors are covered at word level here and through floating point in C14"]
