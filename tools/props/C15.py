"""C15 - discovery lists each spa once, honours the filter, terminates on time."""
import vf
from harness import discovery

HEADER = """From Coq Require Import ZArith List Bool.
Require Import GV.Model.Discovery GV.Model.DiscoveryChk.
Import ListNotations. Open Scope Z_scope.
"""
NAMES = ["My Spa", "Spa|with|bars", "caf\xe9 \xfc", "", "|", "1", "x" * 40,
         # names that begin / end with characters str.strip() would eat, upper / lower case twins, a name that is an identifier
         " Spa ", "Spa\t", "\xa0Spa", "Spa\x85", "\x1fSpa\x1c", "SPA", "spa", "SPA01:02:03:04:05:06", "Spa  two  blanks", "\r"]


def run(ctx):
    ctx.rule = ("the REAL GeckoAsyncLocator.discover under the virtual-time loop against 0-5 scripted spas (names with '|', non-ASCII latin-1, leading / trailing blanks and control characters, case twins, 0-3 copies per reply, "
                "latencies 0.01-6 s, replies to the first four broadcasts, losses), with and without identifier / address filters, with event-loop stalls of 13-310 ms, with a client handler for LOCATING_DISCOVERED_SPA that returns at once or stays suspended for 0.05-1.5 s; "
                "the label stream (arrival / consumer pop / main-loop poll with its age, in real execution order) is replayed on Model/Discovery.v and the listed spas and "
                "the age at which discover() left its loop are compared; endpoint closed and LOC tasks gone on return; non-trivial = script with duplicates, a filter or a stall")
    ctx.prove(timeout=1200)
    rng = ctx.rng
    exprs, meta = [], []
    n = 240 if ctx.thorough else 60
    skipped = 0
    for k in range(n + 1):
        # the last run is fixed: 30 spas that answer every broadcast twice - more than the consumer's one datagram per poll can take before the
        # initial wait is over (known finding K14)
        over = (k == n)
        crowd = (k % 10 == 9)       # a network full of spas that all answer every broadcast at once: more replies outstanding than the consumer takes per poll
        nsp = 30 if over else rng.choice([18, 23]) if crowd else rng.choice([0, 1, 1, 2, 3, 5])
        if crowd:
            ctx.count("runs_with_a_crowd_of_spas")
        spas = []
        for i in range(nsp):
            sid = b"SPA%02d:aa:bb" % i if (crowd or rng.random() < 0.85) else b"SPA00:aa:bb"      # sometimes two devices share an identifier
            reps = []
            for b in range(4):
                if over:
                    reps.append((b, 0.01, 2))
                elif crowd:
                    # within what the consumer can take before the initial wait is over (one datagram per 0.1 s poll): one reply each to the first
                    # broadcast, and again to the last one
                    if b in (0, 3):
                        reps.append((b, rng.choice([0.01, 0.02, 0.05]), 1))
                elif rng.random() < 0.7:
                    reps.append((b, rng.choice([0.01, 0.05, 0.13, 0.4, 1.2, 3.9, 6.0]), rng.choice([1, 1, 2, 3])))
            spas.append(dict(id=sid, name=rng.choice(NAMES), addr=("10.0.0.%d" % (i + 1), 10022), replies=reps))
        mode = rng.choice(["none", "none", "id", "id_absent", "addr", "id+addr", "id+addr"])
        if over:
            mode = "none"
        fid = None
        faddr = None
        if mode == "id" and spas:
            fid = rng.choice(spas)["id"].decode()
        elif mode == "id_absent":
            fid = "SPA99:zz"
        elif mode == "addr":
            faddr = "10.0.0.1"
        elif mode == "id+addr":
            # both filters (how the manager calls the locator); whoever sits at that address answers, possibly a spa with another identifier, possibly first
            faddr = "10.0.0.1"
            fid = (rng.choice(spas)["id"].decode() if spas and rng.random() < 0.8 else "SPA99:zz")
        # an early stall longer than one poll interval takes the polls off the 0.1 s grid (no float comparisons on a threshold)
        stalls = [(0.05, rng.choice([0.1137, 0.1291, 0.1733]))] + [(rng.choice([0.25, 0.6, 1.3, 2.1]), rng.choice([0.013, 0.057, 0.12, 0.31])) for _ in range(rng.choice([0, 1, 2, 3]))]
        hd = rng.choice([0.0, 0.0, 0.0, 0.0517, 0.633, 1.471])
        if over:
            stalls, hd = [(0.05, 0.1137)], 0.0
        if hd:
            ctx.count("runs_with_suspending_discovered_handler")
        r = discovery.run_discovery(spas, filt_id=fid, filt_addr=faddr, stalls=stalls, seed=k, handler_delay=hd)
        if r["skipped"]:
            skipped += 1          # an age within 3 us of a threshold: float comparison on the boundary, outcome not comparable
            continue
        ids, names, addrs = {}, {}, {}
        iv = lambda d, x: d.setdefault(x, len(d) + 1)
        labels = []
        for l in r["labels"]:
            if l[0] == "A":
                labels.append("Arrive (mkR %d %d %d)" % (iv(ids, l[1]), iv(names, l[2]), iv(addrs, l[3])))
            elif l[0] == "C":
                labels.append("Consume")
            elif l[0] == "H":
                labels.append("HandlerDone")
            else:
                labels.append("MainPoll %d" % l[1])
        want = "None" if fid is None else "(Some %d)" % iv(ids, fid.encode())
        cfg = "(mkCfg %s %s 4000000 10000000)" % (want, vf.cbool(faddr is not None))
        listed = "[%s]" % "; ".join("mkR %d %d %d" % (iv(ids, a), iv(names, b), iv(addrs, c)) for a, b, c in r["listed"])
        exprs.append("chk_discovery %s [%s] %s (Some %d)" % (cfg, "; ".join(labels), listed, r["finished_us"]))
        meta.append({"spas": [(s["id"].decode(), s["name"], s["replies"]) for s in spas], "filter": (fid, faddr), "stalls": stalls,
                     "listed": [(a.decode(), b) for a, b, c in r["listed"]], "returned_after_s": round(r["duration"], 3), "labels": len(labels)})
        dup = any(c > 1 for s in spas for (_, _, c) in s["replies"]) or any(len(s["replies"]) > 1 for s in spas)
        ctx.case((str(meta[-1]["spas"]), fid, faddr, str(stalls)), nontrivial=dup or fid is not None or faddr is not None or len(stalls) > 1)
        ctx.count("filter:" + mode)
        ctx.count("labels", len(labels))
        # ---- direct oracle on the implementation
        ids_listed = [a for a, b, c in r["listed"]]
        prob = None
        if len(set(ids_listed)) != len(ids_listed):
            prob = "a spa is listed twice"
        elif fid is not None and any(a.decode() != fid for a in ids_listed):
            prob = "a spa other than the requested identifier is listed"
        elif r["duration"] > 10.0 + 0.1 + sum(dt for _, dt in stalls) + 0.35:
            prob = "discovery returned after %.2f s (timeout 10 s)" % r["duration"]
        elif not ids_listed and fid is None and faddr is None and r["duration"] < 10.0 - 0.2:
            prob = "discovery returned after %.2f s with nothing listed: before the timeout, although no spa had answered" % r["duration"]
        elif not r["closed"] or r["loc_tasks_left"]:
            prob = "endpoint not closed / helper tasks still alive on return (%s)" % r["loc_tasks_left"]
        else:
            for (a, b, c) in r["listed"]:
                src = [s for s in spas if s["id"] == a and s["addr"] == c]
                if not src or src[0]["name"] != b:
                    prob = "listed spa %r does not carry the identifier / name / address of a responding spa" % (a,)
            # returns as soon as a specifically requested spa has answered
            if prob is None and (fid is not None or faddr is not None) and ids_listed:
                first = min((d for s in spas if s["id"] in ids_listed for (bn, d, c_) in s["replies"] if c_ > 0 for d in [bn * 1.1 + d]), default=None)
                if first is not None and r["duration"] > first + 0.1 * (1 + len(r["labels"]) // 3) + 0.45 + sum(dt for _, dt in stalls) + hd * (1 + len(ids_listed)):
                    prob = "requested spa answered after %.2f s but discovery returned only after %.2f s (the client's handler accounts for %.2f s per listed spa)" % (first, r["duration"], hd)
        if prob is None:
            # completeness: a spa whose (filter-passing) reply reached the socket well before discovery returned is listed
            arrivals = {}
            t_now = 0
            for l in r["labels"]:
                if l[0] == "M":
                    t_now = l[1] / 1e6
                elif l[0] == "A":
                    arrivals.setdefault(l[1], t_now)
            for sid, t_arr in arrivals.items():
                passes = (fid is None or sid.decode() == fid)
                npending = len(arrivals)
                if passes and sid not in ids_listed and r["duration"] - t_arr > 0.35 + 0.11 * len(r["labels"]) ** 0.5 + hd * (1 + npending) + sum(dt for _, dt in stalls):
                    prob = "responding spa %r (reply at the socket %.2f s after the start, discovery returned after %.2f s) is not listed" % (sid, t_arr, r["duration"])
                    # was its reply ever reached? the consumer takes ONE datagram per poll, in arrival order
                    pos = next(i for i, l in enumerate([l for l in r["labels"] if l[0] == "A"]) if l[1] == sid) + 1
                    taken = sum(1 for l in r["labels"] if l[0] == "C")
                    if taken < pos:
                        prob = "BACKLOG " + prob + ": its reply was number %d in the receive queue and the consumer, which takes one datagram per 0.1 s poll, had taken %d when discovery returned" % (pos, taken)
        if prob is None and r["broadcasts"] < int(r["duration"] - 0.25 - sum(dt for _, dt in stalls)):
            # the hello goes out once per second for as long as discovery runs: it is what gets an answer out of a spa whose earlier reply was lost
            prob = "broadcast sent only %d times during a discovery of %.2f s (once per second expected, whatever has been listed)" % (r["broadcasts"], r["duration"])
        if prob is None and r["events"].count("LOCATING_DISCOVERED_SPA") != len(ids_listed):
            prob = "announced spas (%d LOCATING_DISCOVERED_SPA events) and listed spas (%d) differ" % (r["events"].count("LOCATING_DISCOVERED_SPA"), len(ids_listed))
        if prob:
            ctx.fail("discovery:" + prob.split(" ")[0] + prob.split(" ")[1], prob, {"spas": meta[-1]["spas"], "filter": (fid, faddr), "stalls": stalls, "listed": meta[-1]["listed"], "duration": r["duration"]})
    ctx.extra["scripts_skipped_on_float_boundary"] = skipped
    for s in meta[:2] + meta[-1:]:
        ctx.sample(s)
    res = ctx.coq_cases("disc", HEADER, exprs, shard=20)
    bad = [m for m, r in zip(meta, res) if r is not True]
    ctx.oblige("correspondence:discovery_model", not bad, "first disagreements: %r" % (bad[:2],))
    ctx.assume += ["hello replies are decoded by the real handler (C04); the model carries interned identifier / name / address values",
                   "asyncio timer semantics; float comparison of ages exactly on a threshold is excluded (scripts within 3 us of 4 s / 10 s are skipped and counted)",
                   "only hello replies arrive on the locator's endpoint (other traffic would stay at the head of its queue: there is no unhandled-datagram consumer there)"]
