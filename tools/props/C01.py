"""C01 - status-block transfer installs the spa's bytes or nothing, under any faults."""
import asyncio
import contextlib
import io
import struct
import time

import vf
from harness import vloop

HEADER = """From Coq Require Import ZArith List Bool.
Require Import GV.Lib.Bytes GV.Model.Transfer GV.Model.TransferChk.
Import ListNotations. Open Scope Z_scope.
"""
SENDER = ("10.0.0.1", 10022, b"SPA01:02:03:04:05:06", b"IOS00000000")
RETRIES = 10


def real_chain(sim, start, length):
    """The real simulator's segment chain for a STATU request."""
    from geckolib.driver import GeckoStatusBlockProtocolHandler
    h = GeckoStatusBlockProtocolHandler()
    h.start, h.length = start, length
    with vloop.quiet():
        sim._on_status_block(h, SENDER)
    out = sim._socket._send_handlers
    sim._socket._send_handlers = []
    segs = []
    for hh, dest in out:
        c = hh._content
        assert c[:5] == b"STATV"
        segs.append((c[5], c[6], c[8:8 + c[7]]))
    return segs


def statv(seg):
    return b"STATV" + struct.pack(">BBB", seg[0], seg[1], len(seg[2])) + bytes(seg[2])


def resolve(chain, e):
    if e[0] == "C":
        return chain[e[1]]
    return (e[1], e[2], e[3])


def run_async(b0, start, length, chain, script):
    return run_async_seq(b0, [(start, length, chain, script)])[0]


def run_sync(b0, start, length, chain, script):
    return run_sync_seq(b0, [(start, length, chain, script)])[0]


def run_async_seq(b0, items):
    """Real GeckoAsyncStructure.get on a real GeckoAsyncUdpProtocol under virtual time; script feeds one event at a time.
    items: successive transfers (start, length, chain, script) on ONE structure / protocol object; a transfer that is still
    pending when its script ends is cancelled and ends the sequence."""
    from geckolib.driver import GeckoAsyncUdpProtocol, GeckoAsyncStructure, GeckoStatusBlockProtocolHandler

    async def main(loop):
        proto = GeckoAsyncUdpProtocol(None, (SENDER[0], SENDER[1]))
        tr = vloop.FakeTransport(loop, proto, 1)
        proto.connection_made(tr)
        st = GeckoAsyncStructure(None, None)
        st.set_status_block(bytes(b0))
        out = []
        for (start, length, chain, script) in items:
            r = await one(loop, proto, tr, st, start, length, chain, script)
            out.append(r)
            if r[0] == 0:
                break
        return out

    async def one(loop, proto, tr, st, start, length, chain, script):
        seqs = []
        sent0 = len(tr.sent)

        def create():
            s = proto.get_and_increment_sequence_counter(False)
            seqs.append(s)
            return GeckoStatusBlockProtocolHandler.request(s, start, length, parms=SENDER)
        task = loop.create_task(st.get(proto, create, RETRIES))
        await asyncio.sleep(0.05)
        for e in script:
            if task.done():
                break
            if e[0] == "T":
                await asyncio.sleep(4.3)          # longer than PROTOCOL_TIMEOUT_IN_SECONDS, queue empty
            else:
                proto.datagram_received(statv(resolve(chain, e)), SENDER)
                for _ in range(50):
                    await asyncio.sleep(0.011)
                    if proto.queue.head is None or task.done():
                        break
        await asyncio.sleep(0.05)
        if task.done():
            status = 1 if task.result() else 2
        else:
            status = 0
            task.cancel()
            with contextlib.suppress(BaseException):
                await task
        sends = sum(1 for (_, d, _) in tr.sent[sent0:] if b"STATU" in d)
        return status, sends, st.status_block
    return vloop.run(main)


def run_sync_seq(b0, items):
    """Real GeckoStructure.retry_request on a real GeckoUdpSocket (thread never started), stepped as the engine thread does.
    items: successive transfers on ONE structure / socket object; a transfer still pending at the end of its script ends the sequence."""
    from geckolib.driver import GeckoUdpSocket, GeckoStructure, GeckoStatusBlockProtocolHandler
    clock = [1000.0]
    real = time.monotonic
    time.monotonic = lambda: clock[0]
    try:
        sock = GeckoUdpSocket()
        st = GeckoStructure(None)
        st.set_status_block(bytes(b0))
        out = []
        for (start, length, chain, script) in items:
            st.had_at_least_one_block = False
            req = GeckoStatusBlockProtocolHandler.request(sock.get_and_increment_sequence_counter(False), start, length, parms=SENDER)
            st.retry_request(sock, req, SENDER)
            for e in script:
                if e[0] == "T":
                    clock[0] += 4.3
                    for h in list(sock._receive_handlers):
                        h.loop(sock)
                    sock._cleanup_handlers()
                else:
                    clock[0] += 0.02
                    with vloop.quiet():
                        sock.dispatch_recevied_data(statv(resolve(chain, e)), SENDER)
                    sock._cleanup_handlers()
            sends = sum(1 for (h, d) in sock._send_handlers if h is req)
            if req in sock._receive_handlers:
                status = 0
            else:
                status = 1 if st.had_at_least_one_block else 2
            out.append((status, sends, st.status_block))
            if status == 0:
                break
            sock._send_handlers = []
        return out
    finally:
        time.monotonic = real


def cev(e):
    if e[0] == "C":
        return "EC %d" % e[1]
    if e[0] == "T":
        return "ET"
    return "ER (%d) (%d) %s" % (e[1], e[2], vf.zb(e[3]))


def gen_script(rng, n, kind):
    """Fault scripts over a chain of n segments."""
    base = [("C", k) for k in range(n)]
    if kind == "clean":
        return base
    if kind == "drop":
        s = list(base)
        del s[rng.randrange(n)]
        return s + [("T",)] + base
    if kind == "dup":
        k = rng.randrange(n)
        return base[:k + 1] + [base[k]] + base[k + 1:]
    if kind == "swap" and n >= 2:
        s = list(base)
        k = rng.randrange(n - 1)
        s[k], s[k + 1] = s[k + 1], s[k]
        return s + [("T",)] + base
    if kind == "dup_request":
        # two copies of the request answered: chains interleaved
        s = []
        a, b = list(base), list(base)
        while a or b:
            src = a if (a and (not b or rng.random() < 0.5)) else b
            s.append(src.pop(0))
        return s + [("T",)] + base
    if kind == "timeouts":
        s = []
        for _ in range(rng.randrange(1, 13)):
            s += base[:rng.randrange(0, n)] + [("T",)]
        return s + base
    if kind == "late_final":
        return [base[-1]] * rng.randrange(1, 12) + base
    if kind == "exhaust":
        return ([base[-1]] if n > 1 else [("T",)]) * 12 + base
    if kind == "give_up_mid_chain":
        # every attempt loses the tail of the chain: the transfer is abandoned with some segments received
        k = rng.randrange(1, n) if n > 1 else 0
        return (base[:k] + [("T",)]) * 12
    if kind == "random":
        return [rng.choice(base + [("T",)]) for _ in range(rng.randrange(0, 4 * n + 6))]
    return base


def run(ctx):
    ctx.rule = ("(a) the real simulator's chain vs sim_chain for boundary (start,len) incl. every multiple of 39 and block-end clipping; "
                "(b) real GeckoAsyncStructure.get (virtual-time loop, real GeckoAsyncUdpProtocol) and real GeckoStructure.retry_request + engine loop steps "
                "under fault scripts (drop, duplicate, swap, duplicated request, timeouts at every position, late finals, retry exhaustion, giving up mid-chain, random) built from the "
                "real chain, single transfers and sequences of transfers on one structure object: (status, #STATU, final block) vs Model/Transfer.v; non-trivial = script containing at least one fault")
    ctx.prove(timeout=1800)
    rng = ctx.rng
    exprs, meta = [], []
    # ---- (a) simulator chain
    sim = vloop.make_sim()
    N = 1024
    spa_full = bytes(rng.randrange(256) for _ in range(N))
    sim.structure.set_status_block(spa_full)
    lens = sorted(set([1, 2, 38, 39, 40, 77, 78, 79, 117, 390, 1014, 1023, 1024] + [39 * k for k in range(1, 27, 5)] + [rng.randrange(1, 1025) for _ in range(6)]))
    starts = [0, 1, 255, 256, 985, 1023] if ctx.thorough else [0, 256, 985]
    small = bytes(rng.randrange(256) for _ in range(120))
    for st in starts:
        for ln in (range(1, 1025) if ctx.thorough and st == 0 else lens):
            if st + ln > N:
                continue
            ch = real_chain(sim, st, ln)
            # only the indices and lengths are compared on the full block (the data is checked on the small block below)
            exprs.append("chk_chain (map Z.of_nat (seq 0 1024)) %d %d [%s]" % (st, ln, "; ".join(
                "((%d, %d), map Z.of_nat (seq %d %d))" % (i, n, st + 39 * i, len(d)) for i, n, d in ch)))
            meta.append({"chain": (st, ln), "segments": len(ch)})
            ctx.case(("chain", st, ln), nontrivial=ln % 39 == 0 or st + ln > N - 39)
            ctx.count("chain_requests")
            # oracle: chain terminates and covers the request
            ok = ch and [c[0] for c in ch] == list(range(len(ch))) and [c[1] for c in ch] == list(range(1, len(ch))) + [0] \
                and b"".join(c[2] for c in ch)[:ln] == spa_full[st:st + ln]
            if not ok:
                ctx.fail("sim_chain", "simulator chain for (start=%d, len=%d) is not a terminating chain covering the request" % (st, ln),
                         {"start": st, "length": ln, "chain": [(c[0], c[1], len(c[2])) for c in ch]})
    sim.structure.set_status_block(small)
    for st, ln in [(0, 120), (0, 78), (5, 39), (100, 20), (81, 39), (119, 1), (60, 60), (0, 1)]:
        ch = real_chain(sim, st, ln)
        exprs.append("chk_chain %s %d %d [%s]" % (vf.zb(small), st, ln, "; ".join("((%d, %d), %s)" % (i, n, vf.zb(d)) for i, n, d in ch)))
        meta.append({"chain_small": (st, ln)})
        ctx.case(("chain_small", st, ln))
    # ---- (b) clients under fault scripts
    kinds = ["clean", "drop", "dup", "swap", "dup_request", "timeouts", "late_final", "exhaust", "random", "random"]
    reqs = [(0, 120), (0, 78), (3, 39), (10, 100), (81, 39), (40, 1), (0, 117)]
    n_each = 4 if ctx.thorough else 1
    for (st, ln) in reqs:
        spa = bytes(rng.randrange(256) for _ in range(120))
        sim.structure.set_status_block(spa)
        chain = real_chain(sim, st, ln)
        for kind in kinds:
            for _ in range(n_each):
                b0 = bytes(rng.randrange(256) for _ in range(120))
                script = gen_script(rng, len(chain), kind)
                if kind == "random" and rng.random() < 0.3:
                    script.insert(rng.randrange(len(script) + 1), ("R", rng.randrange(40), rng.randrange(3), bytes([1, 2, 3])))
                for cls, fn in (("async", run_async), ("sync", run_sync)):
                    status, sends, blk = fn(b0, st, ln, chain, script)
                    exprs.append("chk_client %s %s %s %d %d %d [%s] %d %d %s" % (
                        vf.cbool(cls == "async"), vf.zb(spa), vf.zb(b0), st, ln, RETRIES, "; ".join(cev(e) for e in script), status, sends, vf.zb(blk)))
                    meta.append({"class": cls, "request": (st, ln), "script": kind, "events": len(script), "impl": (status, sends)})
                    ctx.case((cls, st, ln, str(script), b0), nontrivial=kind != "clean")
                    ctx.count("script:" + kind)
                    ctx.count("status:%d" % status)
                    # ---- direct property oracle on the implementation
                    from_chain_only = all(e[0] != "R" for e in script)
                    if from_chain_only:
                        want = b0[:st] + b"".join(c[2] for c in chain) + b0[st + sum(len(c[2]) for c in chain):]
                        limit = RETRIES if cls == "async" else RETRIES + 1
                        bad = None
                        if status == 1 and blk != want:
                            bad = "transfer reported success but the installed block is not the spa's chain"
                        elif status != 1 and blk != b0:
                            bad = "transfer did not succeed but the client's block changed"
                        elif sends > limit:
                            bad = "more requests sent (%d) than configured (%d)" % (sends, limit)
                        elif kind == "clean" and (status != 1 or sends != 1):
                            bad = "fault-free transfer did not succeed with one request"
                        if bad:
                            ctx.fail("transfer:%s" % cls, bad, {"class": cls, "start": st, "length": ln, "spa": list(spa), "block0": list(b0),
                                                                "script": script, "status": status, "sends": sends, "final": list(blk)})
    # successive transfers on ONE structure object: what an earlier transfer leaves behind (a failed one in particular) must not
    # leak into the next; each transfer is compared with the model started from the block the previous one left
    seq_kinds = [("give_up_mid_chain", "clean"), ("give_up_mid_chain", "drop"), ("exhaust", "clean"), ("timeouts", "clean"), ("clean", "clean"),
                 ("late_final", "dup"), ("random", "clean"), ("give_up_mid_chain", "give_up_mid_chain", "clean")]
    for (st, ln) in [(0, 120), (3, 117), (10, 100)] + ([(0, 78), (40, 80)] if ctx.thorough else []):
        for kinds_seq in seq_kinds:
            spas, items = [], []
            for j, kind in enumerate(kinds_seq):
                spa = bytes(rng.randrange(256) for _ in range(120))
                sim.structure.set_status_block(spa)
                st_j, ln_j = (st, ln) if j % 2 == 0 else (0, 120)
                chain = real_chain(sim, st_j, ln_j)
                spas.append(spa)
                items.append((st_j, ln_j, chain, gen_script(rng, len(chain), kind)))
            b_start = bytes(rng.randrange(256) for _ in range(120))
            for cls, fn in (("async", run_async_seq), ("sync", run_sync_seq)):
                res_seq = fn(b_start, items)
                b_prev = b_start
                for j, (status, sends, blk) in enumerate(res_seq):
                    st_j, ln_j, chain, script = items[j]
                    exprs.append("chk_client %s %s %s %d %d %d [%s] %d %d %s" % (
                        vf.cbool(cls == "async"), vf.zb(spas[j]), vf.zb(b_prev), st_j, ln_j, RETRIES, "; ".join(cev(e) for e in script), status, sends, vf.zb(blk)))
                    meta.append({"class": cls, "request": (st_j, ln_j), "script": kinds_seq[j], "position_in_sequence": j, "after": list(kinds_seq[:j]), "impl": (status, sends)})
                    ctx.case((cls, "seq", st, ln, kinds_seq, j, str(script)), nontrivial=j > 0)
                    ctx.count("sequence_transfer:%d" % j)
                    want = b_prev[:st_j] + b"".join(c[2] for c in chain) + b_prev[st_j + sum(len(c[2]) for c in chain):]
                    bad = None
                    if status == 1 and blk != want:
                        bad = "transfer reported success but the installed block is not the spa's chain"
                    elif status != 1 and blk != b_prev:
                        bad = "transfer did not succeed but the client's block changed"
                    elif kinds_seq[j] == "clean" and (status != 1 or sends != 1):
                        bad = "fault-free transfer did not succeed with one request"
                    if bad:
                        ctx.fail("transfer:%s:after_earlier_transfer" % cls, "%s (transfer %d on the same structure object, after %s)" % (bad, j + 1, " + ".join(kinds_seq[:j]) or "nothing"),
                                 {"class": cls, "transfers": [(a, b, sc) for (a, b, _, sc) in items[:j + 1]], "status": status, "sends": sends, "final": list(blk), "expected_if_success": list(want)})
                    b_prev = blk
    # one full-size transfer per class on the 1024-byte block (27 segments), with a duplicated request
    sim.structure.set_status_block(spa_full)
    chain = real_chain(sim, 0, 1024)
    b0 = bytes(1024)
    for kind in ("clean", "dup_request", "swap"):
        script = gen_script(rng, len(chain), kind)
        for cls, fn in (("async", run_async), ("sync", run_sync)):
            status, sends, blk = fn(b0, 0, 1024, chain, script)
            exprs.append("chk_client %s %s %s 0 1024 %d [%s] %d %d %s" % (vf.cbool(cls == "async"), vf.zb(spa_full), vf.zb(b0), RETRIES,
                                                                        "; ".join(cev(e) for e in script), status, sends, vf.zb(blk)))
            meta.append({"class": cls, "request": (0, 1024), "script": kind, "impl": (status, sends)})
            ctx.case((cls, "full", kind, str(script)))
            if status != 1 or blk != spa_full:
                ctx.fail("transfer:%s:full" % cls, "full-block transfer (%s) did not install the spa's block" % kind, {"class": cls, "script": script, "status": status})
    for s in (meta[0], meta[len(meta) // 2], meta[-1]):
        ctx.sample(s)
    res = ctx.coq_cases("xfer", HEADER, exprs, shard=25)
    bad = [m for m, r in zip(meta, res) if r is not True]
    ctx.oblige("correspondence:transfer_model", not bad, "first disagreements: %r" % (bad[:3],))
    ctx.assume += ["wait_for_response is abstracted to its two outcomes (segment handled / timed out); the polling loop and queue are C06/C07",
                   "segments of one request all come from one chain (the spa's block does not change during a transfer; delays shorter than the gap between transfers)",
                   "the threaded client may send 1 + retry_count requests (initial transmission + retransmissions, cf. C20)"]
