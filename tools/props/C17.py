"""C17 - active/idle configuration switching is complete and wakes every sleeper."""
import asyncio

import vf
import gen_misc
from harness import vloop

HEADER = """From Coq Require Import ZArith List Bool String.
Require Import GV.Model.Config GV.Model.ConfigChk GV.Gen.ConfigTables.
Import ListNotations. Open Scope string_scope. Open Scope Z_scope.
"""


def ctable(d):
    return "[" + "; ".join("(%s, %d)" % (vf.cstr(k), v) for k, v in sorted(d.items())) + "]"


def run_sleep_script(script, end):
    """script: list of (t_ms, 'sleep', id, d_ms) | (t_ms, 'switch', active). Returns wake list [(id, deadline_ms, wake_ms)], #still sleeping."""
    import geckolib.config as C
    woken = []
    state = {"sleeping": 0}

    async def main(loop):
        t0 = loop.time()
        C.ConfigChange = None

        async def sleeper(i, d):
            start = loop.time()
            state["sleeping"] += 1
            await C.config_sleep(d / 1000.0)
            state["sleeping"] -= 1
            woken.append((i, round((start - t0) * 1000) + d, round((loop.time() - t0) * 1000)))
        tasks = []
        for ev in script:
            dt = t0 + ev[0] / 1000.0 - loop.time()
            if dt > 0:
                await asyncio.sleep(dt)
            if ev[1] == "sleep":
                tasks.append(loop.create_task(sleeper(ev[2], ev[3])))
                await asyncio.sleep(0)          # let the task reach its await
            else:
                if C.ConfigChange is None:       # nothing has ever slept: the real code asserts; not part of the script space
                    C.ConfigChange = loop.create_future()
                C.set_config_mode(ev[2])
                await asyncio.sleep(0)
                await asyncio.sleep(0)
        dt = t0 + end / 1000.0 - loop.time()
        if dt > 0:
            await asyncio.sleep(dt)
        for _ in range(5):
            await asyncio.sleep(0)
        n = state["sleeping"]
        for t in tasks:
            t.cancel()
        await asyncio.gather(*tasks, return_exceptions=True)
        return n
    n = vloop.run(main)
    return woken, n


def run(ctx):
    ctx.rule = ("(1) real set_config_mode on the live GeckoConfig pre-loaded with random member values, both modes, all members compared by introspection; "
                "(2) real config_sleep tasks under the virtual-time loop with random sleep/switch scripts (1-8 concurrent sleepers, delays 0..5000 ms, switches "
                "before/at/after deadlines): (id, deadline, wake time) compared with the sleepers LTS; (3) real GeckoAsyncFacade._on_config_device_change for all on/off "
                "combinations of up to 5 pumps and 2 blowers; non-trivial = script with a switch while at least two tasks sleep")
    ctx.prove(timeout=1200)
    import geckolib.config as C
    rng = ctx.rng
    exprs, meta = [], []
    t = gen_misc.config_tables()
    # ---- (1) table switch
    saved = {m: getattr(C.GeckoConfig, m) for m in t["fields"] if hasattr(C.GeckoConfig, m)}
    saved_cc = C.ConfigChange
    try:
        for k in range(60 if ctx.thorough else 16):
            act = bool(k % 2)
            live = {m: rng.choice([0, 1, 7, 999, rng.randrange(1000)]) for m in t["fields"]}
            for m, v in live.items():
                setattr(C.GeckoConfig, m, v)
            loop = asyncio.new_event_loop()
            C.ConfigChange = loop.create_future()
            C.set_config_mode(act)
            loop.close()
            after = {m: getattr(C.GeckoConfig, m) for m in t["fields"]}
            exprs.append("chk_mode %s %s %s" % (vf.cbool(act), ctable(live), ctable(after)))
            meta.append({"mode": act, "live": live})
            ctx.case(("mode", act, tuple(sorted(live.items()))))
            ctx.count("mode_switches")
            want = t["active"] if act else t["idle"]
            bad = {m: (after[m], want.get(m)) for m in t["fields"] if after[m] != want.get(m)}
            if bad:
                ctx.fail("config:mixed", "after switching to %s the live table is a mixture" % ("active" if act else "idle"),
                         {"active": act, "live_before": live, "wrong_members": bad})
    finally:
        for m, v in saved.items():
            setattr(C.GeckoConfig, m, v)
        C.ConfigChange = saved_cc
    # ---- (2) sleepers
    for k in range(250 if ctx.thorough else 60):
        script, tms, nid = [], 0, 0
        for _ in range(rng.randrange(1, 14)):
            tms += rng.choice([0, 0, 1, 10, 100, 500, 1000, 2500])
            if rng.random() < 0.65:
                nid += 1
                script.append((tms, "sleep", nid, rng.choice([0, 1, 10, 100, 500, 1000, 2000, 5000])))
            else:
                script.append((tms, "switch", rng.random() < 0.5))
        script.append((tms + rng.choice([0, 100, 3000, 6000]), "switch" if rng.random() < 0.3 else "end", False))
        rscript = [e for e in script if e[1] != "end"]
        end = script[-1][0]
        woken, still = run_sleep_script(rscript, end)
        ces = []
        for e in rscript:
            ces.append("Advance %d" % e[0])
            ces.append("Sleep %d %d" % (e[2], e[3]) if e[1] == "sleep" else "Switch")
        ces.append("Advance %d" % end)
        exprs.append("chk_sleep [%s] [%s] %d" % ("; ".join(ces), "; ".join("(%d, %d, %d)" % w for w in woken), still))
        meta.append({"script": rscript, "woken": woken, "still_sleeping": still})
        n_sw = sum(1 for e in rscript if e[1] == "switch")
        ctx.case(("sleep", str(rscript)), nontrivial=n_sw > 0 and nid >= 2)
        ctx.count("sleep_scripts")
        ctx.count("sleepers", nid)
        ctx.count("switches", n_sw)
        # oracle: never oversleeps; woken at once by the next switch
        sleeps = {e[2]: (e[0], e[3]) for e in rscript if e[1] == "sleep"}
        switches = [e[0] for e in rscript if e[1] == "switch"]
        order = {id(e): i for i, e in enumerate(rscript)}
        for (i, dl, w) in woken:
            t0s, d = sleeps[i]
            idx = next(j for j, e in enumerate(rscript) if e[1] == "sleep" and e[2] == i)
            nxt = [e[0] for e in rscript[idx + 1:] if e[1] == "switch"]
            want = min([dl] + nxt[:1])
            if w > dl or w != want:
                ctx.fail("config:sleep", "sleeper woke at %d ms, expected %d ms (deadline %d, next switch %s)" % (w, want, dl, nxt[:1]),
                         {"script": rscript, "sleeper": i, "woke_ms": w, "deadline_ms": dl})
                break
    # ---- (3) active iff any pump / blower on: decided by the REAL facade object (device lists replaced by every on / off combination
    #      of 0-3 pumps and 0-2 blowers, lights always on), read off the timing table that is installed afterwards
    class Dev:
        def __init__(self, on):
            self.is_on = on

        def unwatch_all(self):
            pass
    combos3 = []
    for np_ in range(0, 4):
        for nb in range(0, 3):
            for bits in range(2 ** (np_ + nb)):
                combos3.append((np_, nb, [bool(bits >> j & 1) for j in range(np_ + nb)]))
    # ---- (4) the REAL facade, over consecutive connections: the timing table is process-wide, so what one facade leaves behind
    #      must not decide for the next one - after every device change / facade update the installed table is the complete active
    #      table iff a pump or blower of the CURRENT facade is on
    from harness import session

    def installed():
        import geckolib.config as C
        cur = {m: getattr(C.GeckoConfig, m) for m in C.CONFIG_MEMBERS}
        act, idle = C._GeckoActiveConfig(), C._GeckoIdleConfig()
        if cur == {m: getattr(act, m) for m in C.CONFIG_MEMBERS}:
            return "active"
        if cur == {m: getattr(idle, m) for m in C.CONFIG_MEMBERS}:
            return "idle"
        return "mixed"

    decisions = []

    async def sessions(loop):
        out = []
        plan = [("on",), ("off", "on"), ("on", "close_on"), ("idle_only",), ("on", "off")]
        for k, acts in enumerate(plan[:5 if ctx.thorough else 4] + [("idle_only",)]):
            peer = session.Peer(loop, "inYT-all off-2020-10-23 18_00_45.snapshot", echo_delay=0.1)
            cl = session.Client(peer)
            if not await cl.connect(with_facade=True):
                out.append((k, "connect", None, "no connection"))
                continue
            await asyncio.sleep(3.0)
            f = cl.facade
            if k == 0:
                saved = (f._pumps, f._blowers, f._lights)
                order = list(combos3)
                ctx.rng.shuffle(order)
                for (np_, nb, ons) in order:
                    f._pumps, f._blowers, f._lights = [Dev(x) for x in ons[:np_]], [Dev(x) for x in ons[np_:]], [Dev(True)]
                    f._on_config_device_change()
                    decisions.append((np_, nb, ons, installed()))
                f._pumps, f._blowers, f._lights = saved
                f._on_config_device_change()
                await asyncio.sleep(0.5)
            devs = list(f.pumps) + list(f.blowers)
            out.append((k, "start", any(d.is_on for d in devs), installed()))
            for a in acts:
                # the spa itself switches the pump (its state item changes and is reported by a partial update)
                acc = f.pumps[0]._state_sensor.accessor if f.pumps else None
                if a == "on" and acc is not None:
                    peer.spontaneous(acc.tag, True if acc.items is None else [x for x in acc.items if x != "OFF"][0])
                elif a == "off" and acc is not None:
                    peer.spontaneous(acc.tag, False if acc.items is None else "OFF")
                elif a in ("idle_only", "close_on"):
                    pass
                await asyncio.sleep(4.0)
                out.append((k, a, any(d.is_on for d in devs), installed()))
            await cl.close()
            await asyncio.sleep(1.0)
        return out
    observations = vloop.run(sessions)
    for (np_, nb, ons, table) in sorted(decisions, key=lambda d: (d[0], d[1], d[2])):
        got = {"active": True, "idle": False}.get(table)
        exprs.append("chk_active [%s] [%s] %s" % ("; ".join(vf.cbool(x) for x in ons[:np_]), "; ".join(vf.cbool(x) for x in ons[np_:]), vf.cbool(bool(got))))
        meta.append({"pumps": ons[:np_], "blowers": ons[np_:], "installed": table})
        ctx.case(("active", np_, nb, tuple(ons)))
        ctx.count("active_cases")
        if got is None or got != any(ons):
            ctx.fail("config:active", "with pumps / blowers %s the facade left the %s timing table installed" % (ons, table), {"pumps": ons[:np_], "blowers": ons[np_:], "installed": table})
    for (k, what, any_on, table) in observations:
        ctx.count("real_facade_config_observations")
        ctx.case(("real_facade", k, what, any_on, table), nontrivial=True)
        if any_on is None or table != ("active" if any_on else "idle"):
            ctx.fail("config:real_facade_sessions", "connection %d, after '%s': a pump / blower of the current facade on = %s, installed timing table = %s" % (k + 1, what, any_on, table),
                     {"connection_number": k + 1, "after": what, "any_pump_or_blower_on": any_on, "installed_table": table})
            break
    for s in (meta[0], meta[20], meta[-1]):
        ctx.sample(s)
    res = ctx.coq_cases("cfg", HEADER, exprs, shard=200)
    bad = [m for m, r in zip(meta, res) if r is not True]
    ctx.oblige("correspondence:config_model", not bad, "first disagreements: %r" % (bad[:3],))
    ctx.assume += ["asyncio.wait(timeout) and timer semantics are assumed as modelled (a timeout fires at its deadline; a resolved future releases its waiters in the same loop turn)",
                   "set_config_mode before any config_sleep has ever run asserts in the real code; scripts always let a sleeper create the shared future first"]
