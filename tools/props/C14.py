"""C14 - temperatures, units, limits, heater operation."""
import struct

import vf
import gen_tables

HEADER = """From Coq Require Import ZArith List Bool PrimFloat.
Require Import GV.Model.Temp GV.Model.TempChk.
Import ListNotations.
"""


def cfloat(x):
    h = float(x).hex()
    return "(%s)%%float" % h


class Rec:
    def __init__(self):
        self.w = None

    def sync(self, pos, length, v):
        self.w = (pos, length, v)

    async def asyn(self, pos, length, v):
        self.w = (pos, length, v)


def build_struct(cls, rec, unit, words=None):
    """Real structure with a TempUnits enum (byte 0), three temperature words, Heating / CoolingDown flags."""
    from geckolib.driver import accessor as A
    from geckolib.driver.spastruct import GeckoStructure
    from geckolib.driver.async_spastruct import GeckoAsyncStructure
    st = GeckoStructure(rec.sync) if cls == "sync" else GeckoAsyncStructure(rec.sync, rec.asyn)
    blk = bytearray(16)
    blk[0] = 0 if unit == "F" else 1
    st.set_status_block(bytes(blk))
    st.accessors = {
        "TempUnits": A.GeckoEnumStructAccessor(st, "TempUnits", 0, 0, ["F", "C"], None, None, "ALL"),
        "SetpointG": A.GeckoTempStructAccessor(st, "SetpointG", 2, "ALL"),
        "DisplayedTempG": A.GeckoTempStructAccessor(st, "DisplayedTempG", 4, None),
        "RealSetPointG": A.GeckoTempStructAccessor(st, "RealSetPointG", 6, None),
    }
    return st


def set_word(st, pos, w):
    b = bytearray(st.status_block)
    b[pos:pos + 2] = struct.pack(">H", w)
    st.set_status_block(bytes(b))


def drive_set(st, cls_mode, t, rec):
    rec.w = None
    a = st.accessors["SetpointG"]
    try:
        if cls_mode == "sync":
            a.value = t
        else:
            co = a.async_set_value(t)
            try:
                co.send(None)
            except StopIteration:
                pass
        return rec.w
    except Exception:
        return "raise"


class StubFacade:
    unique_id = "uid"
    name = "n"

    def __init__(self, spa):
        self._spa = spa


class StubSpa:
    def __init__(self, st):
        self.struct = st
        self.accessors = st.accessors


def run(ctx):
    ctx.rule = ("bit-exact (float.hex) correspondence of the real GeckoTempStructAccessor get/set (both setters, both structure classes, both units) with "
                "Model/Temp.v on boundary + random raw words and decimal / random float temperatures; real GeckoWaterHeater limits, unit symbol and "
                "current_operation for all flag-presence combinations vs the model; histories on ONE structure in which the unit setting is switched under unchanged stored words; every shipped temperature item is checked to be a 2-byte Word item; "
                "non-trivial = distinct (unit, value) whose float result is not an integer")
    ctx.may_use_stdlib_axioms = ("c14_presentation_preserves_order",)
    ctx.prove(timeout=2400)
    rng = ctx.rng
    exprs, meta = [], []
    n = 1500 if ctx.thorough else 300
    words = [0, 1, 17, 18, 19, 269, 270, 271, 657, 702, 719, 720, 721, 32767, 32768, 65534, 65535] + [rng.randrange(65536) for _ in range(n)]
    for unit in ("C", "F"):
        rec = Rec()
        st = build_struct("sync", rec, unit)
        for w in words:
            set_word(st, 2, w)
            v = st.accessors["SetpointG"].value
            exprs.append("chk_get %s %d %s" % (vf.cbool(unit == "C"), w, cfloat(v)))
            meta.append({"get": (unit, w), "impl": v.hex()})
            ctx.case(("get", unit, w), nontrivial=v != int(v))
            ctx.count("get")
            # oracle: write the presented value, it must read back exactly
            for mode in ("sync", "async"):
                stx = st if mode == "sync" else build_struct("async", rec, unit)
                wr = drive_set(stx, mode, v, rec)
                if wr != (2, 2, w):
                    ctx.fail("temp:roundtrip:%s" % unit, "writing the presented temperature of raw word %d (%r %s) produces %r" % (w, v, unit, wr),
                             {"unit": unit, "raw": w, "presented": v.hex(), "device_write": wr, "setter": mode})
        # set path: decimal grid, strings, random floats
        temps = [k / 100 for k in ([0, 1, 1500, 3650, 3655, 3660, 3999, 4000, 5900, 10400, 20000] + [rng.randrange(0, 20001) for _ in range(n)])]
        temps += [rng.uniform(-10, 250) for _ in range(n // 3)] + [36.6, 98.6, 0.1 + 0.2, 1e-9, 3640.5]
        prev = None
        for t in temps:
            res = {}
            for cls, mode in (("sync", "sync"), ("async", "async"), ("async", "sync")):
                stx = build_struct(cls, rec, unit)
                res[(cls, mode)] = drive_set(stx, mode, t, rec)
            vals = set(res.values())
            if len(vals) != 1:
                ctx.fail("temp:setters_differ", "blocking and awaitable temperature setters emit different writes", {"unit": unit, "t": t, "writes": {str(k): v for k, v in res.items()}})
            wr = res[("sync", "sync")]
            e = "None" if wr == "raise" or wr is None else "(Some (%d)%%Z)" % wr[2]
            exprs.append("chk_set %s %s %s" % (vf.cbool(unit == "C"), cfloat(t), e))
            meta.append({"set": (unit, t.hex()), "impl": wr})
            ctx.case(("set", unit, t), nontrivial=True)
            ctx.count("set")
        # string form of a decimal temperature
        stx = build_struct("sync", rec, unit)
        if drive_set(stx, "sync", "36.5", rec) != drive_set(stx, "sync", 36.5, rec):
            ctx.fail("temp:string", "string form of a temperature produces a different write", {"unit": unit})
        # heater: limits, symbol, operation ladder
        from geckolib.automation.heater import GeckoWaterHeater
        from geckolib.driver import accessor as A
        for hp in (None, False, True):
            for cp in (None, False, True):
                stx = build_struct("sync", rec, unit)
                if hp is not None:
                    stx.accessors["Heating"] = A.GeckoBoolStructAccessor(stx, "Heating", 8, 0, None)
                if cp is not None:
                    stx.accessors["CoolingDown"] = A.GeckoBoolStructAccessor(stx, "CoolingDown", 8, 1, None)
                b = bytearray(stx.status_block)
                b[8] = (1 if hp else 0) | (2 if cp else 0)
                stx.set_status_block(bytes(b))
                heater = GeckoWaterHeater(StubFacade(StubSpa(stx)))
                lo, hi, sym = heater.min_temp, heater.max_temp, heater.temperature_unit
                exprs.append("chk_limits %s %d %d" % (vf.cbool(unit == "C"), lo, hi))
                meta.append({"limits": (unit, lo, hi, sym)})
                ctx.case(("limits", unit, hp, cp))
                if (sym == "°C") != (unit == "C"):
                    ctx.fail("heater:symbol", "unit symbol does not follow the spa's unit setting", {"unit": unit, "symbol": sym})
                want = (15, 40) if unit == "C" else (59, 104)
                if (lo, hi) != want:
                    ctx.fail("heater:limits", "min/max temperature do not follow the unit setting", {"unit": unit, "limits": (lo, hi)})
                pairs = [(700, 720), (720, 700), (702, 702), (0, 65535), (65535, 0)] + [(rng.randrange(65536), rng.randrange(65536)) for _ in range(6)]
                for (cur, tgt) in pairs:
                    set_word(stx, 4, cur)
                    set_word(stx, 6, tgt)
                    op = heater.current_operation
                    code = {"Heating": 0, "Cooling": 1, "Idle": 2}[op]
                    ob = lambda x: "None" if x is None else "(Some %s)" % vf.cbool(x)
                    exprs.append("chk_op %s %s %s %d %d %d" % (vf.cbool(unit == "C"), ob(hp), ob(cp), cur, tgt, code))
                    meta.append({"operation": (unit, hp, cp, cur, tgt), "impl": op})
                    ctx.case(("op", unit, hp, cp, cur, tgt))
                    ctx.count("operation")
                    # oracle
                    if hp is not None and cp is not None:
                        want_op = "Heating" if hp else "Cooling" if cp else "Idle"
                    elif hp:
                        want_op = "Heating"
                    elif cp:
                        want_op = "Cooling"
                    else:
                        want_op = "Heating" if cur < tgt else "Cooling" if cur > tgt else "Idle"
                    if op != want_op:
                        ctx.fail("heater:operation", "reported operation inconsistent with flags / temperatures",
                                 {"unit": unit, "heating": hp, "cooling": cp, "current_raw": cur, "target_raw": tgt, "reported": op, "expected": want_op})
    # ONE structure across unit switches: the stored words stay, the unit setting changes under them (what happens when a user
    # flips the unit) - every reading, the heater's symbol / limits and its target must follow the unit of the moment
    from geckolib.automation.heater import GeckoWaterHeater
    for cls in ("sync", "async"):
        rec = Rec()
        st = build_struct(cls, rec, "F")
        heater = GeckoWaterHeater(StubFacade(StubSpa(st)))
        cur_unit = "F"
        for w in [657, 684, 720, 270, 0, 65535] + [rng.randrange(65536) for _ in range(60 if ctx.thorough else 14)]:
            set_word(st, 2, w)
            for _ in range(3):
                if rng.random() < 0.7:
                    cur_unit = "C" if cur_unit == "F" else "F"
                    b = bytearray(st.status_block)
                    b[0] = 1 if cur_unit == "C" else 0
                    st.set_status_block(bytes(b))
                v = st.accessors["SetpointG"].value
                exprs.append("chk_get %s %d %s" % (vf.cbool(cur_unit == "C"), w, cfloat(v)))
                meta.append({"get_after_unit_switch": (cur_unit, w), "impl": v.hex()})
                ctx.case(("get_switch", cls, cur_unit, w), nontrivial=True)
                ctx.count("get_after_unit_switch")
                want = w / 18.0 if cur_unit == "C" else (w + 320) / 10.0
                sym, lim = heater.temperature_unit, (heater.min_temp, heater.max_temp)
                if v != want or heater.target_temperature != want:
                    ctx.fail("temp:stale_after_unit_switch", "after the unit setting changed to %s the stored word %d is presented as %r (heater target %r), not %r"
                             % (cur_unit, w, v, heater.target_temperature, want), {"class": cls, "unit_now": cur_unit, "raw": w, "presented": v, "expected": want})
                if (sym == "°C") != (cur_unit == "C") or lim != ((15, 40) if cur_unit == "C" else (59, 104)):
                    ctx.fail("heater:after_unit_switch", "after the unit setting changed to %s the heater reports symbol %s and limits %r" % (cur_unit, sym, lim),
                             {"class": cls, "unit_now": cur_unit, "symbol": sym, "limits": lim})
    # writes through the HEATER (the facade's set_target_temperature / async_set_target_temperature), from a neighbouring stored word: every
    # temperature the device can represent is written as its own word, however close to the present target it is (1/18 degC steps are finer
    # than the displayed tenth)
    for cls in ("sync", "async"):
        for unit in ("C", "F"):
            rec = Rec()
            st = build_struct(cls, rec, unit)
            heater = GeckoWaterHeater(StubFacade(StubSpa(st)))
            base = rng.randrange(270, 700)
            for w in list(range(base, base + (40 if ctx.thorough else 19))) + [rng.randrange(270, 720) for _ in range(6)]:
                for delta in (1, -1, 2):
                    set_word(st, 2, w)
                    t = (w + delta) / 18.0 if unit == "C" else (w + delta + 320) / 10.0
                    rec.w = None
                    try:
                        if cls == "sync":
                            heater.set_target_temperature(t)
                        else:
                            co = heater.async_set_target_temperature(t)
                            try:
                                co.send(None)
                            except StopIteration:
                                pass
                        wr = rec.w
                    except Exception as e:  # noqa
                        wr = "raise %s" % type(e).__name__
                    ctx.count("heater_level_writes")
                    ctx.case(("heater_write", cls, unit, w, delta), nontrivial=True)
                    if wr != (2, 2, w + delta):
                        ctx.fail("heater:write_from_neighbour:%s" % unit, "target %r deg%s (word %d) requested through the heater while the spa holds word %d: device write %r" % (t, unit, w + delta, w, wr),
                                 {"class": cls, "unit": unit, "stored_word": w, "requested": t, "requested_word": w + delta, "device_write": wr})
                        break
                else:
                    continue
                break
    # shipped temperature items are 2-byte words everywhere
    ntemp = 0
    for m in gen_tables.load_tables():
        for it in m["items"]:
            if it["temp"]:
                ntemp += 1
                if not (it["type"] == "Word" and it["length"] == 2 and it["bitpos"] is None):
                    ctx.fail("temp:item:%s:%s" % (m["stem"], it["tag"]), "temperature item is not a plain 2-byte word", {"module": m["stem"], "item": it["tag"]})
    ctx.extra["shipped_temperature_items"] = ntemp
    for s in (meta[0], meta[400 % len(meta)], meta[-1]):
        ctx.sample(s)
    res = ctx.coq_cases("temp", HEADER, exprs, shard=400)
    bad = [m for m, r in zip(meta, res) if r is not True]
    ctx.oblige("correspondence:temp_model", not bad, "first disagreements: %r" % (bad[:3],))
    ctx.trusted += ["kernel primitive floats (PrimFloat / Uint63 axioms listed by Print Assumptions)"]
    ctx.assume += ["Python's float parsing of decimal text is the correctly rounded double (modelled as k/100 division)",
                   "the order theorem for arbitrary pairs of words relies on the standard library's specification of the primitive floats (FloatAxioms) and Flocq"]
