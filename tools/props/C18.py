"""C18 - pack tables well-formed, consistent; published layouts never change."""
import json
import os

import vf
import gen_tables

KNOWN_BAD = {("mrsteam-log-1", "WaterDetected"), ("mas-ibc-32k-log-1", "UserDryingDelay"), ("mas-ibc-32k-log-1", "PurgeDelayTimer")}


def run(ctx):
    ctx.rule = ("finite and complete: every module under geckolib/driver/packs is imported from the working tree and regenerated as Coq data; "
                "obligations = module_ok per module (vm_compute over all its items), names_ok, pin_ok per pinned module; "
                "the python oracle repeats the checks item by item to name the failing item. non-trivial = every item (each has its own geometry)")
    mods = None
    ctx.prove(extra_targets=["Gen/PinCheck.vo"], timeout=2400)
    mods = gen_tables.load_tables()
    okm = 0
    for m in mods:
        good = vf.vo_exists("Gen/Tables/%s.vo" % gen_tables.coq_ident(m["stem"]))
        okm += good
        if not good:
            ctx.oblige("table:" + m["stem"], False, "module_ok failed / did not compile")
    ctx.oblige("tables:all_%d_modules_ok" % len(mods), okm == len(mods), "%d/%d" % (okm, len(mods)))
    ctx.oblige("pinned:PinCheck", vf.vo_exists("Gen/PinCheck.vo"), "")
    # ---- oracle: item by item on the real objects
    packs = {m["stem"] for m in mods if m["kind"] == "KPack"}
    nitems = 0
    for m in mods:
        tags = [it["tag"] for it in m["items"]]
        for it in m["items"]:
            nitems += 1
            ctx.case((m["stem"], it["tag"]))
            pr = gen_tables.item_problems(it)
            if pr:
                ctx.fail("table:%s:%s" % (m["stem"], it["tag"]), "%s %s: %s" % (m["stem"], it["tag"], "; ".join(pr)),
                         {"module": m["stem"], "item": it["tag"], "problems": pr, "pos": it["pos"], "length": it["length"],
                          "bitpos": it["bitpos"], "mask": it["mask"], "labels": len(it["items"] or [])})
        if len(set(tags)) != len(tags):
            ctx.fail("table:%s:duplicate_tag" % m["stem"], "duplicate item tag", {"module": m["stem"]})
        for k in m["outputs"] + m["demands"] + m["errors"]:
            if k not in tags:
                ctx.fail("key:%s:%s" % (m["stem"], k), "advertised key %s of %s names no item" % (k, m["stem"]), {"module": m["stem"], "key": k})
        # naming
        if m["kind"] == "KPack":
            good = m["stem"] == m["pack_name"].lower()
        else:
            mid = "-cfg-" if m["kind"] == "KCfg" else "-log-"
            good = any(m["stem"] == p + mid + str(m["version"]) for p in packs)
        if not good:
            ctx.fail("name:%s" % m["stem"], "module name %s disagrees with the platform / version it declares (%s)" % (m["stem"], m["version"]),
                     {"module": m["stem"], "declared_version": m["version"], "pack_name": m["pack_name"]})
    # ---- what a spa reports selects the modules: for every shipped platform x config version x log version the FILES reply, decoded by the
    #      real handler, must name exactly the config / log modules of those versions (the client builds '<platform>-cfg-<n>' / '-log-<m>' from it)
    from geckolib.driver import GeckoConfigFileProtocolHandler
    # the clients' OWN name expressions (fail-closed AST read of the f-strings assigned to pack_module_name / config_module_name /
    # log_module_name in GeckoAsyncSpa._connect and GeckoSpa's connect path), evaluated on what the real handler decoded
    import ast
    import importlib.util

    def name_exprs(relpath):
        tree = ast.parse(open(os.path.join(vf.REPO, "src", "geckolib", relpath)).read())
        found = {}
        for node in ast.walk(tree):
            if isinstance(node, ast.Assign) and len(node.targets) == 1 and isinstance(node.targets[0], ast.Name) \
                    and node.targets[0].id in ("pack_module_name", "config_module_name", "log_module_name"):
                if not isinstance(node.value, ast.JoinedStr) or node.targets[0].id in found:
                    return None
                free = {n.id for n in ast.walk(node.value) if isinstance(n, ast.Name)}
                if not free <= {"plateform_key", "self"}:
                    return None
                found[node.targets[0].id] = compile(ast.Expression(node.value), relpath, "eval")
        return found if len(found) == 3 else None
    clients = {"async_spa.py": name_exprs("async_spa.py"), "spa.py": name_exprs("spa.py")}
    ctx.oblige("translator:module_name_expressions_of_both_clients_read", all(v is not None for v in clients.values()),
               "the f-strings that build the pack / config / log module names were not found in their known form in: %r" % [k for k, v in clients.items() if v is None])

    class _V:
        pass

    def client_names(exprs, key, cv, lv):
        v = _V()
        v.config_version, v.log_version = cv, lv
        env = {"plateform_key": key, "self": v}
        return tuple(eval(exprs[k], {}, env) for k in ("pack_module_name", "config_module_name", "log_module_name"))
    for p_ in [m for m in mods if m["kind"] == "KPack"]:
        cfgs = sorted(m["version"] for m in mods if m["kind"] == "KCfg" and m["stem"].startswith(p_["stem"] + "-cfg-"))
        logs = sorted(m["version"] for m in mods if m["kind"] == "KLog" and m["stem"].startswith(p_["stem"] + "-log-"))
        for cv in cfgs:
            for lv in logs:
                ctx.count("files_reply_module_selection")
                try:
                    h = GeckoConfigFileProtocolHandler.response(p_["pack_name"], cv, lv, parms=("1.2.3.4", 10022, b"a", b"b"))
                    r = GeckoConfigFileProtocolHandler()
                    r.handle(h._content, ("1.2.3.4", 10022, b"a", b"b"))
                    got = ("%s-cfg-%s" % (r.plateform_key.lower(), r.config_version), "%s-log-%s" % (r.plateform_key.lower(), r.log_version))
                except Exception as e:  # noqa
                    got = ("raises", type(e).__name__)
                want = ("%s-cfg-%d" % (p_["stem"], cv), "%s-log-%d" % (p_["stem"], lv))
                for cl, exprs in clients.items():
                    if exprs is None or got[0] == "raises":
                        continue
                    ctx.count("client_module_name_evaluations")
                    try:
                        names = client_names(exprs, r.plateform_key.lower(), r.config_version, r.log_version)
                    except Exception as e:  # noqa
                        names = ("raises", type(e).__name__, "")
                    wantn = ("geckolib.driver.packs." + p_["stem"], "geckolib.driver.packs." + want[0], "geckolib.driver.packs." + want[1])
                    if names != wantn or any(importlib.util.find_spec(n) is None for n in names):
                        ctx.fail("name:client_selects:%s:%s" % (cl, p_["stem"]), "%s: a spa reporting %s config %d / log %d makes the client import %r; the published modules are %r" % (
                            cl, p_["pack_name"], cv, lv, names, wantn), {"client": cl, "platform": p_["pack_name"], "config_version": cv, "log_version": lv, "imports": list(names), "published": list(wantn)})
                        clients[cl] = None
                if got != want:
                    ctx.fail("name:files_reply:%s" % p_["stem"], "a spa reporting %s config %d / log %d makes the client load %r instead of %r" % (p_["pack_name"], cv, lv, got, want),
                             {"platform": p_["pack_name"], "config_version": cv, "log_version": lv, "selected": got, "expected": want})
                    break
            else:
                continue
            break
    # ---- pinned layouts
    pinned = json.load(open(os.path.join(vf.COQ, "Pinned", "layout.json")))
    cur = {m["stem"]: gen_tables.layout_of(m) for m in mods}
    cur = json.loads(json.dumps(cur))
    for stem, lay in sorted(pinned.items()):
        ctx.count("pinned_modules")
        c = cur.get(stem)
        if c is None:
            ctx.fail("pinned:%s:missing" % stem, "published module %s no longer exists" % stem, {"module": stem})
            continue
        for k in ("version", "pack_type", "begin", "end"):
            if lay[k] != c[k]:
                ctx.fail("pinned:%s:%s" % (stem, k), "published %s of %s changed from %r to %r" % (k, stem, lay[k], c[k]), {"module": stem, "field": k})
        if set(lay["items"]) != set(c["items"]):
            diff = sorted(set(lay["items"]) ^ set(c["items"]))
            ctx.fail("pinned:%s:itemset" % stem, "items added to / removed from published %s: %s" % (stem, diff[:5]), {"module": stem, "items": diff})
        for tag, l in lay["items"].items():
            if tag in c["items"] and c["items"][tag] != l:
                ctx.fail("pinned:%s:%s" % (stem, tag), "published layout of %s %s changed" % (stem, tag),
                         {"module": stem, "item": tag, "pinned": l, "current": c["items"][tag],
                          "fields": ["type", "pos", "length", "bitpos", "mask", "labels", "writable", "temperature"]})
    ctx.exhaustive = True
    ctx.extra["modules"] = len(mods)
    ctx.extra["items"] = nitems
    ctx.sample({"module": mods[20]["stem"], "item": mods[20]["items"][3] if mods[20]["items"] else None})
    ctx.sample({"pinned_module": "inxm-cfg-9", "Out1A": pinned["inxm-cfg-9"]["items"]["Out1A"][:5]})
    ctx.assume += ["tables are obtained by importing the modules and instantiating their classes with a dummy structure; constructor arguments are recorded by wrapping GeckoStructAccessor.__init__",
                   "Pinned/ was generated once from the audited commit 236b7b1 (pack files identical at the fix commits)"]
