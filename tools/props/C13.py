"""C13 - facade commands emit exactly the intended device write and are idempotent."""
import asyncio
import struct

import vf
import gen_tables
from harness import vloop, session
from props.C14 import cfloat

HEADER = """From Coq Require Import ZArith List Bool String PrimFloat.
Require Import GV.Lib.Bytes GV.Model.Accessor GV.Model.Wire GV.Model.Temp GV.Model.Commands GV.Model.CommandsChk GV.Gen.Labels.
Import ListNotations. Open Scope string_scope. Open Scope Z_scope.
"""
SNAPSHOTS = ["inYT-all off-2020-10-23 18_00_45.snapshot", "inXM-Idle-2020-12-09 11_14_06.snapshot", "inYJ-All off-2020-12-18 11_24_09.snapshot",
             "inYT-Pump1Hi-2020-12-13 11_19_35.snapshot", "inXM-Pump 1, 2, Blower and Light running-2020-12-08 19_55_06.snapshot"]


def parse_cmd(datagram):
    """content of a command datagram that reached the spa -> Coq msg literal"""
    i = datagram.index(b"<DATAS>") + 7
    c = datagram[i:datagram.rindex(b"</DATAS>")]
    if c[:5] == b"SPACK":
        seq, pack, ln, cmd = c[5:9]
        if cmd == 57:
            return "(SpackKey %d %d %d)" % (seq, pack, c[9]), ("key", seq)
        cfg, log, pos = struct.unpack(">BBH", c[9:13])
        data = c[13:]
        return "(SpackSet %d %d %d %d %d %d %d)" % (seq, pack, cfg, log, pos, len(data), int.from_bytes(data, "big")), ("set", seq)
    if c[:5] == b"SETWC":
        return "(Setwc %d %d)" % (c[5], c[6]), ("wc", c[5])
    return None, None


def acc_lit(item):
    return "(acc_of %s)" % gen_tables.decl_coq(item)


def run(ctx):
    ctx.rule = ("the REAL async stack (GeckoAsyncSpa connected through its real handshake to the in-process simulator under virtual time, real GeckoAsyncFacade) on 3-5 "
                "shipped snapshots; random sequences of facade commands (pump modes incl. invalid ones, blower / light / eco on and off in every current state, target "
                "temperatures - random ones and a sweep over the 0.1 degF steps / representable Celsius readings of the whole range -, unit changes, watercare modes); the spa applies writes / key presses and echoes partial updates; per command: the datagrams that reached the "
                "spa vs Model/Commands.exec on the client's block, and the read-back after the echo; non-trivial = command that emitted a datagram")
    ctx.prove(timeout=2400)
    rng = ctx.rng
    mods = {m["stem"]: m for m in gen_tables.load_tables()}
    exprs, meta = [], []
    snaps = SNAPSHOTS if ctx.thorough else SNAPSHOTS[:3]
    ncmd = 40 if ctx.thorough else 16

    def sweep_plan():
        # target temperatures across the whole range in both units: every 0.1 degF step the device can represent (quick: every third,
        # from a random offset) and the representable Celsius readings
        off = rng.randrange(3)
        fs = [("target", (r + 320) / 10.0) for r in range(270 + (0 if ctx.thorough else off), 721, 1 if ctx.thorough else 3)]
        cs = [("target", r / 18.0) for r in range(270 + off, 721, 9 if ctx.thorough else 27)]
        # every pump: up, then off again at once (the spa's output state has not followed the demand yet), then a speed and off
        ms = [("mode", i, m) for i in range(4) for m in ("HI", "OFF", "LO", "OFF")]
        return ms + wc_plan() + [("unit", False)] + fs + [("unit", True)] + cs

    def wc_plan():
        # every watercare mode, by index and by name (mode 0 included), twice in a row as well
        from geckolib.const import GeckoConstants as K
        return [("wc", m) for m in (0, 1, 0, 0, 2, 3, 4)] + [("wc", nm) for nm in K.WATERCARE_MODE_STRING]

    async def scenario(loop, snap, plan=()):
        from geckolib.const import GeckoConstants as K
        peer = session.Peer(loop, snap, echo_delay=0.2)
        cl = session.Client(peer)
        if not await cl.connect(with_facade=True):
            raise RuntimeError("could not connect to the simulator on " + snap)
        await asyncio.sleep(3.0)
        spa, f = cl.spa, cl.facade
        # the property is about commands on a quiescent connection: stop the periodic refresh / facade update tasks (they
        # consume protocol sequence numbers and a refresh transfer racing with an echo is C05/C09 business); pings continue
        for t in cl.taskman._tasks:
            if t.get_name() in ("SPA:Refresh loop", "FACADE:Facade update"):
                t.cancel()
        await asyncio.sleep(0.1)
        cfgm = mods["%s-cfg-%d" % (peer.sim.snapshot.packtype.lower(), spa.config_version)]
        logm = mods["%s-log-%d" % (peer.sim.snapshot.packtype.lower(), spa.log_version)]
        items = {it["tag"]: it for it in cfgm["items"]}
        items.update({it["tag"]: it for it in logm["items"]})
        cctx = "(mkCtx %d %d %d)" % (spa.pack_type, spa.config_version, spa.log_version)
        ctr = [spa._protocol._sequence_counter_protocol, spa._protocol._sequence_counter_command]
        out = []
        for n in range(ncmd + len(plan)):
            blk = spa.struct.status_block
            ctr = [spa._protocol._sequence_counter_protocol, spa._protocol._sequence_counter_command]
            kinds = ["mode"] * 3 + ["turn"] * 4 + ["target", "unit", "wc"]
            forced = plan[n - ncmd] if n >= ncmd else None
            kind = forced[0] if forced else rng.choice(kinds)
            n0 = len(peer.raw)
            desc, ck, check = None, None, None
            watched = [k for k in list(spa.struct.user_demands) + ["SetpointG", "TempUnits"] if k in spa.accessors]
            before = {k: spa.accessors[k].raw_value for k in watched}
            if kind == "mode" and f.pumps:
                p = rng.choice(f.pumps)
                mode = rng.choice(list(p.modes) + ["NOPE"])
                if forced:
                    if forced[1] >= len(f.pumps) or forced[2] not in f.pumps[forced[1]].modes:
                        continue
                    p, mode = f.pumps[forced[1]], forced[2]
                dem = p._user_demand["demand"]
                ck = "SetMode %s %s" % (acc_lit(items[dem]), vf.cstr(mode))
                desc = ("set_mode", p.key, mode)
                await p.async_set_mode(mode)
                check = (lambda dem=dem, mode=mode: spa.accessors[dem].value == mode) if mode in p.modes else None
            elif kind == "turn":
                devs = list(f.blowers) + list(f.lights) + ([f.eco_mode] if f.eco_mode is not None else []) 
                if not devs:
                    continue
                d = rng.choice(devs)
                on = rng.random() < 0.5
                st_key = d._accessor.tag
                ck = "Turn (mkSw %s %d) %s" % (acc_lit(items[st_key]), d._keypad_button, vf.cbool(on))
                desc = ("turn_on" if on else "turn_off", d.key, "was_on=%s" % d.is_on)
                was = d.is_on
                await (d.async_turn_on() if on else d.async_turn_off())
                check = (lambda d=d, on=on: d.is_on == on)
                if was == on:
                    check = (lambda n0=n0: len(session.spack_datagrams(peer, n0)) == 0)
            elif kind == "target":
                unit = spa.accessors["TempUnits"].value
                r = rng.randrange(270, 721)
                t = (r / 18.0) if unit == "C" else ((r + 320) / 10.0)
                if rng.random() < 0.3:
                    t = round(t, 1)
                if forced:
                    t = forced[1]
                ck = "SetTarget %s %s %s" % (acc_lit(items["SetpointG"]), "UC" if unit == "C" else "UF", cfloat(t))
                desc = ("set_target_temperature", unit, t)
                await f.water_heater.async_set_target_temperature(t)
                # the client reads back the requested value: within one device step (0.1 degF, 1/18 degC)
                check = (lambda t=t, unit=unit: abs(f.water_heater.target_temperature - t) < (0.1 if unit == "F" else 1 / 18.0) - 1e-9)
            elif kind == "unit":
                cel = forced[1] if forced else rng.random() < 0.5
                ck = "SetUnit %s %s" % (acc_lit(items["TempUnits"]), vf.cbool(cel))
                desc = ("set_temperature_unit", "C" if cel else "F")
                await f.water_heater.async_set_temperature_unit("°C" if cel else "°F")
                check = (lambda cel=cel: f.water_heater.temperature_unit == ("°C" if cel else "°F"))
            elif kind == "wc":
                m = forced[1] if forced else rng.randrange(0, 5)
                if isinstance(m, str):
                    m_arg, m = m, K.WATERCARE_MODE_STRING.index(m)
                else:
                    m_arg = m
                ck = "SetWatercare %d" % m
                desc = ("watercare", m)
                t = loop.create_task(f.water_care.async_set_mode(m_arg))   # SETWC is never answered (K4): do not wait for the retries
                await asyncio.sleep(0.5)
                t.cancel()
                check = None
            if ck is None:
                continue
            await asyncio.sleep(1.0)       # echo
            sent = [d for (tt, d) in peer.raw[n0:] if b"<DATAS>SPACK" in d or b"<DATAS>SETWC" in d]
            lits = [parse_cmd(d)[0] for d in sent]
            ctr2 = [spa._protocol._sequence_counter_protocol, spa._protocol._sequence_counter_command]
            if kind == "wc":
                # only the first attempt belongs to the command (the harness cancelled the retries)
                lits = lits[:1]
                ctr2 = [1 if ctr[0] == 191 else ctr[0] + 1, ctr[1]]
                spa._protocol._sequence_counter_protocol = ctr2[0]
            after = {k: spa.accessors[k].raw_value for k in watched}
            # the one item the command is about: everything else the spa holds for its devices must read as before
            target = {"mode": lambda: p._user_demand["demand"], "turn": lambda: st_key, "target": lambda: "SetpointG", "unit": lambda: "TempUnits", "wc": lambda: None}[kind]()
            collateral = [(k, before[k], after[k]) for k in watched if k != target and before[k] != after[k]]
            out.append({"snap": snap, "desc": desc, "collateral": collateral, "versions": (spa.pack_type, spa.config_version, spa.log_version), "gate": (spa.is_connected, spa.is_responding_to_pings, round(loop.time() - 1000, 1)), "expr": "chk_cmd %s %s (%d, %d) (%s) [%s] (%d, %d)" % (cctx, vf.zb(blk), ctr[0], ctr[1], ck, "; ".join(lits), ctr2[0], ctr2[1]),
                        "sent": lits, "readback_ok": (check() if check else None),
                        "mirror": spa.struct.status_block == peer.sim.structure.status_block})
        await cl.close()
        return out

    for si, snap in enumerate(snaps):
        res = vloop.run(lambda loop: scenario(loop, snap, sweep_plan() if si == ctx.seed % len(snaps) else wc_plan()))
        for r in res:
            exprs.append(r["expr"])
            meta.append({"snapshot": snap, "command": r["desc"], "datagrams": r["sent"]})
            ctx.case((snap, str(r["desc"]), str(r["sent"])), nontrivial=bool(r["sent"]))
            ctx.count("cmd:" + r["desc"][0])
            ctx.count("datagrams", len(r["sent"]))
            # ---- oracle
            if len(r["sent"]) > 1:
                ctx.fail("command:multiple", "command %s emitted %d datagrams" % (r["desc"], len(r["sent"])), {"snapshot": snap, "command": r["desc"], "datagrams": r["sent"]})
            if r["desc"][0] == "watercare" and not any(x.startswith("(Setwc ") and x.rstrip(")").split()[-1] == str(r["desc"][1]) for x in r["sent"]):
                ctx.fail("command:watercare_not_sent", "setting watercare mode %d emitted %r instead of one SETWC datagram carrying that mode" % (r["desc"][1], r["sent"]),
                         {"snapshot": snap, "command": r["desc"], "datagrams": r["sent"]})
            if r["readback_ok"] is False:
                ctx.fail("command:readback:%s" % r["desc"][0], "after the spa's echo the client does not read the requested value (%s)" % (r["desc"],),
                         {"snapshot": snap, "command": r["desc"], "datagrams": r["sent"], "connected_answering_time": r["gate"]})
            if r["collateral"]:
                ctx.fail("command:collateral:%s" % r["desc"][0], "command %s also changed %s on the spa" % (r["desc"], r["collateral"][:3]),
                         {"snapshot": snap, "command": r["desc"], "datagrams": r["sent"], "also_changed": r["collateral"]})
            if not r["mirror"]:
                ctx.fail("command:mirror", "client block differs from the spa's after the echo", {"snapshot": snap, "command": r["desc"]})
            for l in r["sent"]:
                parts = l.strip("()").split()
                seq = int(parts[1])
                # the command names the connected pack's type and its config / log structure versions, in that order
                if parts[0] == "SpackSet" and (int(parts[2]), int(parts[3]), int(parts[4])) != tuple(r["versions"]):
                    ctx.fail("command:versions", "set-value command %s carries (pack type, config version, log version) = %r, the connected pack is %r" % (
                        r["desc"], (int(parts[2]), int(parts[3]), int(parts[4])), tuple(r["versions"])), {"snapshot": snap, "command": r["desc"], "datagram": l, "connected": r["versions"]})
                if parts[0] == "SpackKey" and int(parts[2]) != r["versions"][0]:
                    ctx.fail("command:versions", "key-press command %s carries pack type %s, the connected pack is %r" % (r["desc"], parts[2], r["versions"][0]), {"snapshot": snap, "command": r["desc"], "datagram": l})
                if parts[0] in ("SpackSet", "SpackKey") and not 192 <= seq <= 255:
                    ctx.fail("command:seq", "pack command numbered %d (outside 192..255)" % seq, {"snapshot": snap, "command": r["desc"], "datagram": l})
    for s in meta[:2] + meta[-1:]:
        ctx.sample(s)
    res = ctx.coq_cases("cmd", HEADER, exprs, shard=12, timeout=1200)
    bad = [m for m, r in zip(meta, res) if r is not True]
    ctx.oblige("correspondence:commands_model", not bad, "first disagreements: %r" % (bad[:3],))
    ctx.assume += ["the spa's reaction to a key press (toggle of the device the keypad code belongs to) and its echo of writes are an environment specification implemented in the harness peer",
                   "a responsive spa: one attempt per command (retries re-number the command; they are C06's business)",
                   "the threaded command paths share the accessor / counter code; their sequence range is checked in C16 (wire level)"]
