"""C05 - partial updates applied exactly once, in arrival order, acknowledged."""
import asyncio
import contextlib
import io
import struct

import vf

HEADER = """From Coq Require Import ZArith List Bool.
Require Import GV.Lib.Bytes GV.Model.Wire GV.Model.Partial GV.Model.PartialChk.
Import ListNotations. Open Scope Z_scope.
"""
SENDER = ("10.0.0.1", 10022, b"SPA01:02:03:04:05:06", b"IOS00000000")


class FakeTransport:
    def __init__(self):
        self.sent = []

    def sendto(self, data, addr=None):
        self.sent.append(data)

    def close(self):
        pass


def content_of(datagram):
    i = datagram.index(b"<DATAS>") + 7
    return datagram[i:datagram.rindex(b"</DATAS>")]


def run_async(blk0, events):
    """Real GeckoAsyncSpa + real long-lived GeckoAsyncPartialStatusBlockProtocolHandler, driven as consume() does."""
    from geckolib.async_spa import GeckoAsyncSpa
    from geckolib.async_spa_descriptor import GeckoAsyncSpaDescriptor
    from geckolib.async_tasks import AsyncTasks
    from geckolib.driver import GeckoAsyncUdpProtocol, GeckoAsyncPartialStatusBlockProtocolHandler

    async def ev(*a, **k):
        pass

    async def main():
        desc = GeckoAsyncSpaDescriptor(SENDER[2], "x", (SENDER[0], SENDER[1]))
        spa = GeckoAsyncSpa(SENDER[3], desc, AsyncTasks(), ev)
        proto = GeckoAsyncUdpProtocol(None, (SENDER[0], SENDER[1]))
        tr = FakeTransport()
        proto.connection_made(tr)
        spa._protocol = proto
        spa.struct.set_status_block(bytes(blk0))
        h = GeckoAsyncPartialStatusBlockProtocolHandler(proto, async_on_handled=spa._async_on_partial_status_update)
        blks, acks = [], []
        for e in events:
            n0 = len(tr.sent)
            if e[0] == "R":
                spa.struct.replace_status_block_segment(e[1], bytes(e[2]))
            else:
                d = bytes(e[1])
                if h.can_handle(d, SENDER):
                    await h.async_handle(d, SENDER)
                    await h.async_handled(SENDER)
            blks.append(spa.struct.status_block)
            acks.append([content_of(x) for x in tr.sent[n0:]])
        return blks, acks
    return asyncio.run(main())


def run_sync(blk0, events):
    """Real GeckoSpa (threads never started) with its own long-lived partial handler, through dispatch_recevied_data."""
    from geckolib.spa import GeckoSpa
    from geckolib.spa_descriptor import GeckoSpaDescriptor
    with contextlib.redirect_stdout(io.StringIO()):
        spa = GeckoSpa(GeckoSpaDescriptor(SENDER[3], SENDER[2], "x", (SENDER[0], SENDER[1])))
    spa.struct.set_status_block(bytes(blk0))
    blks, acks = [], []
    for e in events:
        n0 = len(spa._send_handlers)
        if e[0] == "R":
            spa.struct.replace_status_block_segment(e[1], bytes(e[2]))
        else:
            spa.dispatch_recevied_data(bytes(e[1]), SENDER)
        blks.append(spa.struct.status_block)
        acks.append([content_of(h.send_bytes) for (h, dest) in spa._send_handlers[n0:]])
    return blks, acks


def statp(changes):
    return b"STATP" + struct.pack(">B", len(changes)) + b"".join(struct.pack(">H", p) + bytes(d) for p, d in changes)


def run(ctx):
    ctx.rule = ("histories of 0-12 (one of them 230) STATP messages (0-6 records each, repeated positions, byte-identical repeats of earlier messages, the simulator's 1-byte change) interleaved with refreshes that "
                "overwrite the same positions, on 48-byte blocks; the real long-lived handler objects of both clients; block after every event and STATQ "
                "datagrams compared with Model/Partial.v; a malformed stream adds truncated / over-long STATP and positions beyond the block; "
                "non-trivial = history with at least two partial messages that touch a common position")
    ctx.prove(timeout=1800)
    rng = ctx.rng
    exprs, meta = [], []
    nh = 300 if ctx.thorough else 70
    for h in range(nh):
        n = 48
        blk0 = bytes(rng.randrange(256) for _ in range(n))
        hot = [rng.randrange(n - 2) for _ in range(3)]
        evs, ups = [], []
        malformed = h % 10 == 9
        long_session = (h == 5)      # one long session: a couple of hundred acknowledgements on one connection (the protocol counter wraps)
        for _ in range(rng.randrange(0, 13) if not long_session else 230):
            r = rng.random() if not long_session else 0.3
            prevp = [j for j, u in enumerate(ups) if u[0] == "P" and u[1]]
            if r < 0.14 and prevp and not malformed:
                # the spa sends a message it has sent before, byte for byte (same positions, same values) - mostly the latest
                j = prevp[-1] if rng.random() < 0.7 else rng.choice(prevp)
                evs.append(evs[j])
                ups.append(ups[j])
                ctx.count("repeated_identical_statp")
                continue
            if r < 0.25:
                st = rng.choice(hot + [0, rng.randrange(n - 4)])
                data = bytes(rng.randrange(256) for _ in range(rng.choice([1, 2, 4, n - st])))
                evs.append(("R", st, data))
                ups.append(("R", st, data))
            elif r < 0.32:
                p = rng.choice(hot)
                ch = [(p, bytes([rng.randrange(256)]))]
                evs.append(("P", statp(ch)))
                ups.append(("P", ch))
            else:
                ch = [(rng.choice(hot + [rng.randrange(n - 2)]), bytes([rng.randrange(256), rng.randrange(256)])) for _ in range(rng.randrange(0, 7))]
                d = statp(ch)
                if malformed and rng.random() < 0.5:
                    d = rng.choice([d[:-1], d + b"\x00\x01", b"STATP", b"STATP\x03\x00\x01", statp([(n + 5, b"ab")]), b"STATQ\x05"])
                    ch = None
                evs.append(("P", d))
                ups.append(("P", ch))
        if h % 5 == 3 and not malformed:
            # an update, then something else writes one of its positions (a refresh), then an update with NO records: nothing of the earlier
            # message may come back; then the same with an update about other positions
            p0 = rng.choice(hot)
            ch = [(p0, bytes([blk0[p0] ^ 0x5a, blk0[p0 + 1] ^ 0xa5])), ((p0 + 7) % (n - 2), b"\x11\x22")]
            tail = [("P", ch), ("R", p0, bytes([blk0[p0] ^ 0x0f, blk0[p0 + 1] ^ 0xf0])), ("P", []), ("R", p0, bytes([blk0[p0] ^ 0x33])), ("P", [((p0 + 20) % (n - 2), b"\x01")]), ("P", [])]
            for t in tail:
                if t[0] == "P":
                    evs.append(("P", statp(t[1])))
                    ups.append(("P", t[1]))
                else:
                    evs.append(t)
                    ups.append(t)
            ctx.count("histories_with_an_empty_update_after_an_overwrite")
        for cls, fn in (("async", run_async), ("sync", run_sync)):
            try:
                blks, acks = fn(blk0, evs)
            except Exception as e:
                if malformed:
                    continue   # an exception escaping on a malformed datagram is outside the property's quantifier
                raise
            ces = "[" + "; ".join(("PRefresh %d %s" % (e[1], vf.zb(e[2]))) if e[0] == "R" else ("PStatp %s" % vf.zb(e[1])) for e in evs) + "]"
            exprs.append("chk_partial %s %s %s [%s] [%s]" % (vf.cbool(cls == "async"), vf.zb(blk0), ces, "; ".join(vf.zb(b) for b in blks),
                                                           "; ".join("[" + "; ".join(vf.zb(a) for a in ak) + "]" for ak in acks)))
            meta.append({"class": cls, "events": len(evs), "malformed": malformed})
            pos_sets = [set(p for p, _ in u[1]) for u in ups if u[0] == "P" and u[1]]
            overlap = any(a & b for i, a in enumerate(pos_sets) for b in pos_sets[i + 1:])
            ctx.case((cls, blk0, str(evs)), nontrivial=overlap)
            ctx.count("events", len(evs))
            ctx.count("class:" + cls)
            if malformed:
                ctx.count("malformed_histories")
                continue
            # ---- direct property oracle on the implementation
            ref = bytes(blk0)
            seqs = []
            for i, u in enumerate(ups):
                if u[0] == "R":
                    ref = ref[:u[1]] + u[2] + ref[u[1] + len(u[2]):]
                    want_acks = 0
                else:
                    for p, d in u[1]:
                        ref = ref[:p] + d + ref[p + len(d):]
                    want_acks = 1
                if blks[i] != ref:
                    ctx.fail("partial:%s:block" % cls, "client block differs from applying the updates once each in arrival order",
                             {"class": cls, "block0": list(blk0), "updates": [(u[0], u[1] if u[0] == "P" else (u[1], list(u[2]))) for u in ups],
                              "after_event": i, "client": list(blks[i]), "reference": list(ref)})
                    break
                if len(acks[i]) != want_acks or any(not (a[:5] == b"STATQ" and len(a) == 6 and 1 <= a[5] <= 191) for a in acks[i]):
                    ctx.fail("partial:%s:ack" % cls, "partial update not answered by exactly one protocol-range STATQ",
                             {"class": cls, "event": i, "acks": [list(a) for a in acks[i]]})
                    break
                seqs += [a[5] for a in acks[i]]
            if any(b != (1 if a == 191 else a + 1) for a, b in zip(seqs, seqs[1:])):
                ctx.fail("partial:%s:ack_sequence" % cls, "acknowledgement numbers are not consecutive", {"class": cls, "seqs": seqs})
        if h < 2:
            ctx.sample({"block0": list(blk0)[:16], "events": [(e[0], list(e[1])[:12]) if e[0] == "P" else (e[0], e[1], list(e[2])[:6]) for e in evs[:5]]})
    # ---- the whole async client: partial updates that arrive WHILE a status-block refresh (or any other request) is outstanding are applied
    #      and acknowledged at once, in arrival order - they do not wait for the exchange in progress
    from harness import vloop, session

    def during_refresh(seed):
        import random
        r2 = random.Random(seed)

        async def main(loop):
            slow = [0.0]

            def script(direction, data):
                if direction == "down" and b"<DATAS>STATV" in data:
                    return [(0.02 + slow[0], data)]
                return [(0.0 if direction == "up" else 0.02, data)]
            peer = session.Peer(loop, "inYT-all off-2020-10-23 18_00_45.snapshot", latency=0.02, script=script)
            cl = session.Client(peer)
            if not await cl.connect(with_facade=False):
                return None
            await asyncio.sleep(1.0)
            spa = cl.spa
            for t in cl.taskman._tasks:
                if t.get_name() in ("SPA:Refresh loop",):
                    t.cancel()
            from geckolib.driver import GeckoStatusBlockProtocolHandler
            out = []
            for rnd in range(3):
                slow[0] = r2.choice([0.9, 1.6, 2.4])
                n0 = len(peer.raw)
                ref = loop.create_task(spa.struct.get(spa._protocol, lambda: GeckoStatusBlockProtocolHandler.full_request(
                    spa._protocol.get_and_increment_sequence_counter(False), parms=spa.sendparms)))
                pushes = []
                # only pushes that reach the client BEFORE the (delayed) reply does: behind the reply's segments a datagram waits its turn in the queue
                for j in range(max(1, int((slow[0] - 0.15) / 0.6))):
                    await asyncio.sleep(r2.choice([0.05, 0.1, 0.15]))
                    val = 60.0 + r2.randrange(40)
                    peer.spontaneous("DisplayedTempG", val)
                    await asyncio.sleep(0.45)      # latency + two polling intervals of the partial-update consumer
                    pushes.append((val, spa.accessors["DisplayedTempG"].value, ref.done()))
                await asyncio.sleep(slow[0] + 6.0)
                for _ in range(400):
                    # whatever is left of the exchange (segments of a chain that was asked for again) drains before the next round
                    if spa._protocol.queue.qsize() == 0:
                        break
                    await asyncio.sleep(0.5)
                acks = sum(1 for (t, d) in peer.raw[n0:] if b"<DATAS>STATQ" in d)
                out.append(dict(pushes=pushes, acks=acks, refresh_ok=ref.done() and not ref.cancelled() and bool(ref.result()),
                                mirror=spa.struct.status_block == peer.sim.structure.status_block, slow=slow[0]))
                slow[0] = 0.0
            # a partial update the spa takes back without telling (its second report is lost): the next refresh returns the very image the
            # previous refresh returned - the client must hold that image again afterwards
            slow[0] = 0.0
            full = lambda: GeckoStatusBlockProtocolHandler.full_request(spa._protocol.get_and_increment_sequence_counter(False), parms=spa.sendparms)  # noqa: E731
            await spa.struct.get(spa._protocol, full)
            image = spa.struct.status_block
            d = b"<PACKT><SRCCN>" + session.SPA_ID + b"</SRCCN><DESCN>" + session.CLIENT_ID + b"</DESCN><DATAS>STATP\x01\x01\x13" + bytes([image[0x113] ^ 0x55, image[0x114] ^ 0x0f]) + b"</DATAS></PACKT>"
            spa._protocol.datagram_received(d, vloop.SIMADDR)
            await asyncio.sleep(1.0)
            changed = spa.struct.status_block != image
            await spa.struct.get(spa._protocol, full)
            await asyncio.sleep(0.5)
            out.append(dict(same_image_refresh=True, changed_by_update=changed, back_to_image=spa.struct.status_block == image,
                            differs_at=[i for i in range(len(image)) if spa.struct.status_block[i] != image[i]][:4]))
            await cl.close()
            return out
        return vloop.run(main)
    for k in range(4 if ctx.thorough else 2):
        rounds = during_refresh(ctx.seed * 100 + k) or []
        for rd in rounds:
            if rd.get("same_image_refresh"):
                ctx.count("refresh_returning_the_previous_image")
                ctx.case(("same_image_refresh", k), nontrivial=True)
                if not rd["changed_by_update"] or not rd["back_to_image"]:
                    ctx.fail("partial:async:refresh_after_update", "refresh, a partial update, then a refresh that returns the same image as the first: update applied=%s, client back on the image=%s (differs at %r)"
                             % (rd["changed_by_update"], rd["back_to_image"], rd["differs_at"]), rd)
                continue
            ctx.count("partial_updates_during_an_outstanding_refresh", len(rd["pushes"]))
            ctx.case(("during_refresh", k, str(rd["pushes"])), nontrivial=True)
            late = [(v, got) for (v, got, done) in rd["pushes"] if not done and got != v]
            if late:
                ctx.fail("partial:async:waits_for_exchange", "a partial update that arrived while a status-block request was outstanding was not applied when it arrived: the spa reported %r, "
                         "0.45 s later the client still reads %r (request answered %.1f s later)" % (late[0][0], late[0][1], rd["slow"]), {"pushes": rd["pushes"], "reply_delay_s": rd["slow"]})
                break
            if rd["acks"] != len(rd["pushes"]):
                ctx.fail("partial:async:ack_during_exchange", "%d partial updates arrived while a status-block request was outstanding, %d were acknowledged" % (len(rd["pushes"]), rd["acks"]),
                         {"pushes": rd["pushes"], "acks": rd["acks"], "reply_delay_s": rd["slow"]})
                break
    res = ctx.coq_cases("hist", HEADER, exprs, shard=20)
    bad = [m for m, r in zip(meta, res) if r is not True]
    if bad:
        k = [j for j, r in enumerate(res) if r is not True][0]
        ctx.extra["first_disagreeing_case"] = exprs[k][:4000]
    ctx.oblige("correspondence:partial_model", not bad, "first disagreements: %r" % (bad[:3],))
    ctx.assume += ["the consume() polling loop itself is exercised in C07; here the handler objects are driven exactly as consume()/dispatch do",
                   "a STATQ or truncated STATP sent by the spa is outside the property's quantifier (modelled as error branches only)"]
