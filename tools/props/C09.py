"""C09 - self-healing: the manager returns to CONNECTED once the spa is reachable again."""
import asyncio

import vf
from harness import vloop, session, fullstack

HEADER = """From Coq Require Import List Bool String.
Require Import GV.Gen.LifecycleRules GV.Model.Lifecycle GV.Model.LifecycleChk GV.Model.HealChk.
Import ListNotations. Open Scope string_scope.
"""
SNAPS = ["inYT-all off-2020-10-23 18_00_45.snapshot", "inXM-Idle-2020-12-09 11_14_06.snapshot", "inYJ-All off-2020-12-18 11_24_09.snapshot"]
HEAL_BOUND = 420 + 20        # the model's bound for the idle configuration + sampling slack
SKIP_EVENTS = {"LOCATING_DISCOVERED_SPA"}      # raised by the locator's hello consumer; no rule, no label (C15 covers discovery)


def cdel(d):
    return "(%s, %s, %s, %s)" % (d[0], d[1], vf.cbool(d[2]), vf.cstr(d[3]))


def scenario(seed, snap, duration, nresets, suspending=False, fixed_plan=None, rferr_burst=None):
    import random
    rng = random.Random(seed)
    fullstack.reset_config()

    async def main(loop):
        import geckolib.config as C
        plan = fullstack.fault_plan(rng, loop.time(), duration) if fixed_plan is None else [(loop.time() + a, loop.time() + b, m, p) for (a, b, m, p) in fixed_plan]
        srng = random.Random(seed + 99)
        suspend = (lambda ev: srng.choice([None, 0, 0, 0.01, 0.3])) if suspending else None
        st = fullstack.Stack(loop, snap, plan, rng, latency=rng.choice([0.01, 0.03, 0.07]), suspend=suspend)
        resets = sorted((rng.uniform(0, duration), rng.choice(["reset", "reset", "setinfo"])) for _ in range(rng.choice([0, 1, nresets])))
        dels = []
        real_he = st.man.handle_event

        async def handle_event(event, **kw):
            ss = st.man.status_sensor
            dels.append((event.name, st.man.spa_state.name, st.man.facade is not None, ss.state if ss is not None else ""))
            await real_he(event, **kw)
        st.man.handle_event = handle_event
        await st.man.__aenter__()
        t0 = loop.time()
        pump_dead_at = []
        detect = []       # (blackout start, left CONNECTED at / None, bound)

        async def resetter():
            for (t, k) in resets:
                await asyncio.sleep(max(0, t0 + t - loop.time()))
                if k == "reset":
                    await st.man.async_reset()
                else:
                    await st.man.async_set_spa_info(None, session.SPA_ID.decode(), "Spa")

        async def watcher():
            cur = None
            while True:
                await asyncio.sleep(0.25)
                if not st.pump_alive() and not pump_dead_at:
                    pump_dead_at.append(loop.time() - t0)
                m, p = st.mode_now()
                if m == "blackout" and cur is None and st.man.spa_state.name == "CONNECTED":
                    g = C.GeckoConfig
                    bound = (g.PING_DEVICE_NOT_RESPONDING_TIMEOUT_IN_SECONDS + g.PING_FREQUENCY_IN_SECONDS + 2 * g.PROTOCOL_RETRY_COUNT * (g.PROTOCOL_TIMEOUT_IN_SECONDS + g.PAUSE_BETWEEN_RETRIES_IN_SECONDS) + 10)
                    cur = [loop.time(), None, bound, [b for (a, b, mm, pp) in plan if a <= loop.time() < b][0]]
                if cur is not None:
                    if st.man.spa_state.name != "CONNECTED":
                        cur[1] = loop.time()
                        detect.append(tuple(cur))
                        cur = None
                    elif loop.time() >= cur[3] and st.mode_now()[0] != "blackout":
                        detect.append(tuple(cur))        # the blackout ended before it had to be reported
                        cur = None
        async def spa_life():
            # the spa's own values move all the time (water temperature): each change is reported once, by a partial update that the
            # network of that moment may lose - only the refresh loop repairs it
            v = 0
            while True:
                await asyncio.sleep(rng.choice([3.0, 9.0, 21.0]))
                v += 1
                st.peer.spontaneous("DisplayedTempG", 60.0 + (v % 40))
                if rng.random() < 0.2:
                    loop.jump(rng.choice([0.2, 0.7, 2.5]))          # event-loop stall: the clock moves while nothing runs
        async def burst():
            # the home module reports a radio error over and over within a few seconds (more than the client tolerates on one connection)
            await asyncio.sleep(rferr_burst[0])
            for _ in range(rferr_burst[1]):
                st.inject_rferr()
                await asyncio.sleep(0.05)
        if rferr_burst:
            loop.create_task(burst())
        lt = loop.create_task(spa_life())
        rt, wt = loop.create_task(resetter()), loop.create_task(watcher())
        await asyncio.sleep(duration)
        await rt
        lt.cancel()
        th = loop.time()
        healed = None
        while loop.time() - th < HEAL_BOUND + 200:
            if st.healthy():
                healed = loop.time() - th
                break
            await asyncio.sleep(0.5)
        wt.cancel()
        res = dict(healed=healed, state=st.man.spa_state.name, pump=st.pump_alive(), pump_dead_at=pump_dead_at, detect=detect,
                   resets=[(round(t, 1), k) for t, k in resets], plan=[(round(a - 1000, 1), round(b - 1000, 1), m, p) for a, b, m, p in plan],
                   states=[(round(t - 1000, 1), s) for t, s in st.states], dels=list(dels), mirror=st.healthy())
        try:
            await st.man.__aexit__(None, None, None)
        except BaseException as e:  # noqa
            res["exit_exc"] = repr(e)
        return res
    return vloop.run(main)


def run(ctx):
    ctx.rule = ("the REAL full stack - GeckoAsyncSpaMan with its real sequence pump, GeckoAsyncLocator, GeckoAsyncSpa, GeckoAsyncFacade - against the real in-process simulator "
                "under virtual time on a scripted network: random windows of blackout / random loss / RF-error answers / health of 0.4 s .. 140 s (plus fixed scripts: keep-alive pings lost from the start of a connection, then a blackout), user resets and set-spa-info "
                "calls at random virtual times (also during discovery and the handshake); after the script the network is healthy and the run must reach CONNECTED with a facade "
                "whose status block equals the simulator's within the model's bound; the pump task is sampled every 0.25 s; a blackout that starts in CONNECTED must be reported "
                "within the configured bound; the stream of events delivered to the client (with state, facade?, status text at delivery) must be a path of the lifecycle LTS; "
                "non-trivial = run that visits an error state and has a reset or fault during LOCATING / CONNECTING")
    ctx.prove(extra_targets=["Model/HealChk.vo"], timeout=1800)
    n = 60 if ctx.thorough else 20
    exprs, meta = [], []
    # fixed scripts next to the random ones: the keep-alive pings of a fresh connection are lost from the start (everything else passes, the
    # manager reaches CONNECTED without a single answered ping), then the spa disappears altogether
    fixed = [[(0.0, w, "noping", 0), (w, w + 330.0, "blackout", 0)] for w in ((20.0, 45.0, 9.0) if ctx.thorough else (20.0,))]
    # ... and a long RF-error period that starts before the handshake (every request of the handshake is answered with RFERR: dozens of
    # error reports on one connection), then health
    fixed += [[(0.0, w, "rferr", 0)] for w in ((520.0, 900.0) if ctx.thorough else (520.0,))]
    # ... a radio outage in which even the pings are answered with RFERR, long enough for more than 50 error reports on ONE connection
    fixed += [[(40.0, 40.0 + w, "rferr_all", 0)] for w in ((1700.0, 2600.0) if ctx.thorough else (1700.0,))]
    # ... and a healthy network on which the home module reports 60 radio errors within three seconds (marked by an empty script)
    fixed += [[(0.0, 0.0, "healthy", 0)]]
    for k in range(n + len(fixed)):
        snap = SNAPS[k % len(SNAPS)]
        seed = ctx.seed * 1000 + k
        suspending = (k % 2 == 1) and k < n      # every other run: the client's handler really suspends (0 .. 0.3 s) - the LTS acceptance is skipped for those
        if k < n:
            r = scenario(seed, snap, 300 if ctx.thorough and k % 3 == 0 else 160, nresets=rng_choice(k // 2), suspending=suspending)
        else:
            burst_run = fixed[k - n][-1][1] == 0.0
            r = scenario(seed, snap, 60.0 if burst_run else fixed[k - n][-1][1] + 5.0, nresets=0, fixed_plan=fixed[k - n], rferr_burst=(30.0, 60) if burst_run else None)
            ctx.count("fixed_script_runs")
        ctx.count("runs_with_suspending_client_handler" if suspending else "runs_with_atomic_client_handler")
        visited = {s for (t, s) in r["states"]}
        m = {"seed": seed, "snapshot": snap, "healed_after_s": r["healed"], "final": r["state"], "visited": sorted(visited), "resets": r["resets"], "plan": r["plan"][:10],
             "deliveries": len(r["dels"]), "blackouts_watched": [(round(a - 1000, 1), None if b is None else round(b - a, 1), c) for (a, b, c, d) in r["detect"]]}
        meta.append(m)
        during = any(any(a <= 1000 + t < b for (a, b) in phase_windows(r["states"])) for (t, k2) in r["resets"])
        ctx.case((seed, snap), nontrivial=bool(visited & {"ERROR_PING_MISSED", "ERROR_RF_FAULT", "ERROR_NEEDS_ATTENTION", "ERROR_SPA_NOT_FOUND"}) and (during or len(r["plan"]) > 2))
        for s in visited:
            ctx.count("visited:" + s)
        ctx.count("resets", len(r["resets"]))
        ctx.count("fault_windows", len(r["plan"]))
        if r["healed"] is not None:
            ctx.dist["max_heal_s"] = max(ctx.dist.get("max_heal_s", 0), round(r["healed"], 1))
        replay = {"seed": seed, "snapshot": snap, "plan": r["plan"], "resets": r["resets"], "states": r["states"][-12:]}
        if not r["pump"] or r["pump_dead_at"]:
            ctx.fail("heal:pump_dead", "the sequence pump task ended at virtual second %s; final state %s" % (r["pump_dead_at"][:1], r["state"]), replay)
        elif r["healed"] is None or r["healed"] > HEAL_BOUND:
            ctx.fail("heal:stuck:" + r["state"], "%s virtual seconds after the network became healthy the manager is %s instead of CONNECTED with a facade mirroring the spa "
                     "(healed after: %s)" % (HEAL_BOUND, r["state"], r["healed"]), replay)
        for (a, b, bound, end) in r["detect"]:
            if (b is None and end - a > bound) or (b is not None and b - a > bound):
                ctx.fail("heal:unreachable_not_reported", "the spa became unreachable at %.1f in CONNECTED; still CONNECTED %.0f s later (bound %.0f s)" % (a - 1000, (b or end) - a, bound), replay)
        if suspending:
            continue
        dels = [d for d in r["dels"] if d[0] not in SKIP_EVENTS]
        cut = next((i for i, d in enumerate(dels) if d[0] == "SPA_MAN_EXIT"), len(dels))
        dels = dels[:cut]
        ne = next((i + 1 for i, d in enumerate(dels) if d[0] == "SPA_MAN_ENTER"), 0)
        exprs.append("chk_explained [%s] [%s]" % ("; ".join(cdel(d) for d in dels[:ne]), "; ".join(cdel(d) for d in dels[ne:])))
        m["_dels"] = dels
        m["_ne"] = ne
    # the schedule of (repaired) finding K10 on the real manager: a user reset suspended in its RUNNING_SPA_DISCONNECTED handler while
    # the pump's own reset completes and the pump discovers again - afterwards the pump must be on its way again, not parked in IDLE
    from harness import lifecycle_i
    from props.C08 import W_K10
    enter, start, out, alive = lifecycle_i.run_schedule(True, W_K10 + [("Pump",)] * 2)
    snap, occ = out[-1][2], out[-1][4]
    ctx.count("k10_schedule_replayed")
    ctx.case(("k10_schedule",), nontrivial=True)
    if not alive:
        ctx.fail("heal:pump_dead", "the sequence pump task ended during the schedule of finding K10", {"schedule": [x[0] for x in out]})
    elif snap[0] == "IDLE" and snap[3] and not any(occ):
        ctx.fail("heal:stuck:IDLE", "after a user reset that was suspended while the pump's own reset completed and the pump discovered again, the manager sits in IDLE with "
                 "descriptors present and the pump polls without doing anything: it never reconnects", {"schedule": [x[0] for x in out], "final": snap})
    res = ctx.coq_cases("heal", HEADER, exprs, shard=2, timeout=1500)
    meta_acc = [m for m in meta if "_dels" in m]
    bad = [i for i, x in enumerate(res) if x is not True]
    detail = ""
    if bad:
        i = bad[0]
        dels, ne = meta_acc[i]["_dels"], meta_acc[i]["_ne"]
        rc, out = vf.coqc_text("C09_dbg", HEADER + "Eval vm_compute in (first_unexplained [%s]).\n" % "; ".join(cdel(d) for d in dels[ne:]), timeout=300)
        import re
        mm = re.search(r"=\s*(\d+)", out)
        lo = int(mm.group(1)) if mm else -1
        detail = "run %d (seed %s): deliveries explained up to #%d; next: %r ; before: %r" % (i, meta_acc[i]["seed"], lo, dels[ne + lo:ne + lo + 3], dels[max(0, ne + lo - 4):ne + lo])
        ctx.extra["unexplained"] = detail
    for m in meta:
        m.pop("_dels", None)
        m.pop("_ne", None)
    ctx.oblige("correspondence:fullstack_event_stream_is_a_path_of_the_lifecycle_model", not bad, detail)
    for s in meta[:4]:
        ctx.sample(s)
    ctx.assume += ["the healthy schedule's per-step time costs are the configured timeouts (C06 bounds one exchange, C15 discovery); the real heal time is measured against the model's bound",
                   "fault scripts are sampled; the theorems cover every finite fault history on the LTS, the trace acceptance ties the LTS to what the real stack does under these scripts",
                   "RF-error periods are modelled as the home module answering everything but pings / hellos with RFERR"]


def rng_choice(k):
    return [0, 2, 4, 8][k % 4]


def phase_windows(states):
    out = []
    for i, (t, s) in enumerate(states):
        if s in ("LOCATING_SPAS", "CONNECTING", "SPA_READY"):
            end = states[i + 1][0] if i + 1 < len(states) else t + 1e9
            out.append((1000 + t, 1000 + end))
    return out
