"""C10 - reset or exit at any point leaks no endpoint / task and has no late effects."""
import asyncio

import vf
from harness import vloop, session, fullstack

HEADER = """From Coq Require Import List Bool Arith.
Require Import GV.Model.Ledger GV.Model.LedgerChk.
Import ListNotations.
"""
SNAP = "inYT-all off-2020-10-23 18_00_45.snapshot"
SNAPS = [SNAP, "inXM-Idle-2020-12-09 11_14_06.snapshot"]


def groups(loop):
    live = [t for t in asyncio.all_tasks(loop) if not t.done()]
    names = [t.get_name() for t in live]
    return names


def duplicate_tasks(loop):
    """two live tasks with the same connection-scoped name: one of them belongs to an abandoned connection"""
    names = [n for n in groups(loop) if n.split(":")[0] in ("SPA", "FACADE", "LOC", "SPAMAN") and "Set value task" not in n]
    return sorted({n for n in names if names.count(n) > 1})


def observe(st, loop, tracker, exited=False):
    names = groups(loop)
    man = st.man
    n_loc = len({1 for n in names if n.startswith("LOC:")})
    n_spa = len({1 for n in names if n.startswith("SPA:")})
    n_fac = len({1 for n in names if n.startswith("FACADE:")})
    eps = sum(1 for tr in loop.endpoints if not tr.closed)
    return (tracker["discovering"] > 0, man._spa is not None, man._facade is not None, exited, (eps, n_loc, n_spa, n_fac))


def install_tracker(loop, tracker):
    """harness-side wrappers: discovery in progress, and every event tagged with the spa object that raised it"""
    from geckolib.async_locator import GeckoAsyncLocator as L
    from geckolib.async_spa import GeckoAsyncSpa as S
    real_disc, real_init = L.discover, S.__init__

    async def discover(self):
        tracker["discovering"] += 1
        try:
            return await real_disc(self)
        finally:
            tracker["discovering"] -= 1

    def init(self, client_id, descriptor, taskman, event_handler):
        spa = self

        async def tagged(event, **kw):
            tracker["spa_events"].append((loop.time(), id(spa), event.name))
            await event_handler(event, **kw)
        real_init(self, client_id, descriptor, taskman, tagged)
    L.discover, S.__init__ = discover, init

    def remove():
        L.discover, S.__init__ = real_disc, real_init
    return remove


stack_ref = [None]


def base_script(loop, rng, variant):
    """network plan of the base run: healthy start, an RF-error burst that drives the manager into an error state and through
    a self-initiated reconnect, then healthy (variant 1: a blackout right after discovery so that the handshake stalls)"""
    t0 = loop.time()
    if variant == 0:
        loop.call_later(10.0, lambda: stack_ref[0].inject_rferr())
        return []
    if variant == 1:
        return [(t0 + 4.3, t0 + 12.0, "blackout", 0)]
    loop.call_later(14.0, lambda: stack_ref[0].inject_rferr())
    return [(t0 + 0.0, t0 + 3.0, "blackout", 0)]


def crash_run(variant, at_iteration, action, total=None, suspend=False, lost=False, slow_exit=False):
    """One run of the base scenario; `action` ('reset' | 'exit' | None) is started at event-loop pass number `at_iteration`.
    lost: two passes earlier the connection's datagram endpoint is lost (the transport reports connection_lost(OSError))."""
    import random
    rng = random.Random(7)
    fullstack.reset_config()
    tracker = {"discovering": 0, "spa_events": []}

    async def main(loop):
        remove = install_tracker(loop, tracker)
        try:
            st = fullstack.Stack(loop, SNAP, base_script(loop, rng, variant), rng, latency=0.02, suspend=(lambda ev: 0) if suspend else ((lambda ev: 1.2 if ev == "SPA_MAN_EXIT" else None) if slow_exit else None))
            stack_ref[0] = st
            fired = {}
            obs = []
            out_lost = []

            trans = []

            def on_iteration(k):
                nm = st.man.spa_state.name
                if not trans or trans[-1][1] != nm:
                    trans.append((k, nm))
                if lost and k == at_iteration - 2 and action is not None and "lost" not in fired:
                    fired["lost"] = []
                    for tr in loop.endpoints:
                        if not tr.closed and not tr.kw.get("allow_broadcast"):
                            tr.closed, tr.closed_at = True, loop.time()
                            fired["lost"].append(tr)
                            tr.proto.connection_lost(OSError(101, "Network is unreachable"))
                if k == at_iteration and action is not None and "t" not in fired:
                    fired["t"] = loop.time()
                    fired["state"] = st.man.spa_state.name
                    fired["eps"] = [tr for tr in loop.endpoints if not tr.closed and not tr.kw.get("allow_broadcast")]
                    out_lost.append(len(fired.get("lost", [])))
                    fired["tasks"] = [t for t in asyncio.all_tasks(loop) if not t.done() and t.get_name().split(":")[0] in ("SPA", "FACADE")]
                    fired["old_spa"] = st.man._spa
                    fired["old_proto"] = st.man._spa._protocol if st.man._spa is not None else None
                    fired["old_facade"] = st.man._facade
                    coro = st.man.async_reset() if action == "reset" else st.man.__aexit__(None, None, None)
                    fired["task"] = loop.create_task(coro, name="HARNESS:" + action)
            loop.on_iteration = on_iteration
            await st.man.__aenter__()
            horizon = 24.0
            out = {"fired": False}
            t_end = loop.time() + horizon
            while loop.time() < t_end and "t" not in fired:
                await asyncio.sleep(0.05)
            if "t" in fired:
                out["fired"] = True
                out["lost"] = sum(out_lost)
                out["state_at"] = fired["state"]
                out["t"] = fired["t"] - 1000
                try:
                    await asyncio.wait_for(fired["task"], 5.0)
                    out["action_done"] = True
                except Exception as e:  # noqa
                    out["action_done"] = repr(e)
                t_done = loop.time()
                await asyncio.sleep(0.5)          # 'promptly'
                out["eps_left"] = sum(1 for tr in fired["eps"] if not tr.closed)
                out["tasks_left"] = [t.get_name() for t in fired["tasks"] if not t.done()]
                # late datagrams for the abandoned connection, then its timers get their chance
                late = 0
                if fired["old_proto"] is not None:
                    for d in (b"<PACKT><SRCCN>" + session.SPA_ID + b"</SRCCN><DESCN>" + st.man._client_id + b"</DESCN><DATAS>STATP\x01\x00\x05\x00\x01</DATAS></PACKT>",
                              b"<PACKT><SRCCN>" + session.SPA_ID + b"</SRCCN><DESCN>" + st.man._client_id + b"</DESCN><DATAS>APING\x00</DATAS></PACKT>",
                              b"<PACKT><SRCCN>" + session.SPA_ID + b"</SRCCN><DESCN>" + st.man._client_id + b"</DESCN><DATAS>SVERS\x00\x01\x02\x03\x00\x04\x05\x06</DATAS></PACKT>"):
                        try:
                            fired["old_proto"].datagram_received(d, vloop.SIMADDR)
                            late += 1
                        except Exception:  # noqa
                            pass
                await asyncio.sleep(3.0)
                old = id(fired["old_spa"]) if fired["old_spa"] is not None else None
                out["late_events"] = [(round(t - 1000, 2), e) for (t, i, e) in tracker["spa_events"] if i == old and t > t_done + 1e-9]
                out["late_injected"] = late
                out["old_observers"] = (len(getattr(fired["old_spa"], "_observers", [])) if fired["old_spa"] is not None else 0)
                if action == "exit":
                    obs.append(observe(st, loop, tracker, exited=True))
                    out["exit_open"] = sum(1 for tr in loop.endpoints if not tr.closed)
                    out["exit_tasks"] = [n for n in groups(loop) if not n.startswith("Task-") and not n.startswith("HARNESS")]
                else:
                    # the manager is on its own again: it must come back
                    healed = None
                    th = loop.time()
                    while loop.time() - th < 120:
                        if st.healthy():
                            healed = loop.time() - th
                            break
                        await asyncio.sleep(0.5)
                    out["healed"] = healed
                    obs.append(observe(st, loop, tracker))
                    # the manager is connected again: every connection-scoped task name is alive once - a second one belongs to the abandoned connection
                    d1 = set(duplicate_tasks(loop))
                    for _ in range(3):
                        if not d1:
                            break
                        await asyncio.sleep(1.1)       # a task that is only finishing is gone by then; one that polls an abandoned queue stays
                        d1 &= set(duplicate_tasks(loop))
                    out["dups_after_reconnect"] = sorted(d1)
            out["iterations"] = loop.iterations
            out["transitions"] = trans
            out["obs"] = obs
            out["states"] = [(round(t - 1000, 2), s) for (t, s) in st.states][-10:]
            if action != "exit":
                await st.man.__aexit__(None, None, None)
                await asyncio.sleep(0.3)
                out["final_open"] = sum(1 for tr in loop.endpoints if not tr.closed)
                out["final_tasks"] = [n for n in groups(loop) if not n.startswith("Task-") and not n.startswith("HARNESS")]
            return out
        finally:
            remove()
            loop.on_iteration = None
    return vloop.run(main)


def cycles_run(seed, ncycles, suspend=False):
    """consecutive reconnect cycles: resets at random moments; ledger sampled all along"""
    import random
    rng = random.Random(seed)
    fullstack.reset_config()
    tracker = {"discovering": 0, "spa_events": []}

    async def main(loop):
        remove = install_tracker(loop, tracker)
        try:
            srng = random.Random(seed + 5)
            st = fullstack.Stack(loop, SNAPS[seed % 2], fullstack.fault_plan(rng, loop.time(), 60.0 * ncycles / 6, kinds=("healthy", "healthy", "lossy", "blackout", "rferr")), rng,
                                 suspend=(lambda ev: srng.choice([None, 0, 0.02])) if suspend else None)
            await st.man.__aenter__()

            async def dup_watch():
                prev = set()
                while True:
                    await asyncio.sleep(0.5)
                    for _ in range(3):
                        await asyncio.sleep(0)
                    cur = set(duplicate_tasks(loop))
                    # 'promptly': a cancelled task may still be finishing in the pass in which its successor starts; one that is
                    # still there half a second later belongs to an abandoned connection
                    tracker.setdefault("dups", []).extend(sorted(cur & prev))
                    prev = cur
            dw = loop.create_task(dup_watch(), name="HARNESS:dupwatch")
            obs, mx_eps, mx_tasks = [], 0, 0
            for c in range(ncycles):
                await asyncio.sleep(rng.choice([0.3, 2.0, 4.2, 4.4, 5.0, 9.0, 14.0, 70.0]))
                if suspend and rng.random() < 0.5:
                    pass                   # no outside reset this cycle: leave room for the resets the connection's own tasks start (ping answered in an error state)
                elif rng.random() < 0.8:
                    await st.man.async_reset()
                else:
                    await st.man.async_set_spa_info(None, session.SPA_ID.decode(), "Spa")
                await asyncio.sleep(0.3)
                for _ in range(3):
                    await asyncio.sleep(0)        # a cancelled task needs a pass of the loop to finish, a new connection one to start its tasks
                o = observe(st, loop, tracker)
                obs.append(o)
                # also between the outside resets: the connection's own tasks start resets too (a ping answered in an error state)
                await asyncio.sleep(rng.choice([0.7, 3.0, 11.0, 25.0]))
                mx_eps = max(mx_eps, o[4][0])
                mx_tasks = max(mx_tasks, len([n for n in groups(loop) if not n.startswith("Task-")]))
            dw.cancel()
            await st.man.__aexit__(None, None, None)
            await asyncio.sleep(0.3)
            obs.append(observe(st, loop, tracker, exited=True))
            return obs, mx_eps, mx_tasks, len(loop.endpoints), sorted(set(tracker.get("dups", [])))
        finally:
            remove()
    return vloop.run(main)


def cobs(o):
    return "(%s, %s, %s, %s, (%d, %d, %d, %d))" % (vf.cbool(o[0]), vf.cbool(o[1]), vf.cbool(o[2]), vf.cbool(o[3]), o[4][0], o[4][1], o[4][2], o[4][3])


def run(ctx):
    ctx.rule = ("crash-point sweep on the REAL full stack (manager, locator, spa, facade, simulator; virtual time): three base runs (healthy connect + RF-error burst + self-initiated "
                "reconnect; blackout right after discovery so that the handshake stalls; blackout during discovery) are repeated with a user reset, resp. a context exit, started "
                "at event-loop pass k for k over the passes of the base run (quick: every 9th pass and every pass of the handshake window; thorough: every pass; quick takes in addition every pass around the end of each handshake), also with a client whose handlers suspend (quick: a third of the passes each; thorough: every pass in every mode) and with the connection's socket lost (connection_lost(OSError)) two passes earlier: 0.5 s after the "
                "action every endpoint and SPA / FACADE task of the abandoned connection must be closed / done; three late datagrams are then fed to the abandoned protocol object "
                "and 3 s pass: no event of the abandoned spa object may reach the client; after exit nothing is open or alive; after a reset the manager must reconnect; "
                "the model's accounting predicate is evaluated on every observed ledger; plus runs of consecutive reconnect cycles under faults; plus schedules of the interleaved lifecycle rig "
                "(client handler suspended at every delivery) in which no spa object may be dropped without disconnect(); "
                "non-trivial = crash point inside LOCATING / CONNECTING / an error state")
    ctx.prove(extra_targets=["Model/LedgerChk.vo"], timeout=600)
    obs_all, meta = [], []
    for variant in (0, 1, 2):
        base = crash_run(variant, -1, None)
        total = base["iterations"]
        ctx.count("base_run_passes", total)
        ks = set(range(1, total, 1 if ctx.thorough else 9))
        # the handshake happens in a short burst of passes after discovery (virtual second 4..5): take them all
        if not ctx.thorough:
            ks |= set(range(max(1, int(total * 0.15)), int(total * 0.26), 2))
        # the passes around the end of a handshake (SPA_READY -> facade -> CONNECTED happen within a few passes): all of them, in both tiers and in
        # every mode; with a suspending client the passes are numbered differently, so that mode has its own base run
        def hot_passes(b):
            return {x for (k, nm) in b["transitions"] if nm in ("SPA_READY", "CONNECTED") for x in range(max(1, k - 10), k + 4)}
        hot = {False: hot_passes(base), True: hot_passes(crash_run(variant, -1, None, suspend=True))}
        ctx.count("passes_around_the_end_of_a_handshake", len(hot[False]) + len(hot[True]))
        for action in ("reset", "exit", "reset+suspending-client", "exit+suspending-client", "reset+socket-lost", "exit+socket-lost", "exit+slow-exit-handler"):
            susp = action.endswith("client")
            lost = action.endswith("lost")
            slow = action.endswith("slow-exit-handler")      # the client's handler for SPA_MAN_EXIT stays suspended for 1.2 s: what runs meanwhile?
            action = action.split("+")[0]
            for k in sorted((ks if not (susp or lost or slow) else {x for x in ks if ctx.thorough or x % 3 == (0 if susp else 1 if lost else 2)}) | hot[susp]):
                r = crash_run(variant, k, action, suspend=susp, lost=lost, slow_exit=slow)
                if not r["fired"]:
                    continue
                ctx.case((variant, action, k, susp, lost, slow), nontrivial=r["state_at"] not in ("IDLE", "CONNECTED"))
                ctx.count("crash:%s:%s%s%s" % (action, r["state_at"], ":suspending_client" if susp else "", ":socket_lost" if lost and r["lost"] else ":slow_exit_handler" if slow else ""))
                replay = {"variant": variant, "action": action, "event_loop_pass": k, "virtual_time": round(r["t"], 3), "state_at_crash": r["state_at"], "socket_lost_two_passes_earlier": bool(lost and r["lost"]), "exit_handler_suspended_1_2_s": slow,
                          "client_handlers_suspend_for_one_pass": susp}
                if r["action_done"] is not True:
                    ctx.fail("ledger:%s_raised:%s" % (action, r["state_at"]), "%s at pass %d (%s) did not complete: %s" % (action, k, r["state_at"], r["action_done"]), replay)
                if r["eps_left"]:
                    ctx.fail("ledger:endpoint_left_open:%s:%s" % (action, r["state_at"]), "%d endpoint(s) of the abandoned connection still open 0.5 s after %s in %s" % (r["eps_left"], action, r["state_at"]), replay)
                if r["tasks_left"]:
                    ctx.fail("ledger:task_left:%s:%s" % (action, r["state_at"]), "tasks of the abandoned connection still alive 0.5 s after %s in %s: %s" % (action, r["state_at"], r["tasks_left"][:4]), replay)
                if r["late_events"]:
                    ctx.fail("ledger:late_event:%s:%s" % (r["state_at"], r["late_events"][0][1]), "the abandoned spa object raised %s after the %s had completed (state at crash %s)" % (r["late_events"][:3], action, r["state_at"]), replay)
                if r["old_observers"]:
                    ctx.fail("ledger:observers_left:%s" % r["state_at"], "the abandoned spa object still has %d observers" % r["old_observers"], replay)
                if action == "exit" and (r["exit_open"] or r["exit_tasks"]):
                    ctx.fail("ledger:exit_leaves:%s" % r["state_at"], "after leaving the context in %s: %d endpoints open, tasks alive %s" % (r["state_at"], r["exit_open"], r["exit_tasks"][:4]), replay)
                if action == "reset":
                    if r.get("dups_after_reconnect"):
                        ctx.fail("ledger:task_of_abandoned_connection:%s" % r["dups_after_reconnect"][0], "after the reset in %s and the reconnect two live tasks are named %s: one belongs to the abandoned connection" % (
                            r["state_at"], r["dups_after_reconnect"][:3]), replay)
                    if r["healed"] is None:
                        ctx.fail("ledger:no_reconnect_after_reset:%s" % r["state_at"], "120 virtual seconds after a reset in %s the manager is not CONNECTED again" % r["state_at"], replay)
                    if r["final_open"] or r["final_tasks"]:
                        ctx.fail("ledger:exit_leaves:after_reset", "after the final context exit: %d endpoints open, tasks %s" % (r["final_open"], r["final_tasks"][:4]), replay)
                obs_all += r["obs"]
                if len(meta) < 6 and r["state_at"] in ("CONNECTING", "LOCATING_SPAS", "ERROR_RF_FAULT"):
                    meta.append(dict(replay, ledger_after=r["obs"][-1:] and str(r["obs"][-1]), healed_after_s=r.get("healed")))
    for seed in range(8 if ctx.thorough else 4):
        obs, mx_eps, mx_tasks, total_eps, dups = cycles_run(ctx.seed * 10 + seed, 60 if ctx.thorough else 25, suspend=(seed % 2 == 1))
        obs_all += obs
        ctx.case(("cycles", seed), nontrivial=True)
        ctx.count("reconnect_cycles", len(obs) - 1)
        ctx.count("endpoints_opened_in_cycles", total_eps)
        ctx.dist["max_open_endpoints"] = max(ctx.dist.get("max_open_endpoints", 0), mx_eps)
        ctx.dist["max_live_tasks"] = max(ctx.dist.get("max_live_tasks", 0), mx_tasks)
        if dups:
            ctx.fail("ledger:task_of_abandoned_connection:%s" % dups[0], "two live tasks named %s at once during the reconnect cycles: one belongs to a connection that has been abandoned" % dups[:3],
                     {"seed": seed, "duplicate_task_names": dups})
        if mx_eps > 2:
            ctx.fail("ledger:endpoints_grow", "%d endpoints open at once during %d reconnect cycles" % (mx_eps, len(obs) - 1), {"seed": seed})
        if mx_tasks > 16:
            ctx.fail("ledger:tasks_grow", "%d tasks alive at once during %d reconnect cycles" % (mx_tasks, len(obs) - 1), {"seed": seed})
    # ---- the task registry itself: whatever was started under a key - also several tasks with one name, also across tidy passes - is cancelled by
    #      cancel_key_tasks(key), nothing else is, and gather() leaves nothing alive
    def registry_run(seed):
        import random
        from geckolib.async_tasks import AsyncTasks
        rr = random.Random(seed)

        async def main(loop):
            tm = AsyncTasks()
            await tm.__aenter__()
            started = []

            async def body(kind):
                if kind == 0:
                    await asyncio.sleep(3600)
                elif kind == 1:
                    while True:
                        await asyncio.sleep(0.1)
                else:
                    await asyncio.sleep(rr.choice([0.05, 0.5]))
            names = ["Set value task", "Ping loop", "Facade update", "Broadcast loop"]
            log = []
            for step in range(14):
                op = rr.choice(["add", "add", "add", "cancel", "sleep", "tidy"])
                if op == "add":
                    key, nm, kind = rr.choice(["SPA", "FACADE", "LOC"]), rr.choice(names), rr.randrange(3)
                    before = set(asyncio.all_tasks(loop))
                    tm.add_task(body(kind), nm, key)
                    new = [t for t in asyncio.all_tasks(loop) if t not in before]
                    started += [(key, t) for t in new]
                    log.append(("add", key, nm, kind))
                elif op == "cancel":
                    key = rr.choice(["SPA", "FACADE", "LOC"])
                    tm.cancel_key_tasks(key)
                    await asyncio.sleep(0.01)
                    log.append(("cancel", key))
                    alive = [t.get_name() for (k, t) in started if k == key and not t.done()]
                    if alive:
                        return ("cancel_key_tasks(%r) left alive: %r" % (key, alive), log)
                elif op == "tidy":
                    await asyncio.sleep(GeckoConfigTidy() + 0.5)
                    log.append(("tidy pass",))
                else:
                    await asyncio.sleep(0.2)
                    log.append(("sleep",))
            await tm.gather()
            await asyncio.sleep(0.01)
            alive = [t.get_name() for (k, t) in started if not t.done()]
            if alive:
                return ("gather() left alive: %r" % (alive,), log)
            return (None, log)

        def GeckoConfigTidy():
            from geckolib.config import GeckoConfig
            return GeckoConfig.TASK_TIDY_FREQUENCY_IN_SECONDS
        fullstack.reset_config()
        return vloop.run(main)
    for seed in range(60 if ctx.thorough else 20):
        bad, log = registry_run(ctx.seed * 1000 + seed)
        ctx.count("task_registry_histories")
        ctx.case(("registry", str(log)), nontrivial=sum(1 for x in log if x[0] == "add") >= 2)
        if bad:
            ctx.fail("ledger:registry_loses_a_task", "AsyncTasks: %s" % bad, {"history": [list(x) for x in log], "seed": ctx.seed * 1000 + seed})
            break
    # resets that land at await points INSIDE another handler (the interleaved lifecycle rig of C08: the client's handler suspends at
    # every delivery, tasks are resumed one burst at a time): no spa object may be left behind without disconnect() having completed on it
    from harness import lifecycle_i
    R = lambda sl: ("Resume", sl)   # noqa: E731
    k11_stale = [R("P"), ("LocOutcome", False, False), R("P"), R("P"), ("LocOutcome", True, False), R("P"), R("P"), R("P"), ("ConnOutcome", "raise"), R("P"),
                 ("UserReset",), R("P"), R("P"), ("LocOutcome", False, False), R("P"), R("P"), ("LocOutcome", True, False), R("P"), R("P"), R("P"), R("U")]
    k11_over = [R("P"), ("LocOutcome", False, False), R("P"), R("P"), ("LocOutcome", True, False), R("P"), R("P"), ("UserReset",), R("P"), ("ConnOutcome", "next"), R("P"),
                ("ConnOutcome", "next"), R("P"), R("P"), ("ConnOutcome", "cannot0"), R("P"), R("P"), R("P"), ("LocOutcome", False, False), R("P"), R("P"),
                ("LocOutcome", True, False), R("P"), R("P"), R("P")]
    N = ("ConnOutcome", "next")
    # K13: a user reset is suspended in its RUNNING_SPA_DISCONNECTED handler while the last handshake step completes and the pump creates the facade
    k13 = [R("P"), ("LocOutcome", False, False), R("P"), R("P"), ("LocOutcome", True, False), R("P"), R("P"), R("P"),
           N, R("P"), N, R("P"), N, R("P"), N, R("P"), N, R("P"), ("UserReset",), N, R("P"), R("P"), R("U")]
    iexprs = []
    runs_i = [("k11_stale_reset", k11_stale), ("k11_overwrite", k11_over), ("k13_facade_created_during_reset", k13)] + [("adaptive", None)] * (60 if ctx.thorough else 16)
    for kind, fixed in runs_i:
        if fixed is None:
            enter, start, out, alive = lifecycle_i.run_adaptive(True, ctx.rng, 70, warm=ctx.rng.random() < 0.4)
        else:
            enter, start, out, alive = lifecycle_i.run_schedule(True, fixed)
        ctx.count("interleaved_schedules")
        ctx.case(("interleaved", kind, str([x[0] for x in out if x[1]])), nontrivial=True)
        from props.C08 import ilabel
        iexprs.append("Nat.eqb (chk_ileaks true [%s]) 0" % "; ".join("(%s, %s, %s, %s)" % (ilabel(x[0]), vf.cbool(x[1]), vf.cbool(x[6] > 0), vf.cbool(x[7] > 0)) for x in out))
        firstf = next((j for j, x in enumerate(out) if x[1] and x[7] > 0), None)
        if firstf is not None:
            ctx.count("interleaved_schedules_that_drop_a_live_facade")
            ctx.fail("ledger:facade_dropped_undisconnected:interleaved", "a facade object the manager no longer references was never disconnected (its update task keeps running for an abandoned "
                     "connection): after %r, step %d of a schedule in which a reset is suspended inside a handler while the connection completes" % (out[firstf][0], firstf + 1),
                     {"kind": kind, "schedule": [x[0] for x in out[:firstf + 1] if x[1]]})
        first = next((j for j, x in enumerate(out) if x[1] and x[6] > 0), None)
        if first is not None:
            ctx.count("interleaved_schedules_that_drop_a_spa")
            ctx.fail("ledger:spa_dropped_undisconnected:interleaved", "a spa object the manager no longer references was never disconnected (its endpoint and tasks are nobody's): after %r, "
                     "step %d of a schedule in which a reset lands inside another handler" % (out[first][0], first + 1), {"kind": kind, "schedule": [x[0] for x in out[:first + 1] if x[1]]})
    IHEADER = """From Coq Require Import List Bool String.
Require Import GV.Gen.LifecycleRules GV.Model.Lifecycle GV.Model.LifecycleChk GV.Model.LifecycleI GV.Model.LifecycleIChk.
Import ListNotations. Open Scope string_scope.
"""
    ires = ctx.coq_cases("ileak", IHEADER, iexprs, shard=6)
    ibad = [i for i, x in enumerate(ires) if x is not True]
    ctx.oblige("correspondence:dropped_spa_objects_as_the_interleaved_model_predicts", not ibad, "schedules that disagree: %r" % ([runs_i[i][0] for i in ibad[:4]],))
    for m in meta:
        ctx.sample(m)
    res = ctx.coq_cases("ledger", HEADER, ["chk_ledger [%s]" % "; ".join(cobs(o) for o in obs_all[i:i + 300]) for i in range(0, len(obs_all), 300)], shard=4)
    bad = [i for i, x in enumerate(res) if x is not True]
    detail = ""
    if bad:
        chunk = obs_all[bad[0] * 300:bad[0] * 300 + 300]
        un = [o for o in chunk if not py_accounted(o)]
        detail = "first unaccounted ledgers (discovering, spa, facade, exited, (endpoints, LOC, SPA, FACADE)): %r" % (un[:3],)
        ctx.fail("ledger:unaccounted", "an observed ledger has an endpoint or task group that neither the discovery in progress nor the current spa / facade explains: %r" % (un[:2],), {"ledgers": [str(o) for o in un[:5]]})
    ctx.count("ledgers_observed", len(obs_all))
    ctx.oblige("correspondence:observed_ledgers_satisfy_the_models_accounting", not bad, detail)
    ctx.assume += ["crash points are event-loop passes of three base runs (every await resumption happens in some pass); thorough takes every pass",
                   "FakeTransport.close() is immediate; a real selector transport closes on the next pass",
                   "'promptly' = within 0.5 virtual seconds"]


def py_accounted(o):
    inloc, spa, fac, ex, (e, tl, ts, tf) = o
    if ex:
        return (e, tl, ts, tf) == (0, 0, 0, 0)
    return e == int(inloc) + int(spa) and tl == int(inloc) and ts == int(spa) and tf == int(fac)
