"""C19 - snapshot capture/replay round-trip; shipped snapshots load."""
import logging
import os
import struct
import tempfile

import vf
import gen_misc
from harness import vloop

HEADER = """From Coq Require Import ZArith List Bool.
Require Import GV.Lib.Bytes GV.Model.Wire GV.Model.Snapshot GV.Model.SnapshotChk.
Import ListNotations. Open Scope Z_scope.
"""


class Cap(logging.Handler):
    def __init__(self):
        super().__init__(logging.DEBUG)
        self.lines = []
        self.setFormatter(logging.Formatter("%(asctime)s %(name)s %(levelname)s %(message)s"))

    def emit(self, record):
        self.lines.append(self.format(record))


class Obj:
    pass


def write_snapshot(name, blk, pack, version, en, co, cfg, log):
    """The real GeckoShell.do_snapshot / version_strings on a stub shell, through the real logging formatter."""
    from geckolib.utils import shell as SH
    sh = Obj()
    sh.facade = Obj()
    spa = sh.facade.spa = Obj()
    spa.revision = "39.0"
    spa.intouch_version_en = "{0} v{1}.{2}".format(*en)
    spa.intouch_version_co = "{0} v{1}.{2}".format(*co)
    spa.pack = pack
    spa.version = "{0} v{1}.{2}".format(*version)
    spa.config_number = 4
    spa.config_version = cfg
    spa.log_version = log
    spa.pack_type = 6
    spa.struct = Obj()
    spa.struct.status_block = bytes(blk)
    sh.version_strings = SH.GeckoShell.version_strings.fget(sh)
    cap = Cap()
    lg = logging.getLogger("geckolib.utils.shell")
    old = lg.level
    lg.addHandler(cap)
    lg.setLevel(logging.INFO)
    try:
        SH.GeckoShell.do_snapshot(sh, name)
    finally:
        lg.removeHandler(cap)
        lg.setLevel(old)
    return cap.lines


def parse_lines(lines):
    from geckolib.utils.snapshot import GeckoSnapshot
    with tempfile.NamedTemporaryFile("w", suffix=".log", dir=vf.BUILD if os.path.isdir(vf.BUILD) else None, delete=False) as f:
        f.write("\n".join(lines) + "\n")
        path = f.name
    try:
        return GeckoSnapshot.parse_log_file(path)
    finally:
        os.remove(path)


def line_parse(line):
    """The real GeckoSnapshot.parse on one line; returns what each extraction produced (None = not matched / raised)."""
    from geckolib.utils.snapshot import GeckoSnapshot
    s = GeckoSnapshot()
    try:
        s.parse(line)
    except Exception:
        return "raise"
    r = {}
    r["data"] = s._bytes if s._bytes != b"" else None
    r["en"] = tuple(int(x) for x in s._intouch_EN) if s._intouch_EN else None
    r["co"] = tuple(int(x) for x in s._intouch_CO) if s._intouch_CO else None
    r["cfg"] = int(s._config_version) if s._config_version is not None else None
    r["log"] = int(s._log_version) if s._log_version is not None else None
    r["pack"] = (s._pack_type.encode("latin1"), (int(s._pack_conf_id), int(s._pack_conf_rev), int(s._pack_conf_rel))) if s._pack_conf_id is not None and s._pack_type is not None else None
    r["name"] = s._name.encode("latin1") if s._name is not None else None
    return r


def o3(t):
    return "None" if t is None else "(Some (%d, %d, %d))" % t


def oz(x):
    return "None" if x is None else "(Some %d)" % x


def obz(b):
    return "None" if b is None else "(Some %s)" % vf.zb(b)


def msg_of(line):
    return line.split(" INFO ", 1)[1]


def run(ctx):
    ctx.rule = ("writer o parser composition on the real code: real GeckoShell.do_snapshot / version_strings (stub shell, real logging formatter) -> real "
                "GeckoSnapshot.parse_log_file for random 1024-byte blocks, version tuples, pack names, snapshot names; every produced line is also fed to the "
                "model's extraction functions and compared with what the real regex table extracted (plus adversarial lines); STATV traffic logs reassembled by "
                "the real parser vs the model; all shipped snapshot files regenerated through the real parser, loaded into the real simulator and transferred to a "
                "real client; non-trivial = distinct block / line")
    os.makedirs(vf.BUILD, exist_ok=True)
    ctx.prove(timeout=1800)
    rng = ctx.rng
    exprs, meta = [], []
    packs = ["inXM", "inYT", "inYJ", "MrSteam", "MAS-IBC-32K", "inYT-V2"]
    names = ["Default", "Pump 1, 2 and blower running", "all off", "x", "a (b) c", "temp=39.5", "café"]
    nrun = 40 if ctx.thorough else 10
    for k in range(nrun):
        blk = bytes(rng.choice([0, 255, 16, 10, rng.randrange(256)]) for _ in range(1024)) if k else bytes(range(256)) * 4
        # the firmware version travels as >HBBHBB: 16-bit build numbers, 8-bit major / minor
        en = (rng.choice([rng.randrange(0, 300), rng.randrange(1000, 65536), 999, 1000, 65535]), rng.choice([rng.randrange(0, 100), 255]), rng.choice([rng.randrange(0, 100), 255]))
        co = (rng.choice([rng.randrange(0, 300), rng.randrange(1000, 65536), 4096]), rng.randrange(0, 256), rng.randrange(0, 256))
        ver = (rng.choice([rng.randrange(0, 1000), rng.randrange(1000, 65536)]), rng.randrange(0, 256), rng.randrange(0, 256))
        cfg, log = rng.choice([rng.randrange(0, 100), rng.randrange(100, 256)]), rng.choice([rng.randrange(0, 100), rng.randrange(100, 256)])
        pack = rng.choice(packs)
        name = rng.choice(names)
        lines = write_snapshot(name, blk, pack, ver, en, co, cfg, log)
        snaps = parse_lines(lines)
        ctx.count("written_snapshots")
        ok = (len(snaps) == 1 and snaps[0].bytes == blk and snaps[0].packtype == pack and snaps[0].intouch_EN == en and snaps[0].intouch_CO == co
              and snaps[0].config_version == cfg and snaps[0].log_version == log and snaps[0].name == name)
        if not ok:
            s0 = snaps[0] if snaps else None
            ctx.fail("snapshot:roundtrip", "snapshot written by the shell does not parse back to the same block / versions",
                     {"name": name, "pack": pack, "en": en, "co": co, "cfg": cfg, "log": log, "block": list(blk),
                      "parsed": None if s0 is None else {"bytes_equal": s0.bytes == blk, "packtype": s0.packtype, "en": s0.intouch_EN, "co": s0.intouch_CO,
                                                         "cfg": s0._config_version, "log": s0._log_version, "name": s0.name}, "count": len(snaps)})
        # writer text vs model
        m = {msg_of(l).split(" ")[0] + " " + msg_of(l).split(" ")[1] if not msg_of(l).startswith("[") else "data": msg_of(l) for l in lines}
        def find(prefix):
            return next(msg_of(l) for l in lines if msg_of(l).startswith(prefix))
        exprs.append("chk_render %s %s (%d, %d, %d) (%d, %d, %d) %s %s %d %d %s %s %s (%d, %d, %d) %s" % (
            vf.zb(blk), vf.zb(find("[").encode()), *en, *co, vf.zb(find("intouch version EN").encode()), vf.zb(find("intouch version CO").encode()),
            cfg, log, vf.zb(find("Config version").encode()), vf.zb(find("Log version").encode()),
            vf.zb(pack.encode()), *ver, vf.zb(find("Spa pack").encode())))
        meta.append({"render": (pack, ver, en, co, cfg, log)})
        ctx.case(("render", blk, pack, ver, en, co, cfg, log))
        # every line through the extraction functions
        for l in lines:
            add_line_cases(ctx, exprs, meta, l)
    # adversarial / malformed lines
    adv = ["x INFO ['0x4', '0x0']", "x INFO [ '0xFF' ,'0x0a' ]", "x INFO []", "x INFO ['0x100']", "x INFO [zz] ['0x1']", "x INFO ['0x1', '0x2'", "x INFO ['0x1'] ['0x2']",
           "x INFO [12]", "x INFO ['12']", "x INFO intouch version EN 1 v2.3 intouch version EN 4 v5.6", "x INFO intouch version EN 12 v3", "x INFO intouch version CO  9 v1.1",
           "x INFO Spa pack in XM 12 v3.4", "x INFO Spa pack a 1 v2.3 b 4 v5.6", "x INFO Spa pack  7 v1.0", "x INFO Spa pack inXM 186 v3", "x INFO Config version", "x INFO Config version 007",
           "x INFO Log version 12abc", "x INFO Snapshot (a) (b)", "x INFO Snapshot (", "x INFO Snapshot ()", "x INFO Snapshot (n) ['0x7']"]
    # ---- several snapshots in one log file: each comes back with its own block, versions and name, in order
    for k in range(6 if ctx.thorough else 3):
        parts, lines = [], []
        for j in range(rng.choice([2, 3])):
            blk = bytes(rng.randrange(256) for _ in range(1024))
            en = (rng.randrange(0, 65536), rng.randrange(0, 256), rng.randrange(0, 256))
            co = (rng.randrange(0, 65536), rng.randrange(0, 256), rng.randrange(0, 256))
            ver = (rng.randrange(0, 65536), rng.randrange(0, 256), rng.randrange(0, 256))
            cfg, log = rng.randrange(0, 256), rng.randrange(0, 256)
            pack, name = rng.choice(packs), "%s #%d" % (rng.choice(names), j)
            parts.append((blk, pack, en, co, cfg, log, name))
            lines += write_snapshot(name, blk, pack, ver, en, co, cfg, log)
            # the parser ends a snapshot at the first line that is not an INFO line (what the shell's log has between two snapshots:
            # its own DEBUG traffic); two snapshots with nothing in between are outside the property and are not tested
            lines.append("2020-12-12 09:36:49,000 geckolib.driver.udp_socket DEBUG Received b'' from ('10.0.0.1', 10022)")
        snaps = parse_lines(lines)
        ctx.count("multi_snapshot_files")
        ctx.case(("multi", k, len(parts)))
        got = [(s_.bytes, s_.packtype, s_.intouch_EN, s_.intouch_CO, s_.config_version, s_.log_version, s_.name) for s_ in snaps]
        if got != parts:
            ctx.fail("snapshot:multi", "a log file with %d snapshots parses to %d snapshots / different contents" % (len(parts), len(snaps)),
                     {"written": [(p_[1], p_[2], p_[3], p_[4], p_[5], p_[6]) for p_ in parts], "parsed": [(g[1], g[2], g[3], g[4], g[5], g[6]) for g in got]})
    for l in adv:
        add_line_cases(ctx, exprs, meta, l)
        ctx.count("adversarial_lines")
    # ---- traffic log reassembly (any segmentation of a block)
    from geckolib.utils.snapshot import GeckoSnapshot
    for k in range(24 if ctx.thorough else 10):
        blk = bytes(rng.choice([39, 34, 92, 10, 0, rng.randrange(256)]) for _ in range(rng.choice([1024, 200, 39, 78])))
        if k % 2:
            # segments of all kinds of sizes (1 .. 200 bytes): small first and larger later, larger first, random
            sizes, left, style = [], len(blk), rng.choice(["random", "growing", "small_first", "big_first"])
            while left > 0:
                n_ = {"random": rng.randrange(1, 201), "growing": min(200, 5 + 17 * len(sizes)), "small_first": 8 if not sizes else rng.randrange(60, 200),
                      "big_first": 180 if not sizes else rng.randrange(1, 60)}[style]
                n_ = min(n_, left)
                sizes.append(n_)
                left -= n_
            cuts = [0]
            for n_ in sizes:
                cuts.append(cuts[-1] + n_)
        else:
            cuts = list(range(0, len(blk), 39)) + [len(blk)]
        segs = [blk[a:b] for a, b in zip(cuts, cuts[1:]) if b - a <= 255]
        dgs = [b"STATV" + struct.pack(">BBB", i, (i + 1) % len(segs), len(s)) + s for i, s in enumerate(segs)]
        snap = GeckoSnapshot()
        for d in dgs:
            full = b"<PACKT><SRCCN>A</SRCCN><DESCN>B</DESCN><DATAS>" + d + b"</DATAS></PACKT>"
            # exactly what GeckoUdpSocket / GeckoAsyncUdpProtocol log: "Received %s from %s"
            line = "2020-12-12 09:36:48,000 geckolib.driver.udp_socket DEBUG " + ("Received %s from %s" % (full, ("10.0.0.1", 10022)))
            snap.parse(line)
        exprs.append("chk_reassemble [%s] %s" % ("; ".join(vf.zb(d) for d in dgs), vf.zb(snap.bytes)))
        meta.append({"reassemble": len(segs)})
        ctx.case(("reasm", blk, tuple(cuts)))
        ctx.count("traffic_logs")
        if snap.bytes != b"".join(segs):
            ctx.fail("snapshot:traffic_log", "traffic log does not reassemble to the transferred block", {"segments": [list(s) for s in segs], "parsed": list(snap.bytes)})
    # ---- whole connection logs through parse_log_file: "Starting spa connection handshake..." / the status transfer / "Spa is connected",
    #      then the client's later traffic (a refresh transferring ANOTHER block), then possibly a second connection: one snapshot per
    #      connection, each holding the block that was transferred during ITS handshake
    def connection_log(blk, after=None, closed=True):
        lines = ["2020-12-12 09:36:40,000 geckolib.spa INFO Starting spa connection handshake..."]

        def transfer(b):
            segs = [b[a:a + 39] for a in range(0, len(b), 39)]
            out = []
            for i, sg in enumerate(segs):
                d = b"STATV" + struct.pack(">BBB", i, (i + 1) % len(segs), len(sg)) + sg
                full = b"<PACKT><SRCCN>A</SRCCN><DESCN>B</DESCN><DATAS>" + d + b"</DATAS></PACKT>"
                out.append("2020-12-12 09:36:48,000 geckolib.driver.udp_socket DEBUG " + ("Received %s from %s" % (full, ("10.0.0.1", 10022))))
            return out
        lines += transfer(blk)
        if closed:
            lines.append("2020-12-12 09:36:49,000 geckolib.spa INFO Spa is connected")
        if after is not None:
            lines += transfer(after)
        return lines
    for k in range(8 if ctx.thorough else 4):
        b1 = bytes(rng.choice([65, 66, 0, 7, rng.randrange(256)]) if rng.random() < 0.9 else 92 for _ in range(rng.choice([1024, 390, 78])))
        b2 = bytes(rng.randrange(32, 91) for _ in range(len(b1)))
        b3 = bytes(rng.randrange(32, 91) for _ in range(rng.choice([1024, 117])))
        b1 = b1.replace(b"[", b"(")          # '[' in a traffic line also matches the shell's data-line pattern (outside this property)
        shapes = [([connection_log(b1)], [b1]), ([connection_log(b1, after=b2)], [b1]), ([connection_log(b1, after=b2), connection_log(b3)], [b1, b3]),
                  ([connection_log(b1, closed=False)], [b1])]
        for logs, want in shapes:
            got = parse_lines([l for lg_ in logs for l in lg_])
            ctx.count("connection_log_files")
            ctx.case(("connlog", k, len(logs), tuple(len(w) for w in want), b1[:8]), nontrivial=True)
            gotb = [bytes(g.bytes) for g in got]
            if gotb != want:
                ctx.fail("snapshot:connection_log_file", "a log file with %d connection(s) parses to %d snapshot(s) with blocks of %r bytes, expected %d with %r bytes (each the block transferred during its own handshake)"
                         % (len(logs), len(got), [len(x) for x in gotb], len(want), [len(x) for x in want]), {"connections": len(logs), "snapshots": len(got), "block_lengths": [len(x) for x in gotb],
                                                                                                                "first_block_equal": bool(gotb) and gotb[0] == want[0]})
                break
    # ---- quoting corner cases of the logged bytes repr: every arrangement of quote / double quote / backslash / letter (length 1..3)
    # in a short segment whose header holds none of them (the 39-byte segments carry 0x27 in their length byte)
    import itertools
    for n in (1, 2, 3):
        for combo in itertools.product([0x27, 0x22, 0x5C, 0x41], repeat=n):
            for wrap in ((b"AA", b"A"), (b"", b"")):
                seg = wrap[0] + bytes(combo) + wrap[1]
                d = b"STATV" + struct.pack(">BBB", 0, 0, len(seg)) + seg
                full = b"<PACKT><SRCCN>A</SRCCN><DESCN>B</DESCN><DATAS>" + d + b"</DATAS></PACKT>"
                line = "2020-12-12 09:36:48,000 geckolib.driver.udp_socket DEBUG " + ("Received %s from %s" % (full, ("10.0.0.1", 10022)))
                snap = GeckoSnapshot()
                got = None
                try:
                    snap.parse(line)
                    got = snap.bytes
                except Exception as e:  # noqa
                    got = ("raises", type(e).__name__)
                ctx.case(("quoting", seg))
                ctx.count("quoting_corner_segments")
                if got != seg:
                    ctx.fail("snapshot:traffic_log", "a logged STATV segment %r does not parse back to its bytes (got %r)" % (seg, got), {"segment": list(seg), "line": line, "parsed": str(got)})
    # ---- shipped snapshots: load into the real simulator and serve to a real client
    from props.C01 import real_chain, run_async
    shipped = gen_misc.shipped_snapshots()
    d = os.path.join(vf.REPO, "tests", "snapshots")
    files = sorted(set(s["file"] for s in shipped))
    import importlib
    for fn in files:
        ctx.count("shipped_files")
        snaps = [s for s in shipped if s["file"] == fn]
        for s in snaps:
            key = "shipped:%s:%d" % (fn, s["index"])
            if len(s["bytes"]) != 1024:
                ctx.fail(key, "shipped snapshot %s does not contain a 1024-byte block (%d)" % (fn, len(s["bytes"])), {"file": fn})
                continue
            for modname in (s["packtype"].lower(), "%s-cfg-%d" % (s["packtype"].lower(), s["cfg"]), "%s-log-%d" % (s["packtype"].lower(), s["log"])):
                try:
                    importlib.import_module("geckolib.driver.packs." + modname)
                except Exception as e:
                    ctx.fail(key, "shipped snapshot %s names a module that does not exist: %s" % (fn, modname), {"file": fn, "module": modname})
        if len(snaps) == 1:
            sim = vloop.make_sim(os.path.join(d, fn))
            if sim.structure.status_block != snaps[0]["bytes"] or not sim.structure.accessors:
                ctx.fail("shipped:%s:load" % fn, "simulator did not load shipped snapshot %s" % fn, {"file": fn})
                continue
            # what the simulator tells a client about the loaded snapshot: firmware versions and the config / log file names
            try:
                from geckolib.driver.protocol import GeckoVersionProtocolHandler, GeckoConfigFileProtocolHandler
                frame = lambda c: b"<PACKT><SRCCN>IOSx</SRCCN><DESCN>SPAx</DESCN><DATAS>" + c + b"</DATAS></PACKT>"
                unframe = lambda dgs: [x[x.index(b"<DATAS>") + 7:x.rindex(b"</DATAS>")] for x in dgs]
                vr = unframe(vloop.sim_replies(sim, frame(b"AVERS\x01"), ("10.0.0.9", 40001)))
                fr = unframe(vloop.sim_replies(sim, frame(b"SFILE\x02"), ("10.0.0.9", 40001)))
                vh, fh = GeckoVersionProtocolHandler(), GeckoConfigFileProtocolHandler()
                vh.handle(vr[0], ("x", 1, b"a", b"b"))
                fh.handle(fr[0], ("x", 1, b"a", b"b"))
                told = ((vh.en_build, vh.en_major, vh.en_minor), (vh.co_build, vh.co_major, vh.co_minor), fh.plateform_key.lower(), fh.config_version, fh.log_version)
            except Exception as e:  # noqa
                told = ("raises", repr(e)[:80])
            ctx.count("shipped_served_headers")
            want = (tuple(snaps[0]["en"]), tuple(snaps[0]["co"]), snaps[0]["packtype"].lower(), snaps[0]["cfg"], snaps[0]["log"])
            if told != want:
                ctx.fail("shipped:%s:headers" % fn, "the simulator tells a client %r about shipped snapshot %s, which says %r" % (told, fn, want), {"file": fn, "served": str(told), "snapshot": str(want)})
            if ctx.thorough or files.index(fn) % 6 == 0:
                chain = real_chain(sim, 0, 1024)
                status, sends, blk = run_async(bytes(1024), 0, 1024, chain, [("C", i) for i in range(len(chain))])
                ctx.count("shipped_transfers")
                if status != 1 or blk != snaps[0]["bytes"]:
                    ctx.fail("shipped:%s:serve" % fn, "client did not receive shipped snapshot %s unchanged" % fn, {"file": fn, "status": status})
            # ... and a part of it: the refresh request of a connected client asks for the live region only (a non-zero start), others for any range
            lo = getattr(sim.structure, "log_class", None)
            ranges = []
            try:
                ranges.append((int(sim.log_class.begin), int(sim.log_class.end) - int(sim.log_class.begin)))
            except Exception:  # noqa
                ranges.append((256, 224))
            ranges += [(ctx.rng.randrange(1, 1000), ctx.rng.randrange(1, 120)) for _ in range(3 if ctx.thorough else 1)]
            for (st0, ln0) in ranges:
                ln0 = max(1, min(ln0, 1024 - st0))
                chain = real_chain(sim, st0, ln0)
                status, sends, blk = run_async(bytes(1024), st0, ln0, chain, [("C", i) for i in range(len(chain))])
                ctx.count("shipped_partial_transfers")
                ctx.case(("partial", fn, st0, ln0), nontrivial=True)
                # inside the range: the snapshot's bytes; outside: untouched, or the snapshot's byte at that offset (the simulator's last segment is
                # a whole segment, so up to a segment's worth of bytes beyond the range arrive as well - unchanged ones)
                sb = snaps[0]["bytes"]
                ok_at = lambda i: (blk[i] == sb[i]) if st0 <= i < st0 + ln0 else (blk[i] in (0, sb[i]))   # noqa: E731
                good = isinstance(blk, (bytes, bytearray)) and len(blk) == 1024 and all(ok_at(i) for i in range(1024))
                if status != 1 or not good:
                    firstbad = next((i for i in range(1024) if not ok_at(i)), None) if isinstance(blk, (bytes, bytearray)) and len(blk) == 1024 else None
                    ctx.fail("shipped:serve_part", "a client asking the simulator for bytes %d..%d of shipped snapshot %s did not receive them unchanged (first difference at offset %r)" % (
                        st0, st0 + ln0, fn, firstbad), {"file": fn, "start": st0, "length": ln0, "status": status, "first_difference_at": firstbad})
                    break
    ctx.extra["shipped_snapshots"] = len(shipped)
    for s in (meta[0], meta[3], meta[-1]):
        ctx.sample(s)
    res = ctx.coq_cases("snap", HEADER, exprs, shard=40)
    bad = [m for m, r in zip(meta, res) if r is not True]
    ctx.oblige("correspondence:snapshot_model", not bad, "first disagreements: %r" % (bad[:3],))
    ctx.assume += ["logging formatting (timestamp / logger name prefix), repr() of bytes and ast.literal_eval are exercised, not modelled",
                   "Python re is validated differentially per extraction function; int() modelled for digit strings"]


def add_line_cases(ctx, exprs, meta, line):
    r = line_parse(line)
    b = line.encode("latin1", "replace")
    if r == "raise":
        # the real parser raised on this line: the model must refuse the data list too (int() failures)
        exprs.append("chk_data_line %s None" % vf.zb(b))
        meta.append({"line_raises": line[:80]})
        ctx.case(("line", line))
        return
    exprs.append("chk_data_line %s %s" % (vf.zb(b), obz(r["data"])))
    exprs.append("chk_ver_line %s %s %s %s %s" % (vf.zb(b), o3(r["en"]), o3(r["co"]), oz(r["cfg"]), oz(r["log"])))
    exprs.append("chk_pack_line %s %s" % (vf.zb(b), "None" if r["pack"] is None else "(Some (%s, (%d, %d, %d)))" % (vf.zb(r["pack"][0]), *r["pack"][1])))
    exprs.append("chk_snap_line %s %s" % (vf.zb(b), obz(r["name"])))
    meta += [{"line": line[:80], "what": w} for w in ("data", "versions", "pack", "name")]
    ctx.case(("line", line))
    ctx.count("lines")
