"""C04 - wire format: every message round-trips and is claimed by exactly its verb."""
import struct

import vf

HEADER = """From Coq Require Import ZArith List Bool.
Require Import GV.Lib.Bytes GV.Model.Wire GV.Model.WireChk.
Import ListNotations. Open Scope Z_scope.
"""


class MockSock:
    def __init__(self):
        self.sent = []

    def queue_send(self, h, dest=None):
        self.sent.append(h)

    def get_and_increment_sequence_counter(self, cmd):
        return 7


def handler_classes():
    from geckolib.driver import protocol as P
    ms = MockSock()
    return [("HHello", lambda: P.GeckoHelloProtocolHandler(b"")),
            ("HPacket", lambda: P.GeckoPacketProtocolHandler()),
            ("HPing", lambda: P.GeckoPingProtocolHandler()),
            ("HVersion", lambda: P.GeckoVersionProtocolHandler()),
            ("HChannel", lambda: P.GeckoGetChannelProtocolHandler()),
            ("HConfigFile", lambda: P.GeckoConfigFileProtocolHandler()),
            ("HStatus", lambda: P.GeckoStatusBlockProtocolHandler()),
            ("HPartial", lambda: P.GeckoPartialStatusBlockProtocolHandler(ms)),
            ("HPackCmd", lambda: P.GeckoPackCommandProtocolHandler()),
            ("HWatercare", lambda: P.GeckoWatercareProtocolHandler()),
            ("HWcErr", lambda: P.GeckoWatercareErrorHandler()),
            ("HReminders", lambda: P.GeckoRemindersProtocolHandler()),
            ("HFirmware", lambda: P.GeckoUpdateFirmwareProtocolHandler()),
            ("HRfErr", lambda: P.GeckoRFErrProtocolHandler())]


OWNER = {"Aping": "HPing", "ApingResp": "HPing", "Avers": "HVersion", "Svers": "HVersion", "Curch": "HChannel", "Chcur": "HChannel",
         "Sfile": "HConfigFile", "Files": "HConfigFile", "Statu": "HStatus", "Statv": "HStatus", "Statp": "HPartial", "Statq": "HPartial",
         "SpackKey": "HPackCmd", "SpackSet": "HPackCmd", "Packs": "HPackCmd", "Getwc": "HWatercare", "Wcget": "HWatercare",
         "Setwc": None, "Wcreq": None, "Reqrm": "HReminders", "Rmreq": "HReminders", "Updts": "HFirmware", "Supdt": "HFirmware", "Rferr": "HRfErr"}


def cmsg(m):
    k, a = m[0], m[1:]
    if k in ("Aping", "Packs", "Wcreq", "Supdt", "Rferr"):
        return k
    if k == "Files":
        return "(Files %s (%d) (%d))" % (vf.zb(a[0]), a[1], a[2])
    if k == "Statv":
        return "(Statv (%d) (%d) %s)" % (a[0], a[1], vf.zb(a[2]))
    if k == "Statp":
        return "(Statp [%s])" % "; ".join("((%d), %s)" % (p, vf.zb(d)) for p, d in a[0])
    if k == "Rmreq":
        return "(Rmreq [%s])" % "; ".join("((%d), (%d))" % (t, d) for t, d in a[0])
    return "(%s %s)" % (k, " ".join("(%d)" % x for x in a))


def ocmsg(m):
    return "None" if m is None else "(Some %s)" % cmsg(m)


def build(m):
    """msg tuple -> content bytes through the real constructor (None = it raises)."""
    from geckolib.driver import protocol as P
    from geckolib.driver.protocol.statusblock import STATQ_VERB
    k, a = m[0], m[1:]
    pp = ("1.2.3.4", 10022, b"SRC", b"DST")
    try:
        if k == "Aping":
            h = P.GeckoPingProtocolHandler.request(parms=pp)
        elif k == "ApingResp":
            if a[0] != 0:
                return "skip"
            h = P.GeckoPingProtocolHandler.response(parms=pp)
        elif k == "Avers":
            h = P.GeckoVersionProtocolHandler.request(a[0], parms=pp)
        elif k == "Svers":
            h = P.GeckoVersionProtocolHandler.response(a[0:3], a[3:6], parms=pp)
        elif k == "Curch":
            h = P.GeckoGetChannelProtocolHandler.request(a[0], parms=pp)
        elif k == "Chcur":
            h = P.GeckoGetChannelProtocolHandler.response(a[0], a[1], parms=pp)
        elif k == "Sfile":
            h = P.GeckoConfigFileProtocolHandler.request(a[0], parms=pp)
        elif k == "Files":
            h = P.GeckoConfigFileProtocolHandler.response(a[0].decode("latin1"), a[1], a[2], parms=pp)
        elif k == "Statu":
            h = P.GeckoStatusBlockProtocolHandler.request(a[0], a[1], a[2], parms=pp)
        elif k == "Statv":
            h = P.GeckoStatusBlockProtocolHandler.response(a[0], a[1], a[2], parms=pp)
        elif k == "Statp":
            h = P.GeckoPartialStatusBlockProtocolHandler.report_changes(MockSock(), a[0], parms=pp)
        elif k == "Statq":
            # built inline by the partial handlers: STATQ + pack(">B", seq)
            h = P.GeckoPacketProtocolHandler(content=b"".join([STATQ_VERB, struct.pack(">B", a[0])]), parms=pp)
        elif k == "SpackKey":
            h = P.GeckoPackCommandProtocolHandler.keypress(a[0], a[1], a[2], parms=pp)
        elif k == "SpackSet":
            h = P.GeckoPackCommandProtocolHandler.set_value(a[0], a[1], a[2], a[3], a[4], a[5], a[6], parms=pp)
        elif k == "Packs":
            h = P.GeckoPackCommandProtocolHandler.response(parms=pp)
        elif k == "Getwc":
            h = P.GeckoWatercareProtocolHandler.request(a[0], parms=pp)
        elif k == "Wcget":
            h = P.GeckoWatercareProtocolHandler.response(a[0], parms=pp)
        elif k == "Setwc":
            h = P.GeckoWatercareProtocolHandler.set(a[0], a[1], parms=pp)
        elif k == "Wcreq":
            h = P.GeckoWatercareProtocolHandler.giveschedule(parms=pp)
        elif k == "Reqrm":
            h = P.GeckoRemindersProtocolHandler.request(a[0], parms=pp)
        elif k == "Rmreq":
            h = P.GeckoRemindersProtocolHandler.response(a[0], parms=pp)
        elif k == "Updts":
            h = P.GeckoUpdateFirmwareProtocolHandler.request(a[0], parms=pp)
        elif k == "Supdt":
            h = P.GeckoUpdateFirmwareProtocolHandler.response(parms=pp)
        elif k == "Rferr":
            h = P.GeckoRFErrProtocolHandler.response(parms=pp)
        return h._content
    except (struct.error, OverflowError, TypeError):
        return None


LIVE = {}       # one long-lived handler object per class, as a listening spa / client keeps them


def decode_impl(b, hint=None, live=False):
    """content bytes -> msg tuple as extracted by the real handle() of the accepting class (None: raises / nothing decoded).
    live: decode with the long-lived handler objects (whatever earlier datagrams left in them is still there)."""
    hs = handler_classes()
    acc = []
    owner = None
    for name, mk in hs:
        h = LIVE.setdefault(name, mk()) if live else mk()
        ok = bool(h.can_handle(bytes(b), ("1.2.3.4", 10022)))
        acc.append(ok)
        if ok and owner is None and name not in ("HHello", "HPacket"):
            owner = (name, h)
    dec = None
    if owner is not None:
        name, h = owner
        try:
            h.handle(bytes(b), ("1.2.3.4", 10022, b"SRC", b"DST"))
            v = b[:5]
            if v == b"APING":
                dec = ("Aping",) if len(b) == 5 else ("ApingResp", h._sequence)
            elif v == b"AVERS":
                dec = ("Avers", h._sequence)
            elif v == b"SVERS":
                dec = ("Svers", h.en_build, h.en_major, h.en_minor, h.co_build, h.co_major, h.co_minor)
            elif v == b"CURCH":
                dec = ("Curch", h._sequence)
            elif v == b"CHCUR":
                dec = ("Chcur", h.channel, h.signal_strength)
            elif v == b"SFILE":
                dec = ("Sfile", h._sequence)
            elif v == b"FILES":
                dec = ("Files", h.plateform_key.encode("latin1"), h.config_version, h.log_version)
            elif v == b"STATU":
                dec = ("Statu", h.sequence, h.start, h.length)
            elif v == b"STATV":
                dec = ("Statv", h.sequence, h.next, h.data)
            elif v == b"STATQ":
                dec = ("Statq", h.sequence)
            elif v == b"STATP":
                dec = ("Statp", [(p, d) for p, d in h.changes])
                # the awaitable twin must decode identically
            elif v == b"SPACK":
                if h.is_key_press:
                    dec = ("SpackKey", h._sequence, h.pack_type, h.keycode)
                elif h.is_set_value:
                    cfg, log = (hint[3], hint[4]) if hint and hint[0] == "SpackSet" else (b[9], b[10])
                    dec = ("SpackSet", h._sequence, h.pack_type, cfg, log, h.position, len(h.new_data), int.from_bytes(h.new_data, "big"))
            elif v == b"PACKS":
                dec = ("Packs",)
            elif v == b"GETWC":
                dec = ("Getwc", h._sequence)
            elif v == b"WCGET":
                dec = ("Wcget", h.mode)
            elif v == b"REQRM":
                dec = ("Reqrm", h._sequence)
            elif v == b"RMREQ":
                dec = ("Rmreq", [(int(t), d) for t, d in h.reminders])
            elif v == b"UPDTS":
                dec = ("Updts", h._sequence)
            elif v == b"SUPDT":
                dec = ("Supdt",)
            elif v == b"RFERR":
                dec = ("Rferr",)
            else:
                dec = "unmodelled"   # REQWC / WCSET / WCERR: accepted, never built by the library
        except Exception:
            dec = None
    return dec, acc


def rnd_bytes(rng, n, alphabet=None):
    if alphabet:
        return bytes(rng.choice(alphabet) for _ in range(n))
    return bytes(rng.randrange(256) for _ in range(n))


TAGS = [b"<PACKT>", b"</PACKT>", b"<SRCCN>", b"</SRCCN>", b"<DESCN>", b"</DESCN>", b"<DATAS>", b"</DATAS>", b"\n", b"\r\n", b"\x00", b"|", b"<", b">"]


def nasty(rng, n):
    out = b""
    while len(out) < n:
        out += rng.choice(TAGS) if rng.random() < 0.4 else rnd_bytes(rng, rng.randrange(1, 6))
    return out


def gen_msgs(ctx, platforms):
    rng = ctx.rng
    B = lambda: rng.choice([0, 1, 191, 192, 255, rng.randrange(256)])
    W = lambda: rng.choice([0, 1, 255, 256, 1023, 65535, rng.randrange(65536)])
    out = []
    n = 40 if ctx.thorough else 8
    for _ in range(n):
        out += [("Aping",), ("ApingResp", 0), ("Avers", B()), ("Svers", W(), B(), B(), W(), B(), B()), ("Curch", B()), ("Chcur", B(), B()),
                ("Sfile", B()), ("Statu", B(), W(), W()),
                ("Statv", B(), B(), rng.choice([b"", rnd_bytes(rng, 1), rnd_bytes(rng, 39), nasty(rng, 30)[:255], rnd_bytes(rng, 255)])),
                ("Statq", B()), ("SpackKey", B(), B(), B()),
                ("SpackSet", B(), B(), B(), B(), W(), 1, B()), ("SpackSet", B(), B(), B(), B(), W(), 2, W()),
                ("Packs",), ("Getwc", B()), ("Wcget", B()), ("Setwc", B(), B()), ("Wcreq",), ("Reqrm", B()),
                ("Rmreq", [(rng.randrange(0, 7), rng.choice([-32768, -1, 0, 1, 32767, rng.randrange(-32768, 32768)])) for _ in range(rng.randrange(0, 7))]),
                ("Updts", B()), ("Supdt",), ("Rferr",),
                ("Statp", [(W(), rnd_bytes(rng, 2)) for _ in range(rng.randrange(0, 6))]),
                ("Statp", [(W(), rnd_bytes(rng, 1))]),
                ("Files", rng.choice(platforms).encode("latin1"), rng.randrange(0, 100), rng.randrange(0, 100))]
    # every shipped platform name x a spread of versions (incl. >= 100: three digits)
    for p in platforms:
        for v in ([0, 1, 9, 10, 57, 99, 100, 255] if not ctx.thorough else range(0, 256)):
            out.append(("Files", p.encode("latin1"), v, (v * 7 + 3) % 256))
    out.append(("Files", b"MrSt", 1, 1))
    # out-of-range stream (constructors must raise exactly where the model returns None)
    out += [("Avers", 256), ("Avers", -1), ("Statu", 1, 65536, 5), ("Statu", 300, 1, 5), ("Statv", 1, 2, rnd_bytes(rng, 256)),
            ("SpackSet", 1, 2, 3, 4, 5, 1, 256), ("SpackSet", 1, 2, 3, 4, 5, 2, 65536), ("SpackSet", 1, 2, 3, 4, 5, 3, 1), ("SpackKey", 1, 2, 300),
            ("Rmreq", [(1, 32768)]), ("Rmreq", [(256, 1)]), ("Rmreq", [(7, 5), (1, 2)]), ("Rmreq", [(200, -3)]),
            ("Chcur", 256, 0), ("Wcget", -1), ("Svers", 65536, 0, 0, 0, 0, 0), ("Statp", [(65536, b"ab")]),
            ("Statp", [(i, b"xy") for i in range(256)])]
    return out


def run(ctx):
    ctx.rule = ("every message kind built through the real constructor from generated field values (boundary + random + out-of-range), "
                "bytes vs Model/Wire.encode, real handle() of the accepting class vs Wire.decode, can_handle of all 14 standard handler classes vs "
                "Wire.accepts; malformed stream (truncated / extended / random-with-verb datagrams); hello and framing with adversarial payloads "
                "(tags, newlines, NUL, '|'); non-trivial = distinct (kind, fields) with a payload or multi-byte field")
    import gen_tables
    platforms = [m["pack_name"] for m in gen_tables.load_tables() if m["kind"] == "KPack"]
    ctx.prove(timeout=1800)
    rng = ctx.rng
    exprs, meta = [], []
    stream = []
    hnames = [n for n, _ in handler_classes()]
    # ---- messages
    for m in gen_msgs(ctx, platforms):
        b = build(m)
        if b == "skip":
            continue
        dec, acc = (None, [False] * 14) if b is None else decode_impl(b, m)
        if dec == "unmodelled":
            continue
        if b is not None:
            stream.append((m, b, dec))
        exprs.append("chk_msg %s %s %s [%s]" % (cmsg(m), "None" if b is None else "(Some %s)" % vf.zb(b), ocmsg(dec), "; ".join(vf.cbool(x) for x in acc)))
        meta.append({"msg": repr(m)[:200], "bytes": None if b is None else list(b)[:40], "decoded": repr(dec)[:200], "accepted_by": [n for n, x in zip(hnames, acc) if x]})
        ctx.case(repr(m), nontrivial=len(m) > 2 or m[0] in ("Statv", "Statp", "Rmreq", "Files"))
        ctx.count("kind:" + m[0])
        ctx.count("build:" + ("raises" if b is None else "ok"))
        # ---- direct property oracle on the implementation
        if b is not None:
            want_owner = OWNER[m[0]]
            got = [n for n, x in zip(hnames, acc) if x]
            in_domain = not (m[0] == "Rmreq" and any(not 0 <= t <= 6 for t, _ in m[1])) and not (m[0] == "Statp" and len(m[1]) != 1 and any(len(d) != 2 for _, d in m[1]))
            if got != ([want_owner] if want_owner else []) or want_owner is None:
                ctx.fail("accept:%s" % m[0], "%s message is accepted by %s instead of exactly its verb's handler" % (m[0], got or "no standard handler"),
                         {"message": repr(m), "bytes": list(b), "accepted_by": got})
            elif in_domain:
                mm = m
                if m[0] == "Files" and m[1] == b"MrSt":
                    mm = ("Files", b"MrSteam", m[2], m[3])
                if m[0] == "Rmreq":
                    mm = ("Rmreq", [(t, d) for t, d in m[1]])
                if dec != tuple(mm) and list(dec or ()) != list(mm):
                    ctx.fail("roundtrip:%s" % m[0], "%s does not decode to the field values it was built from" % m[0],
                             {"message": repr(m), "bytes": list(b), "decoded": repr(dec)})
    # ---- malformed datagrams
    verbs = [b"APING", b"AVERS", b"SVERS", b"CURCH", b"CHCUR", b"SFILE", b"STATU", b"STATV", b"STATQ", b"STATP", b"SPACK", b"PACKS", b"GETWC",
             b"WCGET", b"SETWC", b"WCREQ", b"REQRM", b"RMREQ", b"UPDTS", b"SUPDT", b"RFERR", b"XXXXX", b"STAT", b"",
             b"WCERR", b"WCSET", b"REQWC", b"RMGET", b"PACKT", b"HELLO", b"STATW", b"WCGE", b"SPAC"]
    for _ in range(600 if ctx.thorough else 150):
        v = rng.choice(verbs)
        b = v + rnd_bytes(rng, rng.choice([0, 0, 1, 2, 3, 4, 5, 7, 8, 9, 12, 40]))
        if v == b"SPACK" and rng.random() < 0.7:
            b = v + bytes([rng.randrange(256), rng.randrange(256), rng.choice([2, 2, 6, 7, 1]), rng.choice([57, 70, 70, 3])]) + rnd_bytes(rng, rng.randrange(0, 8))
        dec, acc = decode_impl(b)
        if dec == "unmodelled":
            # accepted but never built by the library (REQWC / WCSET / WCERR ...): which classes claim it is still compared
            exprs.append("chk_acc %s [%s]" % (vf.zb(b), "; ".join(vf.cbool(x) for x in acc)))
            meta.append({"raw": list(b)[:40], "accepted_by": [n for n, x in zip(hnames, acc) if x]})
            ctx.count("raw_acceptance_only")
            if sum(1 for n, x in zip(hnames, acc) if x and n not in ("HHello", "HPacket")) > 1:
                ctx.fail("accept:raw:%s" % v.decode(), "a %s datagram is claimed by more than one verb handler: %s" % (v.decode(), [n for n, x in zip(hnames, acc) if x]),
                         {"bytes": list(b), "accepted_by": [n for n, x in zip(hnames, acc) if x]})
            continue
        exprs.append("chk_raw %s %s [%s]" % (vf.zb(b), ocmsg(dec), "; ".join(vf.cbool(x) for x in acc)))
        meta.append({"raw": list(b)[:40], "decoded": repr(dec)[:200]})
        ctx.case(("raw", b))
        ctx.count("malformed_datagrams")
    # ---- the same datagrams, in random order, through ONE long-lived handler object per class (a listening peer keeps its handlers): what a
    #      datagram decodes to must not depend on the datagrams decoded before it
    LIVE.clear()
    # only the datagrams a listening peer really decodes with long-lived objects: the requests a spa / the simulator serves, and on the client
    # the partial updates and RF error reports (replies to the client's own requests are decoded by the request object built for that attempt)
    # (partial updates are left out: the threaded handler accumulates their records until the client has applied them - C05's pending list)
    long_lived = {"Aping", "Avers", "Curch", "Sfile", "Statu", "SpackKey", "SpackSet", "Getwc", "Reqrm", "Updts", "Rferr"}
    order = [x for x in stream if x[0][0] in long_lived]
    rng.shuffle(order)
    for (m, b, dec) in order[:(4000 if ctx.thorough else 900)]:
        try:
            dec_live, _ = decode_impl(b, m, live=True)
        except Exception as e:  # noqa
            dec_live = "raises %s" % type(e).__name__
        ctx.count("decoded_by_long_lived_handlers")
        if dec_live != dec:
            ctx.fail("decode:history:%s" % m[0], "a %s datagram decodes to %r on a handler object that has decoded other datagrams before, to %r on a fresh one" % (m[0], dec_live, dec),
                     {"msg": repr(m)[:200], "bytes": list(b)[:60], "fresh": repr(dec)[:200], "long_lived": repr(dec_live)[:200]})
            break
    # ---- hello
    from geckolib.driver import protocol as P
    names = [b"My Spa", b"", b"Spa|with|bars", b"caf\xe9 \xfc", nasty(rng, 12), b"|", b"1",
             # names that begin / end with bytes str.strip() would eat after a latin-1 decode, and names made of such bytes only
             b" Spa ", b"Spa\t", b"\xa0Spa", b"Spa\x85", b"\x1fSpa\x1c", b" ", b"\r\n", b"Spa \x0b"]
    ids = [b"SPA00:01:02:03:04:05", b"SPA", b"", b"X1"]
    hcases = [("HBroadcast",)] + [("HClient", b"IOS" + rnd_bytes(rng, 8)), ("HClient", b"AND1234"), ("HClient", b"IOS|x")]
    hcases += [("HResponse", i, n) for i in ids for n in names]
    for hc in hcases:
        if hc[0] == "HBroadcast":
            h = P.GeckoHelloProtocolHandler.broadcast()
        elif hc[0] == "HClient":
            h = P.GeckoHelloProtocolHandler.client(hc[1])
        else:
            h = P.GeckoHelloProtocolHandler.response(hc[1], hc[2].decode("latin1"))
        b = h.send_bytes
        dec = hello_decode(b)
        ch = "HBroadcast" if hc[0] == "HBroadcast" else "(%s %s)" % (hc[0], " ".join(vf.zb(x) for x in hc[1:]))
        exprs.append("chk_hello %s %s %s" % (ch, vf.zb(b), ohello(dec)))
        meta.append({"hello": repr(hc), "decoded": repr(dec)})
        ctx.case(("hello", hc))
        ctx.count("hello")
        # oracle: the byte layout a real module uses - one byte per character of the name, between the tags
        if hc[0] == "HResponse" and b != b"<HELLO>" + hc[1] + b"|" + hc[2] + b"</HELLO>":
            ctx.fail("hello:layout", "hello reply for name %r is built as %r (expected <HELLO>identifier|name</HELLO> with one byte per character)" % (hc[2], b),
                     {"identifier": list(hc[1]), "name": list(hc[2]), "built": list(b)})
        # ... and what such a module sends decodes to that identifier / name
        if hc[0] == "HResponse" and b"|" not in hc[1] and not (hc[1] + b"|" + hc[2]).startswith((b"IOS", b"AND")) and (hc[1] + b"|" + hc[2]) != b"1":
            try:
                dec_dev = hello_decode(b"<HELLO>" + hc[1] + b"|" + hc[2] + b"</HELLO>")
            except Exception as e:  # noqa
                dec_dev = "raises %s" % type(e).__name__
            if dec_dev != hc:
                ctx.fail("hello:device_bytes", "the datagram a module sends for name %r decodes to %r" % (hc[2], dec_dev), {"identifier": list(hc[1]), "name": list(hc[2]), "decoded": repr(dec_dev)})
        # oracle: a response decodes to what it was built from (identifier without '|', content not reserved)
        if hc[0] == "HResponse" and b"|" not in hc[1] and not (hc[1] + b"|" + hc[2]).startswith((b"IOS", b"AND")) and (hc[1] + b"|" + hc[2]) != b"1":
            if dec != hc:
                ctx.fail("hello:roundtrip", "hello reply does not decode to the identifier/name it was built from",
                         {"identifier": list(hc[1]), "name": list(hc[2]), "decoded": repr(dec)})
    for _ in range(60):
        b = rng.choice([b"<HELLO>", b"<HELL", b""]) + nasty(rng, rng.randrange(0, 14)) + rng.choice([b"</HELLO>", b"", b"</HELLO>x"])
        exprs.append("chk_hello_raw %s %s" % (vf.zb(b), ohello(hello_decode(b))))
        meta.append({"hello_raw": list(b)})
        ctx.case(("hello_raw", b))
    # ---- framing
    def parts(b):
        h = P.GeckoPacketProtocolHandler()
        r = h._extract_packet_parts(bytes(b)[7:-8])
        return None if r[0] is None else r
    fr = []
    for _ in range(300 if ctx.thorough else 80):
        src = rng.choice([b"SPA00:01:02:03:04:05", b"", b"A", rnd_bytes(rng, 6, b"abc:0123>")])
        dst = rng.choice([b"IOS11111111-2222", b"", b"B", rnd_bytes(rng, 6, b"xyz-9>")])
        content = rng.choice([b"", b"APING", rnd_bytes(rng, rng.randrange(0, 30)), nasty(rng, rng.randrange(1, 40)),
                              b"x</SRCCN><DESCN>y</DESCN><DATAS>z", b"</DATAS>", b"</DATAS></PACKT>", b"a</DATAS>b</DATAS>"])
        fr.append((src, dst, content))
    for (src, dst, content) in fr:
        h = P.GeckoPacketProtocolHandler(content=content, parms=("1.2.3.4", 10022, src, dst))
        b = h.send_bytes
        pr = parts(b)
        exprs.append("chk_frame %s %s %s %s %s" % (vf.zb(src), vf.zb(dst), vf.zb(content), vf.zb(b), oparts(pr)))
        meta.append({"frame": [list(src), list(dst), list(content)[:30]]})
        ctx.case(("frame", src, dst, content))
        ctx.count("frames")
        # oracle: round trip + reply addressed back with identifiers swapped
        if b"<" not in src and b"<" not in dst:
            # on the wire SRCCN carries parms[3] (= dst here) and DESCN parms[2]
            if pr != (dst, src, content):
                ctx.fail("frame:roundtrip", "framed packet does not decode to its identifiers / payload",
                         {"src": list(src), "dst": list(dst), "content": list(content), "decoded": repr(pr)})
            else:
                rx = P.GeckoPacketProtocolHandler()
                rx.handle(b, ("9.9.9.9", 10022))
                reply = P.GeckoPacketProtocolHandler(content=b"OK", parms=rx.parms).send_bytes
                pr2 = parts(reply)
                if pr2 != (src, dst, b"OK") or rx.parms[:2] != ("9.9.9.9", 10022):
                    ctx.fail("frame:reply_swap", "reply is not addressed back to the sender with identifiers swapped",
                             {"received": list(b), "reply": list(reply)})
    for _ in range(300 if ctx.thorough else 100):
        b = rng.choice([b"<PACKT>", b"", b"<PACKT"]) + nasty(rng, rng.randrange(0, 60)) + rng.choice([b"</PACKT>", b"", b"</DATAS></PACKT>"])
        exprs.append("chk_unframe %s %s" % (vf.zb(b), oparts(parts(b))))
        meta.append({"unframe_raw": list(b)[:60]})
        ctx.case(("unframe", b))
        ctx.count("malformed_frames")
    for s in (meta[0], meta[9], meta[len(meta) // 2], meta[-1]):
        ctx.sample(s)
    res = ctx.coq_cases("wire", HEADER, exprs, shard=250)
    bad = [m for m, r in zip(meta, res) if r is not True]
    ctx.oblige("correspondence:wire_model", not bad, "first disagreements: %r" % (bad[:3],))
    ctx.assume += ["Python re (framing) is validated differentially, not proved; latin-1 is the identity on bytes",
                   "int() is modelled for canonical digit strings (FILES versions)",
                   "SPACK set-value: config/log version bytes are not stored by handle(); they are compared on the encode side only"]


def hello_decode(b):
    from geckolib.driver import protocol as P
    h = P.GeckoHelloProtocolHandler(b"")
    try:
        h.handle(bytes(b), None)
    except Exception:
        return None
    if h.was_broadcast_discovery:
        return ("HBroadcast",)
    if h._client_identifier is not None:
        return ("HClient", h._client_identifier)
    return ("HResponse", h._spa_identifier, h._spa_name.encode("latin1"))


def ohello(d):
    if d is None:
        return "None"
    if d[0] == "HBroadcast":
        return "(Some HBroadcast)"
    return "(Some (%s %s))" % (d[0], " ".join(vf.zb(x) for x in d[1:]))


def oparts(p):
    return "None" if p is None else "(Some (%s, %s, %s))" % tuple(vf.zb(x) for x in p)
