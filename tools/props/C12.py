"""C12 - device inventory equals the output wiring, unique keys."""
import json
import os
import subprocess
import sys

import vf
import gen_tables

HEADER = """From Coq Require Import ZArith List Bool String.
Require Import GV.Model.Accessor GV.Model.TableWf GV.Model.Inventory GV.Model.InventoryChk GV.Gen.InventoryTables.
%s
Import ListNotations. Open Scope string_scope.
"""


def worker(cfg, log, wirings, seed):
    env = dict(os.environ, PYTHONHASHSEED=str(seed), PYTHONPATH=vf.SRC)
    p = subprocess.run([sys.executable, os.path.join(vf.TOOLS, "harness", "scan_worker.py")], input=json.dumps({"cfg": cfg, "log": log, "wirings": wirings}),
                       capture_output=True, text=True, env=env, timeout=600)
    if p.returncode != 0:
        raise RuntimeError(p.stderr[-800:])
    return json.loads(p.stdout)


def sl(xs):
    return "[" + "; ".join(vf.cstr(x) for x in xs) + "]"


def pl(xs):
    return "[" + "; ".join("(%s, %s)" % (vf.cstr(a), vf.cstr(b)) for a, b in xs) + "]"


# device keys the pack tables advertise with a demand item and the facade has never handled (= InventoryKeysP.known_unhandled_devices)
KNOWN_UNHANDLED = {"L120", "Fb", "TvLift", "SpkrLift", "Valve", "SpeedVSP1", "SpeedVSP2", "SpeedVSP3", "SpeedVSP4", "SpeedVSP5"}


def run(ctx):
    ctx.rule = ("synthetic wirings on shipped cfg/log pairs: every output item set (through the block) to a label drawn from its own label list - subsets of outputs wired, "
                "the same device on several outputs, devices without a user demand, everything NA; the REAL _scan_outputs (async) and scan_outputs (threaded, under "
                "3 different PYTHONHASHSEEDs in subprocesses) on stub facades with real structures/accessors: pumps / blowers / lights (key, demand, modes, class, keypad), "
                "sensors, keys and unique ids vs Model/Inventory.v; non-trivial = wiring with at least two devices or a duplicated device")
    ctx.prove(timeout=2400)
    rng = ctx.rng
    mods = {m["stem"]: m for m in gen_tables.load_tables()}
    packs = [m for m in mods.values() if m["kind"] == "KPack"]
    pairs = []
    for p in packs:
        cfgs = [m for m in mods.values() if m["kind"] == "KCfg" and m["stem"].startswith(p["stem"] + "-cfg-")]
        logs = [m for m in mods.values() if m["kind"] == "KLog" and m["stem"].startswith(p["stem"] + "-log-")]
        for c in cfgs:
            for l in logs:
                pairs.append((c, l))
    rng.shuffle(pairs)

    def accessories(c, l):
        """devices the log advertises with a user demand, that an output of the configuration can be wired to, and that the facade has no class for"""
        items = {it["tag"]: it for it in c["items"]}
        acc = []
        for d in l["devices"]:
            if d in KNOWN_UNHANDLED and any(("Ud" + d).upper() == u.upper() for u in l["demands"]):
                outs_d = [o for o in c["outputs"] if o in items and any(x.startswith(d) for x in (items[o]["items"] or []))]
                if outs_d:
                    acc.append((d, outs_d))
        return acc
    # pairs whose log has at least two such accessories come first (two of them wired at once is its own wiring family below)
    multi = [(c, l) for (c, l) in pairs if len(accessories(c, l)) >= 2]
    pairs = multi[:(12 if ctx.thorough else 2)] + [p for p in pairs if p not in multi[:(12 if ctx.thorough else 2)]]
    npairs = 40 if ctx.thorough else 8
    exprs, meta, reqs = [], [], []
    used = []
    for (c, l) in pairs:
        if len(used) >= npairs:
            break
        outs = c["outputs"]
        items = {it["tag"]: it for it in c["items"]}
        if not outs or not all(o in items and items[o]["items"] for o in outs):
            continue
        if not l["devices"]:
            continue
        used.append((c, l))
        wirings = []
        for k in range(10 if ctx.thorough else 6):
            w = {}
            mode = k % 5
            for o in outs:
                labels = items[o]["items"]
                if mode == 0:
                    w[o] = "NA" if "NA" in labels else labels[0]
                elif mode == 1:
                    w[o] = rng.choice(labels)
                elif mode == 2:
                    # the same device on several outputs
                    pref = [x for x in labels if x.startswith(("P1", "P2"))]
                    w[o] = rng.choice(pref) if pref and rng.random() < 0.7 else ("NA" if "NA" in labels else labels[0])
                elif mode == 3:
                    w[o] = rng.choice(labels) if rng.random() < 0.4 else ("NA" if "NA" in labels else labels[0])
                else:
                    cand = [x for x in labels if x != "NA"]
                    w[o] = rng.choice(cand) if cand else labels[0]
            wirings.append(w)
        # one wiring per advertised device that has a demand: that device alone, on the first output that offers a label for it
        for d in l["devices"]:
            if not any(("Ud" + d).upper() == u.upper() for u in l["demands"]) or d in KNOWN_UNHANDLED:
                continue
            for o in outs:
                lab = [x for x in items[o]["items"] if x.startswith(d)]
                if lab:
                    w = {oo: ("NA" if "NA" in items[oo]["items"] else items[oo]["items"][0]) for oo in outs}
                    w[o] = lab[0]
                    wirings.append(w)
                    break
        # one wiring per OUTPUT: only that output wired, to a device label it offers (every output counts, the heater relay too)
        for k2, o in enumerate(outs):
            lab = [x for x in items[o]["items"] if any(x.startswith(d) for d in l["devices"] if any(("Ud" + d).upper() == u.upper() for u in l["demands"]) and d not in KNOWN_UNHANDLED)]
            if lab:
                w = {oo: ("NA" if "NA" in items[oo]["items"] else items[oo]["items"][0]) for oo in outs}
                w[o] = lab[k2 % len(lab)]
                wirings.append(w)
        # accessories the facade has no class for (120 V light, TV lift, ...): alone, two at once on different outputs, all at once -
        # they must simply not appear, whatever else is wired
        acc = accessories(c, l)
        base_w = {oo: ("NA" if "NA" in items[oo]["items"] else items[oo]["items"][0]) for oo in outs}
        combos = [[a] for a in acc] + [[a, b] for i, a in enumerate(acc) for b in acc[i + 1:]] + ([acc] if len(acc) > 2 else [])
        for combo in combos[:14]:
            w, taken = dict(base_w), set()
            for (d, outs_d) in combo:
                free = [o for o in outs_d if o not in taken]
                if not free:
                    continue
                o = free[0]
                taken.add(o)
                w[o] = [x for x in items[o]["items"] if x.startswith(d)][0]
            if rng.random() < 0.5:
                # plus an ordinary pump somewhere else
                for o in outs:
                    pl_ = [x for x in items[o]["items"] if x.startswith("P1")]
                    if o not in taken and pl_:
                        w[o] = pl_[0]
                        break
            wirings.append(w)
            ctx.count("wirings_with_unhandled_accessories")
        reqs.append((c, l, wirings))
    for (c, l, wirings) in reqs:
        results = {seed: worker(c["stem"], l["stem"], wirings, seed) for seed in (0, 1, 7)}
        item_keys = [it["tag"] for it in c["items"]] + [it["tag"] for it in l["items"]]
        ident = gen_tables.coq_ident(l["stem"])
        for i, w in enumerate(wirings):
            r0 = results[0][i]
            values = [w[o] for o in c["outputs"]]
            a = r0["async"]
            if "error" in a:
                # the scan of the outputs itself must cope with every wiring the configuration can express
                ctx.count("scan_raises")
                ctx.fail("inventory:scan_raises", "building the inventory for wiring %s raises %s" % ({k: v for k, v in w.items() if v != "NA"}, a["error"]),
                         {"cfg": c["stem"], "log": l["stem"], "wiring": w, "error": a["error"]})
                continue
            for seed in (0, 1, 7):
                s = results[seed][i]["sync"]
                if s != a:
                    ctx.fail("inventory:sync_differs", "threaded facade inventory differs from the awaitable one (hash seed %d): order / content" % seed,
                             {"cfg": c["stem"], "log": l["stem"], "wiring": w, "async": a, "sync": s, "PYTHONHASHSEED": seed})
                    break
            ep = [(d["key"], d["demand"]) for d in a["pumps"]]
            eb = [(d["key"], _demand_of(l, d["key"])) for d in a["blowers"]]
            el = [(d["key"], _demand_of(l, d["key"])) for d in a["lights"]]
            keys = [d["key"] for d in a["pumps"] + a["blowers"] + a["lights"]] + a["sensors"] + a["binary_sensors"] + ["HEAT", "WATERCARE", "REMINDERS", "KEYPAD"] + ([a["eco"]] if a["eco"] else [])
            # the model always lists the eco key (the facade needs EconActive to be iterable - C11); compare without it when absent
            model_keys = keys if a["eco"] else keys + ["EconActive"]
            exprs.append(("GV.Gen.Tables.%s" % ident, "chk_scan GV.Gen.Tables.%s.table %s %s %s %s %s %s" % (ident, sl(item_keys), sl(values), pl(ep), pl(eb), pl(el), sl(model_keys))))
            meta.append({"cfg": c["stem"], "log": l["stem"], "wiring": {k: v for k, v in w.items() if v != "NA"}, "pumps": [d["key"] for d in a["pumps"]],
                         "blowers": [d["key"] for d in a["blowers"]], "lights": [d["key"] for d in a["lights"]]})
            ndev = len(a["pumps"]) + len(a["blowers"]) + len(a["lights"])
            ctx.case((c["stem"], l["stem"], tuple(sorted(w.items()))), nontrivial=ndev >= 2)
            ctx.count("wirings")
            ctx.count("devices_exposed", ndev)
            # ---- direct oracle on the implementation
            from geckolib.const import GeckoConstants as K
            conns = [v for v in values if v != "NA"]
            want = [d for d in l["devices"] if any(v.startswith(d) for v in conns)]
            want = [d for d in dict.fromkeys(want) if any(("Ud" + d).upper() == u.upper() for u in l["demands"]) and d not in KNOWN_UNHANDLED]
            missing = [d for d in want if d not in K.DEVICES]
            if missing:
                ctx.fail("inventory:device_not_handled:%s" % missing[0], "output wiring %s wires %s, which has a user demand item, but the facade has no device for it (not a row of the device table)" % (
                    {k: v for k, v in w.items() if v != "NA"}, missing), {"cfg": c["stem"], "log": l["stem"], "wiring": w, "missing": missing})
                continue
            got = [d["key"] for d in a["pumps"] + a["blowers"] + a["lights"]]
            cls = {"PUMP": "pumps", "BLOWER": "blowers", "LIGHT": "lights"}
            exp = {k: [d for d in want if cls[K.DEVICES[d][3]] == k] for k in ("pumps", "blowers", "lights")}
            for k in exp:
                if [d["key"] for d in a[k]] != exp[k]:
                    ctx.fail("inventory:%s" % k, "facade %s %s differ from the wiring %s" % (k, [d["key"] for d in a[k]], exp[k]),
                             {"cfg": c["stem"], "log": l["stem"], "wiring": w, "got": a, "expected": exp})
                    break
            uids = [d["uid"] for d in a["pumps"] + a["blowers"] + a["lights"]]
            if len(set(keys)) != len(keys) or len(set(uids)) != len(uids):
                ctx.fail("inventory:keys", "automation keys / unique ids are not distinct", {"cfg": c["stem"], "log": l["stem"], "keys": keys})
            for d in a["pumps"]:
                if d["keypad"] != K.DEVICES[d["key"]][1] or d["device_class"] != K.DEVICES[d["key"]][3] or d["modes"] != _modes_of(l, d["demand"]):
                    ctx.fail("inventory:pump_props", "pump %s has wrong keypad / class / mode list" % d["key"], {"pump": d})
    ctx.extra["cfg_log_pairs"] = [(c["stem"], l["stem"]) for c, l in used]
    for s in meta[:3]:
        ctx.sample(s)
    # group the Coq cases by required table module
    by = {}
    for (req, e), m in zip(exprs, meta):
        by.setdefault(req, []).append((e, m))
    allbad = []
    for req, lst in by.items():
        res = ctx.coq_cases("inv_" + req.split(".")[-1], HEADER % ("Require %s." % req), [e for e, _ in lst], shard=60)
        allbad += [m for (e, m), r in zip(lst, res) if r is not True]
    ctx.oblige("correspondence:inventory_model", not allbad, "first disagreements: %r" % (allbad[:2],))
    ctx.assume += ["the scan methods are run unbound on stub facades holding real structures and accessors (facade construction as a whole is C11)",
                   "'is wired' is prefix matching of output labels, as the code does; the threaded facade is run under 3 hash seeds"]


def _demand_of(l, dev):
    for u in l["demands"]:
        if ("Ud" + dev).upper() == u.upper():
            return u
    return ""


def _modes_of(l, demand):
    for it in l["items"]:
        if it["tag"] == demand:
            return it["items"]
    return None
