"""C03 - change notifications: exactly once, iff the decoded value changed, after the swap."""
import vf
import gen_tables
from props.C02 import cval

HEADER = """From Coq Require Import ZArith List Bool String.
Require Import GV.Lib.Bytes GV.Model.Accessor GV.Model.AccessorChk GV.Model.Notify GV.Model.NotifyChk GV.Gen.Labels.
Import ListNotations. Open Scope string_scope. Open Scope Z_scope.
"""
KNOWN_BAD = {("mrsteam-log-1", "WaterDetected")}


def norm(it, v, units):
    if it["temp"]:
        # back to the stored word (the model compares stored readings for temperatures)
        return int(round(v * 18.0)) if units == "C" else int(round(v * 10.0 - 320))
    if it["type"] == "Time":
        h, m = v.split(":")
        return (int(h), int(m))
    return v


def run_history(ctx, cls, mod, its, blk0, ops):
    """Drives the real structure class; returns (callbacks per op, final block, oracle failures)."""
    from geckolib.driver.spastruct import GeckoStructure
    from geckolib.driver.async_spastruct import GeckoAsyncStructure
    st = GeckoStructure(None) if cls == "sync" else GeckoAsyncStructure(None, None)
    st.set_status_block(bytes(blk0))
    mclass = mod["obj"].__class__(st)
    accs_all = mclass.accessors
    st.accessors = {it["tag"]: accs_all[it["tag"]] for it in its}
    index = {id(st.accessors[it["tag"]]): i for i, it in enumerate(its)}
    log = []
    fails = []
    cur = {"expected_block": None}
    observers = {}

    def mk(obid):
        def ob(sender, old, new):
            units = st.accessors["TempUnits"].value if "TempUnits" in st.accessors else "C"
            i = index[id(sender)]
            log.append((i, obid, norm(its[i], old, units), norm(its[i], new, units)))
            if st.status_block != cur["expected_block"]:
                fails.append(("observer called before the new block was installed", i, obid))
            if sender.value != new:
                fails.append(("observer told a value the installed block does not decode to", i, obid))
            # ... and EVERY item reads the new block from inside the callback, not only the sender (a device reads its neighbours there)
            for it2 in its:
                a2 = st.accessors[it2["tag"]]
                try:
                    live, ref = a2.raw_value, a2._get_raw_value(cur["expected_block"])
                except Exception:  # noqa
                    continue
                if live != ref:
                    fails.append(("inside the observer of %s, item %s still reads %r: the installed block says %r" % (its[i]["tag"], it2["tag"], live, ref), i, obid))
                    break
        return ob

    class Client:
        """odd observer ids are bound methods, as everything in geckolib.automation registers: every `client.on_change`
        evaluates to a NEW bound-method object that is equal to, but not identical with, the one registered before"""

        def __init__(self, obid):
            self.f = mk(obid)

        def on_change(self, sender, old, new):
            self.f(sender, old, new)

    class Lookup(dict):
        def setdefault(self, obid, default=None):
            if obid not in self:
                self[obid] = Client(obid) if obid % 2 else default
            return self[obid]

        def __getitem__(self, obid):
            v = dict.__getitem__(self, obid)
            return v.on_change if isinstance(v, Client) else v
    observers = Lookup()
    percall = []
    registered = [set() for _ in its]
    for op in ops:
        log.clear()
        kind = op[0]
        if kind == "W":
            _, i, obid = op
            observers.setdefault(obid, mk(obid))
            st.accessors[its[i]["tag"]].watch(observers[obid])
            registered[i].add(obid)
        elif kind == "U":
            _, i, obid = op
            observers.setdefault(obid, mk(obid))
            try:
                st.accessors[its[i]["tag"]].unwatch(observers[obid])
            except ValueError:
                pass
            registered[i].discard(obid)
        elif kind == "UA":
            st.accessors[its[op[1]]["tag"]].unwatch_all()
            registered[op[1]].clear()
        else:
            _, off, seg = op
            prev = st.status_block
            new = prev[:off] + bytes(seg) + prev[off + len(seg):]
            cur["expected_block"] = new
            oldvals = [st.accessors[it["tag"]]._get_value(prev) if not it["temp"] else st.accessors[it["tag"]]._get_raw_value(prev) for it in its]
            st.replace_status_block_segment(off, bytes(seg))
            newvals = [st.accessors[it["tag"]].value if not it["temp"] else st.accessors[it["tag"]].raw_value for it in its]
            # direct property oracle on the implementation
            for i, it in enumerate(its):
                for obid in sorted(observers):
                    n = sum(1 for c in log if c[0] == i and c[1] == obid)
                    want = 1 if (obid in registered[i] and oldvals[i] != newvals[i]) else 0
                    if n != want:
                        fails.append(("observer %d of %s called %d times, expected %d (old %r new %r)" % (obid, it["tag"], n, want, oldvals[i], newvals[i]), i, obid))
        percall.append(list(log))
    return percall, st.status_block, fails


def coq_ops(ops):
    out = []
    for op in ops:
        if op[0] == "W":
            out.append("Watch %d %d" % (op[1], op[2]))
        elif op[0] == "U":
            out.append("Unwatch %d %d" % (op[1], op[2]))
        elif op[0] == "UA":
            out.append("UnwatchAll %d" % op[1])
        else:
            out.append("Update %d %s" % (op[1], vf.zb(op[2])))
    return "[" + "; ".join(out) + "]"


def coq_cbs(percall):
    return "[" + "; ".join("[" + "; ".join("(%d%%nat, %d, %s, %s)" % (i, ob, cval(o), cval(n)) for (i, ob, o, n) in cbs) + "]" for cbs in percall) + "]"


def run(ctx):
    ctx.rule = ("histories of watch/unwatch/unwatch_all/update on the real GeckoStructure and GeckoAsyncStructure with 5-10 real shipped items "
                "(2-byte, bit-field and neighbouring items preferred, TempUnits + temperature items included), patches aimed at item boundaries "
                "(straddling, one byte of a 2-byte item, miss by one, full refresh), patches whose first / last bytes coincide with the block's bytes at the segment-relative index, all-zero start blocks, updates that switch TempUnits and cover a temperature item whose stored reading stays / moves to the word that reads the same in the other unit, duplicate registrations, observers removed and registered again; callbacks per operation and final block "
                "compared with Model/Notify.v; non-trivial = history in which at least one callback fired and at least one touched item stayed silent")
    ctx.prove(timeout=2400)
    mods = gen_tables.load_tables()
    import importlib
    rng = ctx.rng
    cands = [m for m in mods if m["kind"] != "KPack" and len(m["items"]) > 20]
    nh = 400 if ctx.thorough else 90
    exprs, meta = [], []
    for h in range(nh):
        m = rng.choice(cands)
        pm = importlib.import_module("geckolib.driver.packs." + m["stem"])
        cls_name = "GeckoConfigStruct" if m["kind"] == "KCfg" else "GeckoLogStruct"

        class _S:
            accessors = {}
        mod = {"obj": getattr(pm, cls_name)(_S())}
        pool = [it for it in m["items"] if (m["stem"], it["tag"]) not in KNOWN_BAD and it["pos"] + it["length"] <= 1024]
        tu = [it for it in pool if it["tag"] == "TempUnits"]
        temps = [it for it in pool if it["temp"]] if tu else []
        pool_nt = [it for it in pool if not it["temp"] and it["tag"] != "TempUnits"]
        two = [it for it in pool_nt if it["length"] == 2]
        bits = [it for it in pool_nt if it["bitpos"] is not None]
        its = []
        if tu and temps and rng.random() < 0.5:
            its += tu + rng.sample(temps, min(2, len(temps)))
            ctx.count("histories_with_units_and_temperatures")
        its += rng.sample(two, min(2, len(two))) + rng.sample(bits, min(3, len(bits)))
        # neighbours sharing a byte with a chosen item
        for it in list(its):
            nb = [x for x in pool_nt if x not in its and abs(x["pos"] - it["pos"]) <= 1]
            if nb:
                its.append(rng.choice(nb))
        its += rng.sample(pool_nt, 2)
        seen = set()
        its = [x for x in its if not (x["tag"] in seen or seen.add(x["tag"]))][:10]
        blk0 = bytes(rng.randrange(256) for _ in range(1024))
        if h % 7 == 3:
            blk0 = bytes(1024)          # a fresh, all-zero block: patching a value back to zero is the 'second cycle' of a device
        if its and its[0]["tag"] == "TempUnits":
            blk0 = blk0[:its[0]["pos"]] + bytes([rng.randrange(2)]) + blk0[its[0]["pos"] + 1:]
        base = h % 2          # odd observer ids are bound methods (see Client): half of the histories register and re-register those
        ops = [("W", i, base) for i in range(len(its)) if rng.random() < 0.85]
        ops += [("W", i, base) for i in range(len(its)) if rng.random() < 0.2]   # duplicate registrations
        nops = rng.randrange(8, 22)
        for _ in range(nops):
            r = rng.random()
            if r < 0.25:
                ops.append(("W", rng.randrange(len(its)), rng.randrange(3)))
            elif r < 0.32:
                ops.append(("U", rng.randrange(len(its)), rng.randrange(3)))
            elif r < 0.35:
                ops.append(("UA", rng.randrange(len(its))))
            elif r < 0.385:
                # an observer is removed and registered again (same callable) - it must be told about the next change again
                i_, ob_ = rng.randrange(len(its)), rng.randrange(3)
                it_ = its[i_]
                ops += [("W", i_, ob_), ("U", i_, ob_), ("W", i_, ob_), ("P", it_["pos"], [rng.randrange(256) for _ in range(it_["length"])])]
            elif r < 0.41:
                # a patch that does not start at 0 whose last bytes are the bytes the block holds at the same index counted from the START of
                # the block (and whose first bytes are the bytes at the same index counted from the start of the patch's own range shifted
                # by one): any confusion of segment-relative and block-relative positions shows here
                ops.append(("PT", rng.randrange(len(its)), rng.choice(["tail", "tail", "head"])))
            elif r < 0.47 and its and its[0]["tag"] == "TempUnits":
                # one update that switches the units and covers a temperature item: its stored reading either stays (nobody may be
                # told) or moves to the word that reads the same number in the other unit (everybody must be told)
                ops.append(("PU", rng.choice([i for i, x in enumerate(its) if x["temp"]]), rng.choice(["keep", "keep", "coincide", "other"])))
            else:
                it = rng.choice(its)
                g = rng.random()
                if g < 0.06:
                    off, ln = 0, 1024
                elif g < 0.12:
                    off, ln = rng.randrange(1000), rng.randrange(1, 24)
                else:
                    off = max(0, it["pos"] + rng.choice([-2, -1, 0, 0, 1, 1, 2]))
                    ln = rng.choice([1, 1, 2, 3])
                ln = min(ln, 1024 - off)
                # mostly small changes so that some touched items keep their value
                cur = None
                seg = [rng.randrange(256) for _ in range(ln)]
                if rng.random() < 0.4:
                    seg = None  # filled in below from the running block (flip a single bit)
                ops.append(("P", off, seg if seg is not None else ("flip", ln)))
        # resolve "flip" patches against the running block (same for both classes)
        blk = bytearray(blk0)
        rops = []
        for op in ops:
            if op[0] == "PT":
                it = its[op[1]]
                off = max(1, it["pos"] - rng.choice([0, 1, 2]))
                ln = it["pos"] + it["length"] - off
                if ln <= 0 or off + ln > 1024:
                    continue
                seg = list(blk[off:off + ln])
                k = it["length"]
                if op[2] == "tail":
                    seg[ln - k:] = list(blk[ln - k:ln])            # = block[index within the segment], counted from the block's start
                else:
                    seg[:k] = list(blk[off + 1:off + 1 + k])
                blk[off:off + ln] = bytes(seg)
                rops.append(("P", off, seg))
                ctx.count("position_confusion_patches")
                continue
            if op[0] == "PU":
                t_it, u_it = its[op[1]], its[0]
                lo, hi = min(t_it["pos"], u_it["pos"]), max(t_it["pos"] + 2, u_it["pos"] + 1)
                seg = list(blk[lo:hi])
                was_c = blk[u_it["pos"]] == 1
                seg[u_it["pos"] - lo] = 0 if was_c else 1
                raw = (blk[t_it["pos"]] << 8) | blk[t_it["pos"] + 1]
                if op[2] == "coincide":
                    # C: raw / 18 ; F: (raw + 320) / 10
                    new = (raw * 10 - 320 * 18) // 18 if was_c else ((raw + 320) * 18) // 10
                    raw2 = new if 0 <= new < 65536 else raw
                elif op[2] == "other":
                    raw2 = rng.randrange(65536)
                else:
                    raw2 = raw
                seg[t_it["pos"] - lo], seg[t_it["pos"] - lo + 1] = raw2 >> 8, raw2 & 255
                blk[lo:hi] = bytes(seg)
                rops.append(("P", lo, seg))
                continue
            if op[0] == "P":
                off, seg = op[1], op[2]
                if isinstance(seg, tuple):
                    ln = seg[1]
                    seg = list(blk[off:off + ln])
                    if rng.random() < 0.3:
                        pass  # identical bytes: nobody may be notified
                    else:
                        k = rng.randrange(ln)
                        seg[k] ^= 1 << rng.randrange(8)
                blk[off:off + len(seg)] = bytes(seg)
                rops.append(("P", off, seg))
            else:
                rops.append(op)
        res = {}
        for cls in ("sync", "async"):
            percall, final, fails = run_history(ctx, cls, mod, its, blk0, rops)
            res[cls] = (percall, final)
            for f in fails[:1]:
                ctx.fail("notify:%s" % cls, f[0], {"class": cls, "module": m["stem"], "items": [x["tag"] for x in its],
                                                    "block0": list(blk0), "ops": rops})
        if res["sync"] != res["async"]:
            ctx.fail("notify:classes_differ", "the two structure classes notify differently", {"module": m["stem"], "ops": rops})
        percall, final = res["sync"]
        exprs.append("chk_hist [%s] %s %s %s %s" % ("; ".join(gen_tables.decl_coq(it) for it in its), vf.zb(blk0), coq_ops(rops),
                                                    coq_cbs(percall), vf.zb(final)))
        fired = sum(len(c) for c in percall)
        meta.append({"module": m["stem"], "items": [x["tag"] for x in its], "ops": len(rops), "callbacks": fired})
        ctx.case((m["stem"], tuple(x["tag"] for x in its), str(rops)), nontrivial=fired > 0)
        ctx.count("ops", len(rops))
        ctx.count("callbacks", fired)
        ctx.count("updates", sum(1 for o in rops if o[0] == "P"))
        if h < 3:
            ctx.sample({"module": m["stem"], "items": [x["tag"] for x in its],
                        "ops": [o if o[0] != "P" else ("P", o[1], o[2][:6]) for o in rops[:8]], "callbacks": percall[:8]})
    res = ctx.coq_cases("hist", HEADER, exprs, shard=8, timeout=1200)
    bad = [m for m, r in zip(meta, res) if r is not True]
    ctx.oblige("correspondence:notify_model", not bad, "first disagreements: %r" % (bad[:2],))
    ctx.assume += ["observers are modelled as integer ids (Python == on function objects)",
                   "temperature callbacks are mapped back to the stored word by the harness (float layer is C14)"]
