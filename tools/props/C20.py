"""C20 - threaded engine: FIFO paced sends, first-match dispatch, bounded handler life, blocking handshake under loss."""
import socket as pysocket
import threading
import time

import vf
from harness import vloop

HEADER = """From Coq Require Import ZArith List Bool.
Require Import GV.Model.Threaded GV.Model.ThreadedChk.
Import ListNotations. Open Scope Z_scope.
"""


class MockSocket:
    def __init__(self):
        self.sent = []
        self.inbox = []

    def sendto(self, data, dest):
        self.sent.append((time.monotonic(), data, dest))

    def recvfrom(self, n):
        if self.inbox:
            return self.inbox.pop(0)
        raise pysocket.timeout()

    def settimeout(self, t):
        pass

    def close(self):
        pass


def engine_run(ops, table):
    """ops: ('add', hid, tmo_ms, retries) | ('send', hid) | ('iter', now_ms, verb or None). Steps the REAL GeckoUdpSocket."""
    from geckolib.driver.udp_socket import GeckoUdpSocket
    from geckolib.driver.udp_protocol_handler import GeckoUdpProtocolHandler
    clock = [0.0]
    real = time.monotonic
    time.monotonic = lambda: clock[0]
    try:
        clock[0] = -1000.0
        class StepSocket(GeckoUdpSocket):
            """the REAL _thread_func, one iteration per step(): its loop condition is true once per step"""
            _budget = 0

            @property
            def isopen(self):
                if self._budget > 0:
                    self._budget -= 1
                    return True
                return False

            def step(self):
                self._budget = 1
                with vloop.quiet():
                    self._thread_func()
        sock = StepSocket(MockSocket())
        tab = {}
        for (h, verb, effname) in table:
            tab.setdefault(h, {})[verb] = effname

        class TH(GeckoUdpProtocolHandler):
            def __init__(self, hid, **kw):
                super().__init__(send_bytes=b"REQ%d" % hid, on_retry_failed=GeckoUdpProtocolHandler._default_retry_failed_handler, **kw)
                self.hid = hid

            def can_handle(self, data, sender):
                return data[0] in tab.get(self.hid, {})

            def handle(self, data, sender):
                e = tab[self.hid][data[0]]
                if e == "Raise":
                    raise ValueError("boom")
                if e == "Remove":
                    self._should_remove_handler = True
                    answered.setdefault(self.hid, (clock[0], any(hh is self for (hh, dd) in sock._send_handlers)))
        hs = {}
        answered = {}
        hist = []
        failed = {}
        for op in ops:
            if op[0] == "add":
                clock[0] = op[4] / 1000.0
                hs[op[1]] = TH(op[1], timeout=op[2] / 1000.0, retry_count=op[3])
                sock.add_receive_handler(hs[op[1]])
            elif op[0] == "send":
                sock.queue_send(hs[op[1]], ("10.0.0.1", 10022))
            else:
                clock[0] = op[1] / 1000.0
                if op[2] is not None:
                    sock._socket.inbox.append((bytes([op[2]]), ("10.0.0.1", 10022)))
                sock.step()
                hist.append([h.hid for h in sock._receive_handlers])
                for h in sock._receive_handlers:
                    if h.should_remove_handler:
                        failed.setdefault(h.hid, op[1])
        sent = [(round(t * 1000), int(d[3:])) for (t, d, dest) in sock._socket.sent]
        handlers = [(h.hid, h._retry_count) for h in sock._receive_handlers]
        sendq = [h.hid for (h, d) in sock._send_handlers]
        engine_run.last_hist = hist
        engine_run.last_leftover = failed
        engine_run.last_answered = {h: (round(t * 1000), pend) for h, (t, pend) in answered.items()}
        return sent, handlers, sendq
    finally:
        time.monotonic = real


def handshake(drops, snapshot="inYT-all off-2020-10-23 18_00_45.snapshot", max_iter=6000, lost_segments=()):
    """The REAL blocking GeckoSpa handshake against the in-process simulator, the engine thread stepped deterministically.
    drops: {verb: number of first attempts lost}; returns (connected, block equal, iterations, transmissions per verb)."""
    import os
    from geckolib.spa import GeckoSpa
    from geckolib.spa_descriptor import GeckoSpaDescriptor
    sim = vloop.make_sim(os.path.join("/repo/tests/snapshots", snapshot))
    clock = [1000.0]
    real = time.monotonic
    real_start = threading.Thread.start
    time.monotonic = lambda: clock[0]
    threading.Thread.start = lambda self: None
    try:
        with vloop.quiet():
            spa = GeckoSpa(GeckoSpaDescriptor(b"IOS00000000", b"SPA01:02:03:04:05:06", "x", vloop.SIMADDR))
            spa._socket = MockSocket()
            spa.start_connect()
        seen = {}
        answered = {}
        n = 0
        left = dict(drops)
        for n in range(max_iter):
            clock[0] += 0.025
            k0 = len(spa._socket.sent)
            with vloop.quiet():
                spa._process_send_requests()
                for (t, data, dest) in spa._socket.sent[k0:]:
                    verb = (data[data.index(b"<DATAS>") + 7:][:5] if b"<DATAS>" in data else b"HELLO").decode()
                    seen[verb] = seen.get(verb, 0) + 1
                    if left.get(verb, 0) > 0:
                        left[verb] -= 1
                        continue
                    reps = list(vloop.sim_replies(sim, data, ("10.0.0.9", 40001)))
                    if verb == "STATU" and lost_segments and not answered.get("STATU"):
                        # the first answer to the status request loses some of its segments on the way (the rest, the last one included, arrive)
                        reps = [r for j, r in enumerate(reps) if j not in lost_segments]
                    answered[verb] = answered.get(verb, 0) + 1
                    for r in reps:
                        spa._socket.inbox.append((r, vloop.SIMADDR))
                spa._process_received_data()
                for h in spa._receive_handlers:
                    h.loop(spa)
                spa._cleanup_handlers()
                try:
                    spa._loop_func()
                except Exception:
                    pass
            if spa._is_connected and not spa._socket.inbox:
                break
        return spa._is_connected, spa.struct.status_block == sim.structure.status_block, n, dict(seen)
    finally:
        time.monotonic = real
        threading.Thread.start = real_start


def run(ctx):
    ctx.rule = ("(a) the REAL GeckoUdpSocket stepped as its thread function does (mock socket, virtual clock), with 1-4 test handlers (timeouts 100/400/1000 ms, 0-5 "
                "retries, verbs that keep / remove / raise), random schedules of registrations, queued sends, iterations with 3-ms-grid clock advances and incoming "
                "datagrams: (time, handler) of every transmission, remaining handlers with their retries, send queue vs Model/Threaded.v; (b) the REAL blocking GeckoSpa "
                "handshake against the in-process simulator under loss scripts that drop the first k attempts of each step (k within the retry budget); non-trivial = "
                "schedule with a timeout-driven retransmission or a first-match conflict")
    ctx.prove(timeout=1200)
    rng = ctx.rng
    exprs, meta = [], []
    for k in range(400 if ctx.thorough else 90):
        nh = rng.randrange(1, 5)
        table = []
        for h in range(1, nh + 1):
            for verb in rng.sample([65, 66, 67, 68], rng.randrange(0, 4)):
                table.append((h, verb, rng.choice(["Keep", "Keep", "Remove", "Raise"])))
        ops, now = [], 0
        added = []
        if k % 5 == 4 and nh >= 2:
            # twins: requests issued back to back with the same timeout and retry budget give up in the SAME engine iteration, registered next to each other
            to, rt = rng.choice([100, 400]), rng.randrange(0, 3)
            for h in range(1, rng.randrange(2, nh + 1) + 1):
                added.append(h)
                ops.append(("add", h, to, rt, now))
                ops.append(("send", h))
        late_answer = (k % 7 == 3 and not added)
        if late_answer:
            # late answer: the reply arrives in an iteration in which the request's timeout has already expired
            table = [(1, 65, "Remove")] + [t for t in table if t[0] != 1]
            tmo = rng.choice([100, 400])
            ops += [("add", 1, tmo, rng.randrange(1, 4), now), ("send", 1), ("iter", now + 30, None), ("iter", now + 30 + tmo + rng.choice([3, 21, 45]), 65)]
            now += 30 + tmo + 45
            added = [1]
            for _ in range(6):
                now += 3 * rng.choice([7, 17, 40])
                ops.append(("iter", now, None))
        for _ in range(0 if late_answer else rng.randrange(5, 60)):
            r = rng.random()
            if r < 0.12 and len(added) < nh:
                h = len(added) + 1
                added.append(h)
                ops.append(("add", h, rng.choice([100, 400, 1000]), rng.randrange(0, 6), now))
                if rng.random() < 0.8:
                    ops.append(("send", h))
            elif r < 0.2 and added:
                ops.append(("send", rng.choice(added)))
            else:
                now += 3 * rng.choice([1, 1, 2, 5, 7, 9, 17, 40, 140, 350])
                ops.append(("iter", now, rng.choice([None, None, 65, 66, 67, 68, 69])))
        sent, handlers, sendq = engine_run(ops, table)
        cops = []
        for op in ops:
            if op[0] == "add":
                cops.append("OAdd %d %d %d %d" % (op[1], op[4], op[2], op[3]))
            elif op[0] == "send":
                cops.append("OSend %d" % op[1])
            else:
                cops.append("OIter %d %s" % (op[1], "None" if op[2] is None else "(Some %d)" % op[2]))
        exprs.append("chk_engine [%s] [%s] [%s] [%s] [%s]" % (
            "; ".join("(%d%%nat, %d, %s)" % t for t in table), "; ".join(cops),
            "; ".join("(%d, %d%%nat)" % s for s in sent), "; ".join("(%d%%nat, %d%%nat)" % h for h in handlers), "; ".join("%d%%nat" % x for x in sendq)))
        hist = engine_run.last_hist
        for h, (ta, pending) in engine_run.last_answered.items():
            explicit = sum(1 for o in ops if o[0] == "send" and o[1] == h)
            late = [t for (t, hh) in sent if hh == h and t > ta]
            nowt, sends_after = -1, 0
            for o in ops:
                if o[0] == "iter":
                    nowt = o[1]
                elif o[0] == "send" and o[1] == h and nowt >= ta:
                    sends_after += 1          # the script itself asked for another transmission after the answer
            if explicit <= 1 and late and not sends_after:
                if pending:
                    # K9: the retry was already waiting in the paced send queue when the answer arrived
                    ctx.fail("engine:queued_retry_sent_after_answer", "handler %d was answered at ms %d while a retry of it was waiting in the send queue; that retry was transmitted at ms %s" % (h, ta, late[:3]),
                             {"table": table, "ops": ops, "sent": sent})
                else:
                    ctx.fail("engine:retry_after_answer", "handler %d was answered at ms %d, nothing of it was queued then, and its request was transmitted again at ms %s" % (h, ta, late[:3]),
                             {"table": table, "ops": ops, "sent": sent})
        if engine_run.last_leftover:
            ctx.fail("engine:not_removed", "handler(s) %s answered / out of retries were still registered after the engine iteration that decided it (iteration at ms %s)" % (
                sorted(engine_run.last_leftover), sorted(engine_run.last_leftover.values())[:3]), {"table": table, "ops": ops, "handlers_after_each_iteration": hist})
        exprs.append("chk_engine_hist [%s] [%s] [%s]" % ("; ".join("(%d%%nat, %d, %s)" % t for t in table), "; ".join(cops),
                                                     "; ".join("[%s]" % "; ".join("%d%%nat" % x for x in hh) for hh in hist)))
        meta.append({"handlers": nh, "table": table, "ops": len(ops), "handlers_after_each_iteration": hist[:8]})
        meta.append({"handlers": nh, "table": table, "ops": len(ops), "transmissions": sent[:6]})
        retx = len(sent) > sum(1 for o in ops if o[0] == "send")
        ctx.case((str(table), str(ops)), nontrivial=retx or nh > 1)
        ctx.count("engine_schedules")
        ctx.count("transmissions", len(sent))
        # ---- direct oracle on the implementation: pacing and FIFO of the explicit sends
        if any(b[0] - a[0] < 20 for a, b in zip(sent, sent[1:])):
            ctx.fail("engine:pacing", "two transmissions less than 20 ms apart", {"table": table, "ops": ops, "sent": sent})
        per = {}
        for o in ops:
            if o[0] == "add":
                per[o[1]] = o[3]
        for h, n in per.items():
            explicit = sum(1 for o in ops if o[0] == "send" and o[1] == h)
            tx = sum(1 for s in sent if s[1] == h) + sum(1 for x in sendq if x == h)
            gone = h not in [x[0] for x in handlers]
            answered = h in engine_run.last_answered
            addop = [o for o in ops if o[0] == "add" and o[1] == h][0]
            first_tx = [t for (t, hh) in sent if hh == h][:1]
            k8 = not first_tx or first_tx[0] > addop[4] + addop[2]          # K8: the timeout expired before the first transmission
            if explicit == 1 and gone and not answered and not k8 and addop[2] > 0 and tx < 1 + n:
                ctx.fail("engine:too_few_retransmissions", "handler %d (timeout %d ms, %d retries) was removed unanswered after %d transmissions instead of %d" % (h, addop[2], n, tx, 1 + n),
                         {"table": table, "ops": ops, "sent": sent})
            if explicit <= 1 and tx > explicit + n:
                ctx.fail("engine:retries", "handler transmitted %d times with %d retries" % (tx, n), {"table": table, "ops": ops, "sent": sent})
    # ---- K8 probe on the real engine: a request that times out while its first send still waits behind another one
    ops = [("add", 8, 0, 0, 0), ("add", 7, 100, 2, 0), ("send", 8), ("send", 7)] + [("iter", 150 + 51 * k, None) for k in range(14)]
    sent, handlers, sendq = engine_run(ops, [])
    n7 = sum(1 for s_ in sent if s_[1] == 7)
    if not any(h[0] == 7 for h in handlers) and n7 != 3:
        ctx.fail("engine:retry_before_first_send", "request with 2 retries was removed after only %d transmissions (a retry queued before the first transmission has no destination and is dropped)" % n7,
                 {"ops": ops, "transmissions": sent})
    # ---- (b) handshake under loss
    steps = ["AVERS", "CURCH", "SFILE", "STATU"]
    scripts = [{}] + [{s: k} for s in steps for k in ((1, 3, 10) if ctx.thorough else (2,))] + [{steps[ctx.seed % 3]: 10}]      # the whole retry budget but one attempt + [{s: rng.randrange(0, 5) for s in steps} for _ in range(6 if ctx.thorough else 2)]
    for drops in scripts:
        ok, same, iters, seen = handshake(drops)
        ctx.count("handshakes")
        ctx.case(("handshake", str(sorted(drops.items()))), nontrivial=bool(drops))
        meta.append({"handshake_drops": drops, "connected": ok, "block_equal": same, "iterations": iters, "transmissions": seen})
        if not (ok and same):
            ctx.fail("handshake:loss", "blocking handshake did not complete with an identical block although one attempt per step got through",
                     {"drops": drops, "connected": ok, "block_equal": same, "transmissions": seen})
        for s, k in drops.items():
            if seen.get(s, 0) != k + 1 and s != "STATU":
                ctx.fail("handshake:retransmissions", "%s transmitted %d times with %d attempts lost" % (s, seen.get(s, 0), k), {"drops": drops, "transmissions": seen})
    # a handler whose ACCEPTANCE TEST raises (a header parser fed a runt datagram): the engine's iteration must survive it, and the datagrams
    # before and after it are dispatched as usual - stepped exactly as _thread_func does, through the receive step
    def raising_can_handle():
        from geckolib.driver.udp_socket import GeckoUdpSocket
        from geckolib.driver.udp_protocol_handler import GeckoUdpProtocolHandler
        got = []

        class Parser(GeckoUdpProtocolHandler):
            def can_handle(self, data, sender):
                return data[4] == 0x41            # IndexError on a datagram shorter than five bytes

            def handle(self, data, sender):
                got.append(bytes(data))
        with vloop.quiet():
            sock = GeckoUdpSocket(MockSocket())
            sock.add_receive_handler(Parser())
            sock._socket.inbox += [(b"xxxxA-1", ("10.0.0.1", 1)), (b"r", ("10.0.0.1", 1)), (b"xxxxA-2", ("10.0.0.1", 1))]
            died = None
            for _ in range(4):
                try:
                    sock._process_send_requests()
                    sock._process_received_data()
                    for h in sock._receive_handlers:
                        h.loop(sock)
                    sock._cleanup_handlers()
                    sock._loop_func()
                except Exception as e:  # noqa
                    died = repr(e)
                    break
        return died, got
    died, got = raising_can_handle()
    ctx.count("raising_acceptance_test_probe")
    ctx.case(("raising_can_handle",), nontrivial=True)
    if died is not None or got != [b"xxxxA-1", b"xxxxA-2"]:
        ctx.fail("engine:acceptance_test_exception_stops_engine", "a handler whose can_handle raises on a runt datagram ends the engine's loop (%s); datagrams dispatched: %r" % (died, got),
                 {"exception": died, "dispatched": [list(x) for x in got]})
    # segments of the first status answer lost on the way (first / middle / several; the last one arrives): the block must still end up identical
    for lost in ([(0,), (3,), (1, 2), (5, 9, 20)] + ([(25,), (0, 26)] if ctx.thorough else [])):
        ok, same, iters, seen = handshake({}, lost_segments=lost)
        ctx.count("handshakes_with_lost_segments")
        ctx.case(("handshake_lost_segments", lost), nontrivial=True)
        meta.append({"handshake_lost_segments": lost, "connected": ok, "block_equal": same, "transmissions": seen})
        if not (ok and same):
            ctx.fail("handshake:lost_segments", "blocking handshake did not end with an identical block after segments %r of the first status answer were lost (connected=%s, identical=%s)" % (lost, ok, same),
                     {"lost_segments_of_first_answer": lost, "connected": ok, "block_equal": same, "transmissions": seen})
    # exhausting the budget: 11 lost attempts of the first step -> the request is removed, the handshake cannot complete
    ok, same, iters, seen = handshake({"AVERS": 11}, max_iter=3000)
    meta.append({"handshake_exhausted": seen, "connected": ok})
    if ok or seen.get("AVERS") != 11:
        ctx.fail("handshake:budget", "version request was transmitted %s times (expected 1 + 10) or the handshake completed without an answer" % seen.get("AVERS"), {"transmissions": seen})
    for s in (meta[0], meta[1], meta[-2]):
        ctx.sample(s)
    res = ctx.coq_cases("eng", HEADER, exprs, shard=30)
    bad = [m for m, r in zip(meta, res) if r is not True]
    ctx.oblige("correspondence:engine_model", not bad, "first disagreements: %r" % (bad[:2],))
    ctx.assume += ["real thread interleavings between client threads and the engine thread are outside the model (the engine's steps are taken in its thread's order; "
                   "shared lists are guarded by self._lock in the code)",
                   "clock values are kept on a 3 ms grid so that float comparisons against the 20 ms throttle and the timeouts are never on a boundary"]
