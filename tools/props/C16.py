"""C16 - sequence numbers."""
import contextlib
import io
import threading

import vf
import gen_counter

HEADER = """From Coq Require Import ZArith List Bool.
Require Import GV.Gen.Counter GV.Proofs.CounterP.
Import ListNotations. Open Scope Z_scope.
Definition chk (next : bool -> Z * Z -> (Z * Z) * Z) (b : bool) (p c p' c' v : Z) : bool :=
  let '((p2, c2), v2) := next b (p, c) in (p2 =? p') && (c2 =? c') && (v2 =? v).
Definition chkrun (next : bool -> Z * Z -> (Z * Z) * Z) (init : Z * Z) (calls : list bool) (vals : list Z) : bool :=
  let out := snd (run next init calls) in
  (Nat.eqb (length out) (length vals)) && forallb (fun x => Z.eqb (snd (fst x)) (snd x)) (combine out vals).
"""


def _impl_objects():
    from geckolib.driver.async_udp_protocol import GeckoAsyncUdpProtocol
    from geckolib.driver.udp_socket import GeckoUdpSocket
    return {"async": GeckoAsyncUdpProtocol(None, None), "sync": GeckoUdpSocket()}


def _step(obj, b, p, c):
    obj._sequence_counter_protocol = p
    obj._sequence_counter_command = c
    v = obj.get_and_increment_sequence_counter(b)
    return obj._sequence_counter_protocol, obj._sequence_counter_command, v


def wire_oracle(ctx):
    """Sequence byte of real datagrams: SPACK must be 192..255, everything else 1..191."""
    import geckolib  # noqa
    from geckolib.spa import GeckoSpa
    from geckolib.spa_descriptor import GeckoSpaDescriptor
    res = []
    with contextlib.redirect_stdout(io.StringIO()):
        desc = GeckoSpaDescriptor(b"IOS00000000-0000-0000-0000-000000000000", b"SPA01:02:03:04:05:06", "x", ("10.0.0.1", 10022))
        spa = GeckoSpa(desc)
    spa.pack_type = 10
    spa.config_version = 1
    spa.log_version = 1
    # threaded client, two command paths
    for name, call in (("spa.GeckoSpa._on_set_value", lambda: spa._on_set_value(300, 1, 5)),
                       ("spa.GeckoSpa.press", lambda: spa.press(3))):
        for k in range(70):
            n0 = len(spa._send_handlers)
            call()
            h = spa._send_handlers[n0][0]
            data = h._content if hasattr(h, "_content") else None
            sb = h.send_bytes
            i = sb.find(b"SPACK")
            seq = sb[i + 5]
            res.append((name, k, seq))
    return res


VERBS_WITH_SEQ = (b"AVERS", b"CURCH", b"SFILE", b"STATU", b"GETWC", b"SETWC", b"REQRM", b"STATQ", b"SPACK", b"UPDTS")


def session_wire(seed):
    """A full session of the REAL async client (handshake, refresh, facade queries, commands, acknowledgements of the spa's partial
    updates, socket error notifications in between, 7% of the client's datagrams lost so that pings, requests and commands are sent again) against the in-process simulator under virtual time: the sequence byte of every datagram the client put on the wire."""
    import asyncio
    import random
    from harness import vloop, session
    rng = random.Random(seed)

    async def main(loop):
        def script(direction, data):
            # some datagrams of the client never reach the spa (pings, requests, commands alike): the engine sends again
            if direction == "up" and rng.random() < 0.07 and connected[0]:
                return []
            if direction == "down" and b"<DATAS>STATP" in data:
                return [(0.22, data)]
            return [(0.0 if direction == "up" else 0.02, data)]
        connected = [False]
        peer = session.Peer(loop, "inYT-all off-2020-10-23 18_00_45.snapshot", latency=0.02, script=script)
        cl = session.Client(peer)
        await cl.connect(with_facade=True)
        connected[0] = True
        spa = cl.spa
        nerr = [0]
        for k in range(230):
            r = rng.random()
            try:
                if r < 0.45:
                    await spa.async_press(rng.choice([1, 2, 3, 16]))
                elif r < 0.6:
                    acc = spa.accessors.get("SetpointG")
                    if acc is not None:
                        await acc.async_set_value(rng.randrange(500, 720))
                elif r < 0.63:
                    # SETWC is never answered by the simulator (K4): take its first transmission only
                    t = loop.create_task(spa.async_set_watercare(rng.randrange(0, 5)))
                    await asyncio.sleep(0.5)
                    t.cancel()
                    await asyncio.sleep(0)
                elif r < 0.8:
                    await spa.async_get_watercare()
                else:
                    await spa.async_get_reminders()
            except AssertionError:
                break
            await asyncio.sleep(rng.choice([0.0, 0.3, 1.1]))
            if rng.random() < 0.06 and spa._protocol is not None:
                # a socket error notification (ICMP port unreachable for an earlier datagram): the endpoint and the session stay
                with vloop.quiet():
                    spa._protocol.error_received(ConnectionRefusedError(111, "Connection refused"))
                nerr[0] += 1
        sent = [d for (t, d, a) in loop.endpoints[0].sent]       # everything the client put on the wire, lost datagrams included
        await cl.close()
        return sent
    out = []
    for d in vloop.run(main):
        i = d.find(b"<DATAS>")
        if i < 0:
            continue
        c = d[i + 7:]
        if c[:5] in VERBS_WITH_SEQ and len(c) > 5:
            out.append((c[:5].decode(), c[5]))
    return out


def run(ctx):
    ctx.rule = ("correspondence: every reachable counter state (p in 0..191, c in 191..255; thorough: all 256x256) x both kinds, "
                "real get_and_increment_sequence_counter of both classes vs the AST-translated Gallina body; plus random call "
                "sequences vs the model run; non-trivial = distinct (class, kind, state) or distinct call list with at least one wrap")
    # 1. regenerate
    try:
        sites = gen_counter.call_sites()
    except Exception as e:  # fail-closed extractor (also reported by gen:seq_sites)
        sites = []
    # 2. prove
    ctx.prove()
    # 3. correspondence
    objs = _impl_objects()
    exprs, meta = [], []
    if ctx.thorough:
        ps, cs = range(256), range(256)
    else:
        ps, cs = range(0, 192), range(191, 256)
    for cls, obj in objs.items():
        for b in (False, True):
            for p in ps:
                for c in cs:
                    p2, c2, v = _step(obj, b, p, c)
                    exprs.append("chk %s_next %s %d %d %d %d %d" % (cls, vf.cbool(b), p, c, p2, c2, v))
                    meta.append((cls, b, p, c, p2, c2, v))
                    ctx.case((cls, b, p, c))
                    ctx.count("state_cases")
                    # direct property oracle on the implementation (reachable states only)
                    if p <= 191 and 191 <= c <= 255:
                        okv = (192 <= v <= 255) if b else (1 <= v <= 191)
                        succ = (v == (192 if c == 255 else c + 1)) if b else (v == (1 if p == 191 else p + 1))
                        untouched = (p2 == p) if b else (c2 == c)
                        if not (okv and succ and untouched):
                            ctx.fail("counter:%s:%s" % (cls, "command" if b else "protocol"),
                                     "counter hands out a value outside its cycle",
                                     {"class": cls, "command": b, "state": [p, c], "new_state": [p2, c2], "value": v})
    ctx.exhaustive = True
    # random call sequences from the constructor's state
    nseq = 200 if ctx.thorough else 40
    for k in range(nseq):
        n = ctx.rng.choice([5, 70, 200, 400, 700])
        bias = ctx.rng.random()
        calls = [ctx.rng.random() < bias for _ in range(n)]
        for cls in ("async", "sync"):
            obj = _impl_objects()[cls]
            vals = [obj.get_and_increment_sequence_counter(b) for b in calls]
            exprs.append("chkrun %s_next %s_init [%s] %s" % (cls, cls, "; ".join(vf.cbool(b) for b in calls), vf.zl(vals)))
            meta.append((cls, "seq", n))
            wraps = sum(1 for b in calls if not b) > 191 or sum(1 for b in calls if b) > 64
            ctx.case(("seq", cls, tuple(calls)), nontrivial=wraps)
            ctx.count("sequence_cases")
            if 0 in vals:
                ctx.fail("counter:%s:zero" % cls, "sequence number 0 handed out", {"class": cls, "calls": calls, "values": vals})
    ctx.sample({"class": "async", "command": False, "state": [191, 255], "impl": list(_step(objs["async"], False, 191, 255))})
    ctx.sample({"class": "sync", "command": True, "state": [7, 255], "impl": list(_step(objs["sync"], True, 7, 255))})
    res = ctx.coq_cases("corr", HEADER, exprs, shard=4000)
    bad = [m for m, r in zip(meta, res) if r is not True]
    ctx.oblige("correspondence:counter_bodies", not bad, "first disagreements: %r" % (bad[:3],))
    # threaded hammer (supporting evidence only): 8 threads x 4000 calls, values must be a permutation of the cycle
    from geckolib.driver.udp_socket import GeckoUdpSocket
    s = GeckoUdpSocket()
    got = []
    lk = threading.Lock()

    def worker():
        loc = [s.get_and_increment_sequence_counter(False) for _ in range(191 * 4)]
        with lk:
            got.extend(loc)
    ths = [threading.Thread(target=worker) for _ in range(8)]
    [t.start() for t in ths]
    [t.join() for t in ths]
    from collections import Counter
    cnt = Counter(got)
    ok = set(cnt) == set(range(1, 192)) and set(cnt.values()) == {32}
    ctx.extra["threaded_hammer"] = {"threads": 8, "calls": len(got), "each_value_handed_out_32_times": ok}
    if not ok:
        ctx.fail("counter:sync:threads", "concurrent callers received duplicated / skipped sequence numbers", {"histogram": dict(cnt)})
    # 4. call-site and wire-level oracle
    for (f, fn, ln, flag, fac) in sites:
        ctx.count("call_sites")
        if flag != gen_counter.is_pack_command(fac):
            ctx.fail("site:%s:%s" % (f, fn), "call site %s:%s passes command=%s to %s" % (f, fn, flag, fac),
                     {"file": f, "function": fn, "line": ln, "flag": flag, "factory": fac})
    ctx.extra["call_sites"] = ["%s:%s:%s:%s" % (f, fn, flag, fac) for (f, fn, ln, flag, fac) in sites]
    try:
        for (name, k, seq) in wire_oracle(ctx):
            ctx.count("wire_datagrams")
            if not 192 <= seq <= 255:
                ctx.fail("wire:%s" % name, "SPACK datagram built by %s carries sequence %d (outside 192..255)" % (name, seq),
                         {"call": name, "nth": k, "sequence_byte": seq})
                break
    except Exception as e:
        ctx.oblige("oracle:wire_level_runs", False, repr(e))
    # 5. the wire of a whole async session: commands and requests each walk their own cycle, one step per datagram, in order
    try:
        wire = session_wire(ctx.seed)
        ctx.count("session_wire_datagrams", len(wire))
        last = {True: None, False: None}
        for n, (verb, seq) in enumerate(wire):
            cmd = verb == "SPACK"
            lo, hi = (192, 255) if cmd else (1, 191)
            if not lo <= seq <= hi:
                ctx.fail("wire:session:range:%s" % verb, "datagram #%d of the session (%s) carries sequence %d, outside %d..%d" % (n, verb, seq, lo, hi), {"verb": verb, "sequence_byte": seq, "nth": n})
                break
            want = None if last[cmd] is None else (lo if last[cmd] == hi else last[cmd] + 1)
            if want is not None and seq != want:
                ctx.fail("wire:session:successor:%s" % verb, "datagram #%d of the session (%s) carries sequence %d, the previous %s carried %d" % (
                    n, verb, seq, "command" if cmd else "request", last[cmd]), {"verb": verb, "sequence_byte": seq, "previous": last[cmd], "nth": n, "wire": wire[max(0, n - 5):n + 1]})
                break
            last[cmd] = seq
        ctx.extra["session_wire_sample"] = wire[:12]
        ctx.dist["session_wire_wraps"] = sum(1 for a, b in zip(wire, wire[1:]) if b[1] < a[1] and (a[0] == "SPACK") == (b[0] == "SPACK"))
    except Exception as e:  # noqa
        ctx.oblige("oracle:session_wire_runs", False, repr(e)[:300])
    ctx.assume += ["`with self._lock` makes the threaded counter body atomic (AST fact c16_threaded_counter_locked; threads themselves are outside the model)",
                   "call sites are found syntactically (calls through other names would be missed; none exist today)"]
