"""C11 - every shipped pack table yields a facade whose read-only API is total."""
import vf
import gen_tables
from harness import facades

HEADER = """From Coq Require Import ZArith List Bool String.
Require Import GV.Model.Facade GV.Model.FacadeChk.
Import ListNotations. Open Scope string_scope.
"""


def all_combos():
    mods = {m["stem"]: m for m in gen_tables.load_tables()}
    out = []
    for p in [m for m in mods.values() if m["kind"] == "KPack"]:
        cs = [m for m in mods.values() if m["kind"] == "KCfg" and m["stem"] == "%s-cfg-%d" % (p["stem"], m["version"])]
        ls = [m for m in mods.values() if m["kind"] == "KLog" and m["stem"] == "%s-log-%d" % (p["stem"], m["version"])]
        for c in cs:
            for l in ls:
                out.append((p["stem"], c["stem"], l["stem"]))
    return out


def run(ctx):
    ctx.rule = ("finite and complete over combinations: the REAL GeckoAsyncFacade and GeckoFacade are constructed on every platform x config x log combination of the "
                "regenerated tables (895) and construction success is compared with Model/Facade.combo_ready; on blocks {zeros, all-ones, random, small-values, temperature words at 0xFFFF / extreme with all boolean flags off, shipped "
                "snapshot when one exists} every public read-only member of the facade and of each device is evaluated (quick: a rotating third of the combinations for "
                "the non-zero blocks, thorough: all); watercare rendering for all 256 mode bytes and None; reminder lists; non-trivial = every (combination, block)")
    ctx.prove(timeout=2400)
    rng = ctx.rng
    combos = all_combos()
    ctx.extra["combinations"] = len(combos)
    exprs, meta = [], []
    blocks = {"zeros": bytes(1024), "ones": bytes([255]) * 1024, "random": bytes(rng.randrange(256) for _ in range(1024)),
              "small": bytes(rng.choice([0, 1, 2, 3, 4]) for _ in range(1024))}
    import gen_misc
    snaps = {}
    for s in gen_misc.shipped_snapshots():
        if s["packtype"] and len(s["bytes"]) == 1024:
            snaps.setdefault((s["packtype"].lower(), s["cfg"], s["log"]), s["bytes"])
    for i, (p, c, l) in enumerate(combos):
        ready = {}
        full = ctx.thorough or (i % 3 == ctx.seed % 3)
        names = list(blocks) if full else ["zeros"]
        for bn in names:
            for cls, fn in (("async", facades.build_async_facade), ("sync", facades.build_sync_facade)):
                ctx.count("facade_builds")
                try:
                    fac, spa = fn(p, c, l, blocks[bn])
                except Exception as e:
                    ready[(cls, bn)] = False
                    ctx.fail("facade:%s:%s" % (c, l), "facade cannot be constructed on %s / %s (%s: %s)" % (c, l, type(e).__name__, str(e)[:60]),
                             {"platform": p, "cfg": c, "log": l, "block": bn, "class": cls, "exception": repr(e)[:200]})
                    continue
                ready[(cls, bn)] = True
                bad = facades.eval_members(fac, cls == "async")
                ctx.case((p, c, l, bn, cls))
                if bad:
                    ctx.fail("member:%s:%s:%s" % (c, l, bad[0][0]), "read-only member %s raises on %s / %s: %s" % (bad[0][0], c, l, bad[0][1]),
                             {"platform": p, "cfg": c, "log": l, "block": bn if bn != "random" else list(blocks[bn]), "class": cls, "raised": bad[:5]})
        # wired blocks: every label some output of this configuration can hold (pumps, blowers, lights - and the devices the facade has no
        # class for: L120, TvLift, ...), one block per label with that single output wired
        if ready.get(("async", "zeros")) and (ctx.thorough or i % 12 == ctx.seed % 12):
            try:
                fac0, spa0 = facades.build_async_facade(p, c, l, blocks["zeros"])
                seen_labels = {}
                for o in spa0.struct.all_outputs:
                    acc = spa0.accessors[o]
                    for idx, lab in enumerate(acc.items or []):
                        if lab and lab not in seen_labels:
                            seen_labels[lab] = (acc, idx)
            except Exception:  # noqa
                seen_labels = {}
            for lab, (acc, idx) in sorted(seen_labels.items()):
                blk = bytearray(1024)
                cur = idx if acc.bitpos is None else ((idx & acc.bitmask) << acc.bitpos)
                blk[acc.pos:acc.pos + acc.length] = cur.to_bytes(acc.length, "big")
                for cls, fn in (("async", facades.build_async_facade), ("sync", facades.build_sync_facade)):
                    ctx.count("wired_label_builds")
                    try:
                        fac, spa = fn(p, c, l, bytes(blk))
                        bad = facades.eval_members(fac, cls == "async")
                    except Exception as e:  # noqa
                        ctx.fail("facade:%s:%s:wired:%s" % (c, l, lab), "facade cannot be constructed on %s / %s when output %s is wired to %s (%s: %s)" % (
                            c, l, acc.tag, lab, type(e).__name__, str(e)[:60]), {"platform": p, "cfg": c, "log": l, "output": acc.tag, "label": lab, "class": cls})
                        break
                    if bad:
                        ctx.fail("member:%s:%s:%s" % (c, l, bad[0][0]), "read-only member %s raises on %s / %s with output %s wired to %s" % (bad[0][0], c, l, acc.tag, lab),
                                 {"platform": p, "cfg": c, "log": l, "output": acc.tag, "label": lab, "raised": bad[:5]})
                        break
        # extreme readings with the flags off: every temperature word at 0xFFFF in an otherwise zero block; all-ones with every
        # boolean item's byte cleared (so that the members fall through to the comparisons of the readings themselves)
        if ready.get(("async", "zeros")) and (ctx.thorough or i % 6 == ctx.seed % 6):
            try:
                fac0, spa0 = facades.build_async_facade(p, c, l, blocks["zeros"])
                tposs = [a.pos for a in spa0.accessors.values() if type(a).__name__ == "GeckoTempStructAccessor"]
                bposs = [a.pos for a in spa0.accessors.values() if type(a).__name__ == "GeckoBoolStructAccessor"]
            except Exception:  # noqa
                tposs, bposs = [], []
            b1 = bytearray(1024)
            for q in tposs:
                b1[q:q + 2] = b"\xff\xff"
            b2 = bytearray(b"\xff" * 1024)
            for q in bposs:
                b2[q] = 0
            b3 = bytearray(rng.randrange(256) for _ in range(1024))
            for q in tposs:
                b3[q:q + 2] = rng.choice([b"\xff\xff", b"\x00\x00", b"\xff\xfe", b"\x80\x00"])
            for q in bposs:
                b3[q] = 0
            for bn, blk in (("temps_ffff", bytes(b1)), ("ones_flags_off", bytes(b2)), ("random_extreme_temps_flags_off", bytes(b3))):
                for cls, fn in (("async", facades.build_async_facade), ("sync", facades.build_sync_facade)):
                    ctx.count("extreme_reading_builds")
                    try:
                        fac, spa = fn(p, c, l, blk)
                        bad = facades.eval_members(fac, cls == "async")
                    except Exception as e:  # noqa
                        ctx.fail("facade:%s:%s:%s" % (c, l, bn), "facade cannot be constructed on %s / %s on block %s (%s: %s)" % (c, l, bn, type(e).__name__, str(e)[:60]),
                                 {"platform": p, "cfg": c, "log": l, "block": bn, "class": cls})
                        break
                    ctx.case((p, c, l, bn, cls))
                    if bad:
                        ctx.fail("member:%s:%s:%s" % (c, l, bad[0][0]), "read-only member %s raises on %s / %s on block %s: %s" % (bad[0][0], c, l, bn, bad[0][1]),
                                 {"platform": p, "cfg": c, "log": l, "block": bn, "block_bytes": list(blk) if bn.startswith("random") else bn, "class": cls, "raised": bad[:5]})
                        break
        key = tuple(int(x) if x.isdigit() else x for x in (p, c.rsplit("-", 1)[1], l.rsplit("-", 1)[1]))
        if (p, int(c.rsplit("-", 1)[1]), int(l.rsplit("-", 1)[1])) in snaps:
            blk = snaps[(p, int(c.rsplit("-", 1)[1]), int(l.rsplit("-", 1)[1]))]
            for cls, fn in (("async", facades.build_async_facade), ("sync", facades.build_sync_facade)):
                try:
                    fac, spa = fn(p, c, l, blk)
                    bad = facades.eval_members(fac, cls == "async")
                    ctx.count("snapshot_blocks")
                    if bad:
                        ctx.fail("member:%s:%s:%s" % (c, l, bad[0][0]), "read-only member %s raises on shipped snapshot of %s / %s" % (bad[0][0], c, l), {"raised": bad[:5]})
                except Exception as e:
                    ctx.fail("facade:%s:%s" % (c, l), "facade cannot be constructed on the shipped snapshot of %s / %s" % (c, l), {"exception": repr(e)[:200]})
        vals = set(ready.values())
        exprs.append("chk_ready %s %s %s" % (vf.cstr(c), vf.cstr(l), vf.cbool(all(vals))))
        meta.append({"cfg": c, "log": l, "builds": all(vals), "inconsistent": len(vals) > 1})
    # ---- watercare rendering: all 256 bytes, negative, None
    from geckolib.automation.watercare import GeckoWaterCare
    from geckolib.const import GeckoConstants as K

    class F:
        unique_id = "u"
        name = "n"
        _spa = None
    wc = GeckoWaterCare(F())
    for m in [None, -1, -5] + list(range(256)):
        wc.active_mode = m
        try:
            s = str(wc)
        except Exception as e:
            ctx.fail("watercare:str:%s" % m, "watercare string rendering raises for mode %s: %r" % (m, e), {"mode": m})
            continue
        unknown = s.startswith("Unknown Water care mode")
        exprs.append("chk_wc %s %s %s" % ("None" if m is None else "(Some (%d)%%Z)" % m, vf.cbool(unknown), vf.cstr(s)))
        meta.append({"watercare_mode": m, "str": s})
        ctx.case(("wc", m))
        ctx.count("watercare_modes")
    # ---- reminders
    from geckolib.automation.reminders import GeckoReminders
    from geckolib.driver import GeckoReminderType
    rm = GeckoReminders(F())
    for k in range(40):
        lst = [(GeckoReminderType(rng.randrange(0, 7)), rng.choice([-32768, -13, -1, 0, 1, 47, 687, 32767])) for _ in range(rng.randrange(0, 11))]
        try:
            rm.change_reminders(lst)
            strs = [str(r) for r in rm.reminders]
            str(rm); rm.last_update; [r.description for r in rm.reminders]; [rm.get_reminder(t) for t in GeckoReminderType]
        except Exception as e:
            ctx.fail("reminders:total", "reminder members raise: %r" % e, {"reminders": [(int(t), d) for t, d in lst]})
            continue
        if [(int(r.type), r.days) for r in rm.reminders] != [(int(t), d) for t, d in lst if int(t) != 0]:
            ctx.fail("reminders:filter", "active reminders differ from the non-INVALID ones", {"reminders": [(int(t), d) for t, d in lst]})
        for r in rm.reminders:
            s = str(r)
            kind, n = (0, r.days) if "due in" in s else (1, 0) if "due today" in s else (2, -r.days)
            exprs.append("chk_rem (%d)%%Z (%d)%%Z %s (%d)%%Z (%d)%%Z" % (int(r.type), r.days, vf.cstr(r.description), kind, n))
            meta.append({"reminder": (int(r.type), r.days), "str": s})
            ctx.case(("rem", int(r.type), r.days))
            ctx.count("reminders")
    ctx.exhaustive = True
    for s in (meta[0], meta[500], meta[-1]):
        ctx.sample(s)
    res = ctx.coq_cases("fac", HEADER, exprs, shard=120, timeout=1800)
    bad = [m for m, r in zip(meta, res) if r is not True]
    ctx.oblige("correspondence:facade_model", not bad, "first disagreements: %r" % (bad[:3],))
    ctx.assume += ["facades are constructed without a network: real GeckoAsyncSpa / GeckoSpa objects whose structures are populated directly; background tasks / threads are not started",
                   "combo_ready is the model of what construction needs; its equivalence with real construction is checked on all 895 combinations, not proved"]
