"""C06 - request engine: bounded retries, one request in flight, every caller completes, gates."""
import asyncio
import re

import vf
from harness import vloop, session, rtrace

HEADER = """From Coq Require Import ZArith List Bool.
Require Import GV.Model.Request GV.Model.RequestChk GV.Model.RequestW.
Import ListNotations.
Open Scope Z_scope.
"""
SNAPS = ["inYT-all off-2020-10-23 18_00_45.snapshot", "inXM-Idle-2020-12-09 11_14_06.snapshot", "inYJ-All off-2020-12-18 11_24_09.snapshot"]
EPS = 5                       # microseconds: float clock vs integer labels
POLL = 100000                 # ASYNCIO_SLEEP_TIMEOUT_FOR_YIELD in microseconds


def reset_config():
    import geckolib.config as C
    idle = C._GeckoIdleConfig()
    for m in C.CONFIG_MEMBERS:
        setattr(C.GeckoConfig, m, getattr(idle, m))
    C.ConfigChange = None


def fault_plan(rng, t0, duration, early):
    """list of (start, end, mode, parameter) windows on the virtual clock"""
    plan, t = [], t0 + (0.0 if early else rng.choice([3.0, 8.0, 20.0]))
    while t < t0 + duration:
        mode = rng.choice(["blackout", "blackout", "lossy", "replyloss", "slow", "healthy", "pingloss"])
        ln = rng.choice([1.5, 5.0, 9.0, 14.0, 30.0, 70.0]) if mode != "healthy" else rng.choice([5.0, 20.0, 40.0])
        par = {"lossy": rng.choice([0.3, 0.6, 0.9]), "replyloss": rng.choice([0.5, 1.0]), "slow": rng.choice([0.5, 2.5, 4.5])}.get(mode, 0)
        plan.append((t, min(t + ln, t0 + duration), mode, par))
        t += ln
    return plan


def scenario(seed, snap, duration, early_faults, ncallers):
    import random
    rng = random.Random(seed)
    reset_config()

    async def main(loop):
        import geckolib.config as C
        lat = rng.choice([0.01, 0.03, 0.07])
        plan = fault_plan(rng, loop.time(), duration, early_faults)

        def mode_now():
            t = loop.time()
            for (a, b, m, p) in plan:
                if a <= t < b:
                    return m, p
            return "healthy", 0

        def script(direction, data):
            m, p = mode_now()
            base = 0.0 if direction == "up" else lat
            if m == "blackout":
                return []
            if m == "lossy" and rng.random() < p:
                return []
            if m == "replyloss" and direction == "down" and rng.random() < p:
                return []
            if m == "pingloss" and direction == "down" and b"<DATAS>APING" in data:
                return []           # only the answers to the keep-alive pings get lost: everything else (echoes, pushes, replies) arrives
            if m == "slow" and direction == "down":
                if b"<DATAS>APING" in data:
                    ping_answers.append(loop.time() + lat + p)
                return [(lat + p, data)]
            if direction == "down" and b"<DATAS>STATP" in data:
                return [(lat + 0.2, data)]
            if direction == "down" and b"<DATAS>APING" in data:
                ping_answers.append(loop.time() + base)
            return [(base, data)]
        ping_answers = []          # virtual times at which an answer to a keep-alive ping reaches the client
        liveness = []              # (t, library says 'answering pings', seconds since the last answer that really arrived)
        peer = session.Peer(loop, snap, latency=lat, script=script)
        cl = session.Client(peer)
        tr = rtrace.RTrace(lambda: cl.spa, loop).install()
        stalls = [0.0]
        cfgs = set()
        issued = {}
        try:
            ok = await cl.connect(with_facade=True)
            cfgs.add((C.GeckoConfig.PROTOCOL_TIMEOUT_IN_SECONDS, C.GeckoConfig.PAUSE_BETWEEN_RETRIES_IN_SECONDS))
            spa = cl.spa

            async def one(kind):
                issued[kind] = issued.get(kind, 0) + 1
                try:
                    if kind == "press":
                        await spa.async_press(rng.choice([1, 2, 3, 4, 16, 17]))
                    elif kind == "set":
                        acc = spa.accessors.get("SetpointG")
                        if acc is not None:
                            await acc.async_set_value(rng.randrange(500, 720))
                    elif kind == "getwc":
                        await spa.async_get_watercare()
                    elif kind == "setwc":
                        await spa.async_set_watercare(rng.randrange(0, 5))
                    elif kind == "rem":
                        await spa.async_get_reminders()
                except AssertionError:
                    pass           # the protocol object is gone (connection failed): assert self._protocol is not None

            async def spa_pushes():
                # the spa's own values move: unsolicited partial updates keep arriving whatever happens to the pings
                v = 0
                while True:
                    await asyncio.sleep(rng.choice([2.0, 5.0, 11.0]))
                    v += 1
                    peer.spontaneous("DisplayedTempG", 60.0 + (v % 40))
            pt = loop.create_task(spa_pushes())

            async def callers():
                while True:
                    await asyncio.sleep(rng.choice([0.07, 0.4, 1.3, 3.1, 7.0]))
                    if spa._protocol is None:
                        return
                    if rng.random() < 0.15:
                        dt = rng.choice([0.05, 0.3, 1.1])
                        stalls.append(dt)
                        loop.jump(dt)
                    kinds = ["press", "press", "set", "getwc", "rem"] + (["setwc"] if rng.random() < 0.1 else [])
                    for _ in range(rng.choice([1, 1, 2, 3, ncallers])):
                        loop.create_task(one(rng.choice(kinds)), name="caller")
                    cfgs.add((C.GeckoConfig.PROTOCOL_TIMEOUT_IN_SECONDS, C.GeckoConfig.PAUSE_BETWEEN_RETRIES_IN_SECONDS))
            t_conn = loop.time()

            async def liveness_watch():
                # the gate's clock, read independently: the library may say 'answering pings' only while an answer really arrived within
                # twice the ping period (its own definition), counted from the answers that reached the client's socket
                while spa._protocol is not None:
                    await asyncio.sleep(0.5)
                    now = loop.time()
                    arrived = [t for t in ping_answers if t <= now]
                    since = now - max(arrived + [t_conn])
                    try:
                        lib = bool(spa.is_responding_to_pings)
                    except Exception:
                        lib = False
                    liveness.append((now, lib, since, C.GeckoConfig.PING_FREQUENCY_IN_SECONDS))
            lw = loop.create_task(liveness_watch())
            ct = loop.create_task(callers())
            await asyncio.sleep(duration)
            ct.cancel()
            # healthy from here on: every call still open must complete
            quiescent = False
            open0 = [c for c, st in tr.state.items() if not st["done"]]
            budget = sum(tr.calls[c]["retries"] * (C.GeckoConfig.PROTOCOL_TIMEOUT_IN_SECONDS + C.GeckoConfig.PAUSE_BETWEEN_RETRIES_IN_SECONDS + 0.5) + 1 for c in open0) + 60
            for _ in range(int(budget / 0.05)):
                open_calls = [c for c, st in tr.state.items() if not st["done"]]
                if not open_calls and spa._protocol is not None and not spa._protocol.Lock.locked():
                    quiescent = True
                    break
                if spa._protocol is None:
                    quiescent = not open_calls
                    break
                await asyncio.sleep(0.05)
            labels_at_quiet = len(tr.log)
            lw.cancel()
            pt.cancel()
            await cl.close()
        finally:
            tr.remove()
        return dict(ok=ok, tr=tr, quiescent=quiescent, budget=budget, nq=labels_at_quiet, stall=max(stalls), cfgs=cfgs, plan=plan, issued=issued, liveness=liveness,
                    sent=[(t, d) for (t, d) in peer.raw])
    return vloop.run(main)


def py_oracle(tr, T=None, P=None, J=None):
    """direct reading of the label stream (independent of the Coq acceptor): returns list of (key, what)"""
    bad = []
    holder, sends, hits = None, {}, {}
    order_called, order_acq = [], []
    for l in tr.log:
        k = l[0]
        if k == "call":
            order_called.append(l[1])
        elif k == "acquire":
            if holder is not None:
                bad.append(("engine:two_in_flight", "call %d acquired the lock while call %d holds it" % (l[1], holder)))
            holder = l[1]
            order_acq.append(l[1])
        elif k == "send":
            if holder != l[1]:
                bad.append(("engine:send_outside_lock", "call %d sent while the lock is held by %r" % (l[1], holder)))
            sends[l[1]] = sends.get(l[1], 0) + 1
            if sends[l[1]] > tr.calls[l[1]]["retries"]:
                bad.append(("engine:too_many_attempts", "call %d (%s) transmitted %d times with retry count %d" % (l[1], tr.calls[l[1]]["caller"], sends[l[1]], tr.calls[l[1]]["retries"])))
            if not l[3]:
                bad.append(("engine:attempt_not_fresh", "call %d re-sent a request object" % l[1]))
        elif k == "hit":
            hits[l[1]] = hits.get(l[1], 0) + 1
        elif k in ("release", "cancel"):
            if holder == l[1]:
                holder = None
            if k == "release" and l[3] and not hits.get(l[1]):
                bad.append(("engine:reply_without_delivery", "call %d returned a reply although none was delivered" % l[1]))
    if T is not None:
        started = {}
        for l in tr.log:
            if l[0] in ("send", "hit"):
                started[l[1]] = l[2]
            elif l[0] in ("timeout", "miss") and l[1] in started:
                late = l[2] - started[l[1]] - T
                if (l[0] == "timeout" and late > J + EPS) or (l[0] == "miss" and late > EPS):
                    bad.append(("engine:attempt_outlives_timeout", "call %d (%s): an attempt was still waiting %.3f s after it was sent (timeout %.1f s)" % (
                        l[1], tr.calls[l[1]]["caller"], (l[2] - started[l[1]]) / 1e6, T / 1e6)))
                    break
        acq = {}
        for l in tr.log:
            if l[0] == "acquire":
                acq[l[1]] = l[2]
            elif l[0] == "release" and tr.calls[l[1]]["kind"] == "simple" and l[1] in acq:
                lim = tr.calls[l[1]]["retries"] * (T + P + 3 * J + EPS) + J
                if l[2] - acq[l[1]] > lim:
                    bad.append(("engine:call_exceeds_time_bound", "call %d (%s, %d attempts allowed) held the lock %.3f s, more than retry-count x (timeout + pause) + scheduling slack = %.3f s"
                                % (l[1], tr.calls[l[1]]["caller"], tr.calls[l[1]]["retries"], (l[2] - acq[l[1]]) / 1e6, lim / 1e6)))
    if T is not None:
        free_at, arrived, holder2 = 0, {}, None
        for l in tr.log:
            if l[0] == "call":
                arrived[l[1]] = l[2]
            elif l[0] == "acquire":
                lim = max(free_at, arrived.get(l[1], 0)) + J
                if l[2] > lim:
                    bad.append(("engine:lock_handover_late", "call %d (%s) arrived at %.3f s, the lock was free from %.3f s, but it was granted only at %.3f s (more than one scheduling slot later)"
                                % (l[1], tr.calls[l[1]]["caller"], arrived.get(l[1], 0) / 1e6, free_at / 1e6, l[2] / 1e6)))
                    break
                holder2 = l[1]
            elif l[0] in ("release", "cancel") and holder2 == l[1]:
                free_at, holder2 = l[2], None
    cancelled = {l[1] for l in tr.log if l[0] == "cancel"}
    want = [c for c in order_called if c in set(order_acq)]
    if [c for c in order_acq] != want:
        bad.append(("engine:not_fifo", "lock granted in order %r, calls arrived in order %r" % (order_acq[:12], want[:12])))
    return bad


def run(ctx):
    ctx.rule = ("trace acceptance: complete sessions of the REAL GeckoAsyncSpa + facade (handshake, ping / refresh / facade-update loops) against the in-process simulator "
                "under virtual time, with bursts of concurrent command / query callers (key press, set value, watercare get / set, reminders), fault windows (blackout, "
                "random loss, reply loss, slow replies beyond the timeout, loss of the ping answers alone while the spa keeps pushing updates) and event-loop stalls; every event of the engine (call, lock grant, send, poll miss, hit, timeout, "
                "pause end, return, cancellation; gate transitions) is recorded with its virtual time and must be accepted by Model/Request.v, whose run also yields the "
                "duration / attempts / hits of every call; non-trivial = session with a timed-out attempt, a retry and at least 3 callers queued on the lock at once")
    ctx.prove(timeout=1200)
    n = 12 if ctx.thorough else 5
    exprs, sexprs, meta, traces = [], [], [], []
    wexprs, wsexprs = [], []
    known_gate = 0
    for k in range(n):
        snap = SNAPS[k % len(SNAPS)]
        r = scenario(ctx.seed * 1000 + k, snap, 260 if ctx.thorough else 120, early_faults=(k % 4 == 3), ncallers=6)
        tr = r["tr"]
        traces.append(tr)
        labels = rtrace.coq_labels(tr)
        T, P = max(c[0] for c in r["cfgs"]), max(c[1] for c in r["cfgs"])
        J = POLL + int(r["stall"] * 1e6) + EPS
        cfg = "{| cT := %d; cP := %d; cJ := %d; cE := %d |}" % (int(T * 1e6), int(P * 1e6), J, EPS)
        quiet_labels = labels[:r["nq"]]
        exprs.append("chk_request %s [%s] %s" % (cfg, "; ".join(quiet_labels), vf.cbool(r["quiescent"])))
        exprs.append("chk_request %s [%s] false" % (cfg, "; ".join(labels)))
        sexprs.append("stats %s [%s]" % (cfg, "; ".join(labels)))
        cS = rtrace.struct_ceiling(tr)
        wl = "; ".join(rtrace.coq_wlabels(tr))
        wexprs.append("wchk %s %d [%s]" % (cfg, cS, wl))
        wsexprs.append("wait_stats %s %d (init, ginit) [%s] (0, 0)" % (cfg, cS, wl))
        kinds = {}
        for l in tr.log:
            kinds[l[0]] = kinds.get(l[0], 0) + 1
        # deepest lock queue
        depth, cur, hold = 0, 0, False
        waiting = set()
        for l in tr.log:
            if l[0] == "call":
                waiting.add(l[1])
            elif l[0] in ("acquire", "cancel"):
                waiting.discard(l[1])
            depth = max(depth, len(waiting))
        m = {"snapshot": snap, "connected": r["ok"], "labels": len(labels), "kinds": kinds, "max_lock_queue": depth, "calls": len(tr.calls), "issued": r["issued"],
             "fault_windows": [(round(a - 1000, 1), round(b - 1000, 1), mo, p) for (a, b, mo, p) in r["plan"]][:8], "max_stall_s": r["stall"], "quiescent": r["quiescent"],
             "callers": sorted({c["caller"] for c in tr.calls.values()})}
        meta.append(m)
        ctx.case((snap, k, len(labels)), nontrivial=kinds.get("timeout", 0) > 0 and depth >= 3 and any(
            sum(1 for l in tr.log if l[0] == "send" and l[1] == c) > 1 for c in tr.calls))
        for kk, v in kinds.items():
            ctx.count("label:" + kk, v)
        ctx.count("calls", len(tr.calls))
        ctx.count("max_lock_queue_seen", 0)
        ctx.dist["max_lock_queue"] = max(ctx.dist.get("max_lock_queue", 0), depth)
        for what in tr.problems[:2]:
            ctx.fail("engine:harness_fact", what, {"snapshot": snap, "seed": ctx.seed * 1000 + k})
        for key, what in py_oracle(tr, int(T * 1e6), int(P * 1e6), J)[:2]:
            ctx.fail(key, what, {"snapshot": snap, "seed": ctx.seed * 1000 + k, "plan": m["fault_windows"]})
        stale = [(t, since, f) for (t, lib, since, f) in r["liveness"] if lib and since > 2 * f + 1.0 + r["stall"]]
        ctx.count("liveness_samples", len(r["liveness"]))
        if stale:
            t, since, f = stale[0]
            ctx.fail("gate:answering_pings_without_an_answer", "at %.1f s the spa counts as answering pings (commands / queries are let through) although the last answer to a ping reached the client "
                     "%.1f s earlier (ping period %s s: the gate should have closed after %s s)" % (t - 1000, since, f, 2 * f), {"snapshot": snap, "seed": ctx.seed * 1000 + k, "plan": m["fault_windows"]})
        if not r["quiescent"]:
            ctx.fail("engine:caller_never_completes", "a command / query call was still open %.0f virtual seconds after the network became healthy (the sum of the time bounds of the calls open at that moment, plus 60 s)" % r["budget"],
                     {"snapshot": snap, "seed": ctx.seed * 1000 + k, "open": [tr.calls[c] for c, st in tr.state.items() if not st["done"]][:4]})
        # no command / query datagram leaves while the gate is closed: wire-level reading
    res = ctx.coq_cases("req", HEADER, exprs, shard=2, timeout=1500)
    bad = [i for i, x in enumerate(res) if x is not True]
    detail = ""
    if bad:
        i = bad[0]
        e = exprs[i]
        cfg = e[len("chk_request "):e.index("|}") + 2]
        lab = e[e.index("|} [") + 3:e.rindex("]") + 1]
        rc, out = vf.coqc_text("C06_dbg", HEADER + "Eval vm_compute in (first_reject %s init %s 0).\n" % (cfg, lab))
        txt = " ".join(out.split())
        detail = "session %d: first rejected label index %s" % (i // 2, txt[-30:])
        if "None" in txt[-30:]:
            rc, out = vf.coqc_text("C06_dbg", HEADER + "Eval vm_compute in (offenders %s %s).\n" % (cfg, lab))
            detail = "session %d accepted, but calls (id, ok, duration, bound, sends, hits) break the per-call facts or the run is not quiescent: %s" % (i // 2, " ".join(out.split())[-300:])
        mm = re.search(r"Some (\d+)", txt)
        if mm:
            j = int(mm.group(1))
            labs = lab[1:-1].split("; ")
            detail += " ; context: " + " | ".join(labs[max(0, j - 6):j + 1])
        meta[i // 2]["first_reject"] = detail
    ctx.oblige("correspondence:request_trace_acceptance", not bad, detail)
    if bad:
        ctx.extra["rejected_trace"] = {"detail": detail, "session": meta[bad[0] // 2]}
    # the timed layer: clock monotone, holder never silent beyond its allowance, prompt hand-over of the lock
    wres = ctx.coq_cases("reqw", HEADER, wexprs, shard=2, timeout=1500)
    wbad = [i for i, x in enumerate(wres) if x is not True]
    wdetail = ""
    if wbad:
        i = wbad[0]
        e = wexprs[i]
        rest = e[len("wchk "):]
        cfgS, lab = rest[:rest.index(" [")], rest[rest.index(" [") + 1:]
        rc, out = vf.coqc_text("C06_wdbg", HEADER + "Eval vm_compute in (first_wreject %s (init, ginit) %s 0).\n" % (cfgS, lab))
        txt = " ".join(out.split())
        wdetail = "session %d: first label the timed layer refuses: %s" % (i, txt[-30:])
        mm = re.search(r"Some (\d+)", txt)
        if mm:
            j = int(mm.group(1))
            labs = lab[1:-1].split("; ")
            wdetail += " ; context: " + " | ".join(labs[max(0, j - 6):j + 1])
        meta[i]["first_timed_reject"] = wdetail
    ctx.oblige("correspondence:request_timed_layer_acceptance", not wbad, wdetail)
    if wbad:
        ctx.extra["rejected_timed_trace"] = {"detail": wdetail, "session": meta[wbad[0]]}
    rc, out = vf.coqc_text("C06_wstats", HEADER + "".join("Eval vm_compute in (%s).\n" % e for e in wsexprs), timeout=900)
    waits = [(int(a), int(b)) for a, b in re.findall(r"Some\s*\((-?\d+),\s*(-?\d+)\)", " ".join(out.split()))]
    if waits:
        ctx.dist["longest_lock_wait_s"] = max(a for a, b in waits) / 1e6
        ctx.dist["largest_promise_margin_s"] = max(b for a, b in waits) / 1e6
    # gate statistics: from the model's run of the accepted traces, cross-checked with a direct reading of the labels
    rc, out = vf.coqc_text("C06_stats", HEADER + "".join("Eval vm_compute in (%s).\n" % e for e in sexprs), timeout=900)
    fin = canc = stale = retr = ungu = 0
    for mm in re.finditer(r"Some\s*\((\d+)%nat,\s*(\d+)%nat,\s*(-?\d+),\s*(-?\d+),\s*(-?\d+)\)", " ".join(out.split())):
        fin += int(mm.group(1)); canc += int(mm.group(2)); stale += int(mm.group(3)); retr += int(mm.group(4)); ungu += int(mm.group(5))
    ctx.count("calls_finished", fin)
    ctx.count("calls_cancelled_by_close", canc)
    ctx.count("gated_first_sends_after_gate_closed", stale)
    ctx.count("gated_retries_after_gate_closed", retr)
    ctx.count("unguarded_query_sends_while_gate_closed", ungu)
    py = {"first": 0, "retry": 0}
    ung_sites = {}
    for tr in traces:
        gate, nsent = False, {}
        for l in tr.log:
            if l[0] == "gate":
                gate = l[1]
            elif l[0] == "send":
                c = tr.calls[l[1]]
                n = nsent.get(l[1], 0)
                nsent[l[1]] = n + 1
                if c["query"] and not gate:
                    if c["gated"]:
                        py["first" if n == 0 else "retry"] += 1
                    else:
                        ordinal = 1 + [a for (a, b, g) in tr.sites.get(c["caller"], [])].index(c["site"]) if c["site"] is not None else 0
                        key = "%s#%d" % (c["caller"], ordinal)
                        ung_sites[key] = ung_sites.get(key, 0) + 1
    ctx.oblige("correspondence:gate_counters_agree", (py["first"], py["retry"], sum(ung_sites.values())) == (stale, retr, ungu),
               "labels say %r / %r, model says %r" % (py, ung_sites, (stale, retr, ungu)))
    if stale:
        ctx.fail("gate:first_send_after_lock_wait", "%d first attempts of command / query calls were sent although the spa had stopped answering pings: the gate is "
                 "checked before the caller queues on the protocol lock, not when its turn comes" % stale, {"count": stale})
    if retr:
        ctx.fail("gate:retry_after_gate_closed", "%d further attempts of command / query calls were sent after the spa had stopped answering pings: the retry loop never "
                 "looks at the gate again" % retr, {"count": retr})
    for key, cnt in sorted(ung_sites.items()):
        ctx.fail("gate:unguarded_query:" + key, "%d query datagrams of request call %s, which has no gate check in front of it, were sent while the spa was not answering "
                 "pings" % (cnt, key), {"count": cnt, "call_site": key})
    for s in meta[:3]:
        ctx.sample(s)
    ctx.assume += ["atomicity of the code between two awaits; asyncio.Lock's FIFO hand-over is observed (acceptor), not assumed",
                   "timed claims hold for schedules whose stalls are bounded by cJ (the stalls injected in a run enter that run's cJ)"]
