"""C08 - lifecycle follows the state table; ready/teardown well-bracketed."""
import itertools

import vf
from harness import lifecycle

HEADER = """From Coq Require Import List Bool String.
Require Import GV.Gen.LifecycleRules GV.Model.Lifecycle GV.Model.LifecycleChk.
Import ListNotations. Open Scope string_scope.
"""
OUT = {"next": "CNext", "retry": "CRetryExceeded", "cannot0": "(CCannotFind 0)", "cannot1": "(CCannotFind 1)", "cannot2": "(CCannotFind 2)", "raise": "CRaise"}


def clabel(l):
    if l[0] == "Pump":
        return "Pump"
    if l[0] == "LocOutcome":
        return "(LocOutcome %s %s)" % (vf.cbool(l[1]), vf.cbool(l[2]))
    if l[0] == "ConnOutcome":
        return "(ConnOutcome %s)" % OUT[l[1]]
    if l[0] == "Ext":
        return "(Ext %s)" % l[1]
    return l[0]


def cdel(d):
    return "(%s, %s, %s, %s)" % (d[0], d[1], vf.cbool(d[2]), vf.cstr(d[3]))


ALL = ([("Pump",), ("LocOutcome", True, False), ("LocOutcome", False, False), ("LocOutcome", False, True)] +
       [("ConnOutcome", o) for o in OUT] + [("UserReset",), ("SetSpaInfo",), ("NotFoundWake",)] + [("Ext", e) for e in lifecycle.EXT])


def gen_walk(rng, n):
    """label sequences biased towards making progress (so that CONNECTED and the error states are actually reached)"""
    out = []
    for _ in range(n):
        r = rng.random()
        if r < 0.30:
            out.append(("ConnOutcome", rng.choice(["next"] * 8 + ["retry", "cannot0", "cannot1", "cannot2", "raise"])))
        elif r < 0.45:
            out.append(("LocOutcome", rng.random() < 0.85, rng.random() < 0.05))
        elif r < 0.52:
            out.append(("Pump",))
        elif r < 0.55:
            out.append(("NotFoundWake",))
        elif r < 0.63:
            out.append(("UserReset",))
        elif r < 0.66:
            out.append(("SetSpaInfo",))
        else:
            out.append(("Ext", rng.choice(lifecycle.EXT)))
    return out


def run(ctx):
    ctx.rule = ("the REAL GeckoAsyncSpaMan (real _handle_event, async_reset, async_locate_spas / async_connect_to_spa / async_connect and the real sequence pump task) under "
                "the virtual-time loop, discovery and the handshake scripted step by step (outcomes: found / none / raises; next / retry exceeded / cannot find x3 / raises), "
                "events of the connection's own tasks, user resets and set-spa-info injected between any two steps; after every label the manager's (state, facade?, spa?, "
                "descriptors?) and every event delivered to the client with (state, facade?, status text) sampled at delivery are compared with the LTS interpreted from the "
                "AST-extracted rule table; random walks (length 40) plus all label sequences of length 3 from three seeds states (thorough: 4); non-trivial = trace that reaches CONNECTED or an error state")
    ctx.prove(timeout=1800)
    rng = ctx.rng
    traces = []
    for k in range(160 if ctx.thorough else 40):
        traces.append((k % 5 != 4, gen_walk(rng, 40)))
    # exhaustive short sequences after a prefix that reaches an interesting state
    to_connected = [("Pump",), ("LocOutcome", True, False), ("LocOutcome", True, False)] + [("ConnOutcome", "next")] * 5
    to_connecting = [("Pump",), ("LocOutcome", True, False), ("LocOutcome", True, False), ("ConnOutcome", "next"), ("ConnOutcome", "next")]
    to_not_found = [("Pump",), ("LocOutcome", True, False), ("LocOutcome", False, False)]
    depth = 3 if ctx.thorough else 2
    for prefix in ([], to_connecting, to_connected, to_not_found):
        for combo in itertools.product(ALL, repeat=depth):
            traces.append((True, prefix + list(combo)))
    exprs, meta = [], []
    for configured, labels in traces:
        enter, out, pump_alive = lifecycle.run_trace(configured, labels)
        steps = []
        reached = set()
        ready, tear = 0, 0
        for (l, applicable, snap, dels) in out:
            steps.append("(%s, %s, (%s, %s, %s, %s), [%s])" % (clabel(l), vf.cbool(applicable), snap[0], vf.cbool(snap[1]), vf.cbool(snap[2]), vf.cbool(snap[3]),
                                                            "; ".join(cdel(d) for d in dels if d[0] != "EXCEPTION")))
            reached.add(snap[0])
            # ---- direct oracle on the implementation
            for d in dels:
                if d[0] == "CLIENT_FACADE_IS_READY":
                    ready += 1
                    if d[1] != "CONNECTED" or not d[2]:
                        ctx.fail("lifecycle:ready", "CLIENT_FACADE_IS_READY delivered in state %s, facade present=%s" % (d[1], d[2]), {"configured": configured, "labels": labels})
                if d[0] == "CLIENT_FACADE_TEARDOWN":
                    tear += 1
                    if not d[2]:
                        ctx.fail("lifecycle:teardown_without_facade", "CLIENT_FACADE_TEARDOWN delivered when manager.facade is already None", {"configured": configured, "labels": labels[:out.index((l, applicable, snap, dels)) + 1]})
                    if tear > ready:
                        ctx.fail("lifecycle:teardown_extra", "more teardowns than facade-ready announcements", {"configured": configured, "labels": labels})
                if d[0] == "EXCEPTION":
                    ctx.count("task_exceptions")
            if snap[0] == "CONNECTED" and not (snap[1] and snap[2]):
                ctx.fail("lifecycle:connected", "CONNECTED without facade / spa", {"configured": configured, "labels": labels})
            if l[0] in ("UserReset", "SetSpaInfo") and (snap[0] not in ("IDLE", "LOCATING_SPAS") or snap[1] or snap[2]):
                ctx.fail("lifecycle:reset", "reset did not land in IDLE with no facade / spa (state %s)" % (snap,), {"configured": configured, "labels": labels})
        exprs.append("chk_lifecycle %s [%s] [%s]" % (vf.cbool(configured), "; ".join(cdel(d) for d in enter), "; ".join(steps)))
        meta.append({"configured": configured, "labels": [clabel(l) for l in labels][:12], "states": sorted(reached), "pump_alive": pump_alive})
        ctx.case((configured, str(labels)), nontrivial=bool(reached & {"CONNECTED", "ERROR_PING_MISSED", "ERROR_RF_FAULT", "ERROR_NEEDS_ATTENTION", "ERROR_SPA_NOT_FOUND"}))
        for s in reached:
            ctx.count("state:" + s)
        ctx.count("labels", len(labels))
    # interleavings INSIDE a handler: two tasks raise teardown-causing events while the client's handler is suspended
    srcs = ["RUNNING_PING_NO_RESPONSE", "ERROR_RF_ERROR", "UserReset"]
    for e1 in srcs:
        for e2 in srcs:
            r = lifecycle.run_concurrent_teardown(e1, e2)
            ctx.count("concurrent_teardown_schedules")
            if r is None:
                continue
            dels, final = r
            ready = sum(1 for d in dels if d[0] == "CLIENT_FACADE_IS_READY")
            tear = sum(1 for d in dels if d[0] == "CLIENT_FACADE_TEARDOWN")
            ctx.case(("concurrent", e1, e2), nontrivial=True)
            if tear > 1 + ready:
                ctx.fail("lifecycle:teardown_twice_concurrent", "CLIENT_FACADE_TEARDOWN announced %d times for one facade-ready: %s raised by one task and, while the client's teardown "
                         "handler was suspended, %s by another" % (tear, e1, e2), {"first": e1, "second": e2, "deliveries": [d[:2] for d in dels]})
    for s in (meta[0], meta[1], meta[-1]):
        ctx.sample(s)
    res = ctx.coq_cases("life", HEADER, exprs, shard=40)
    bad = [m for m, r in zip(meta, res) if r is not True]
    if bad:
        # locate the first step the model rejects (index from 1) for the first disagreeing traces
        idx = [i for i, r in enumerate(res) if r is not True][:3]
        body = HEADER + "".join("Eval vm_compute in (first_reject %s)%s.\n" % (exprs[i].split(" ", 2)[1], " " + exprs[i].split("] [", 1)[1].join(["[", ""]) if False else "") for i in [])
        for i in idx:
            e = exprs[i]
            conf = e.split(" ")[1]
            steps = e[e.index("] [") + 2:]
            rc, out = vf.coqc_text("C08_dbg%d" % i, HEADER + "Eval vm_compute in (first_reject %s %s).\n" % (conf, steps))
            meta[i]["first_rejected_step"] = " ".join(out.split())[-40:]
    ctx.oblige("correspondence:lifecycle_model", not bad, "first disagreements: %r" % (bad[:2],))
    ctx.assume += ["the rule-table extractor (fail-closed) is trusted for the proof side and cross-checked by this behavioural run",
                   "events are processed to quiescence one label at a time: interleavings INSIDE one _handle_event call (a client handler suspended while another task raises an event) are not modelled",
                   "discovery and the spa handshake are scripted (their real behaviour is C15 / C09)"]
