"""C08 - lifecycle follows the state table; ready/teardown well-bracketed."""
import itertools

import vf
from harness import lifecycle, lifecycle_i

HEADER = """From Coq Require Import List Bool String.
Require Import GV.Gen.LifecycleRules GV.Model.Lifecycle GV.Model.LifecycleChk GV.Model.LifecycleI GV.Model.LifecycleIChk.
Import ListNotations. Open Scope string_scope.
"""
OUT = {"next": "CNext", "retry": "CRetryExceeded", "cannot0": "(CCannotFind 0)", "cannot1": "(CCannotFind 1)", "cannot2": "(CCannotFind 2)", "raise": "CRaise"}


def clabel(l):
    if l[0] == "Pump":
        return "Pump"
    if l[0] == "LocOutcome":
        return "(LocOutcome %s %s)" % (vf.cbool(l[1]), vf.cbool(l[2]))
    if l[0] == "ConnOutcome":
        return "(ConnOutcome %s)" % OUT[l[1]]
    if l[0] == "Ext":
        return "(Ext %s)" % l[1]
    return l[0]


def cdel(d):
    return "(%s, %s, %s, %s)" % (d[0], d[1], vf.cbool(d[2]), vf.cstr(d[3]))


def ilabel(l):
    return "(LResume S%s)" % l[1] if l[0] == "Resume" else "(LBig %s)" % clabel(l)


def cobs(snap, occ, sep=", "):
    return "(%s, %s, %s, %s)%s(%s, %s, %s)" % (snap[0], vf.cbool(snap[1]), vf.cbool(snap[2]), vf.cbool(snap[3]), sep, vf.cbool(occ[0]), vf.cbool(occ[1]), vf.cbool(occ[2]))


def ischedule_expr(configured, enter, first, snap0, occ0, out):
    steps = ["(%s, %s, %s, [%s])" % (ilabel(l), vf.cbool(app), cobs(snap, occ), "; ".join(cdel(d) for d in dels)) for (l, app, snap, dels, occ, exc, *_) in out]
    return "chk_ischedule %s [%s] [%s] %s [%s]" % (vf.cbool(configured), "; ".join(cdel(d) for d in enter), "; ".join(cdel(d) for d in first), cobs(snap0, occ0, " "), "; ".join(steps))


R = lambda s: ("Resume", s)   # noqa: E731
# finding K10 as a schedule of the harness (the pump's polls happen by themselves): see Proofs/LifecycleIP.w_k10
W_K10 = [R("P"), ("LocOutcome", False, False), R("P"), R("P"), ("LocOutcome", True, False), R("P"), R("P"), R("P"), ("ConnOutcome", "raise"), R("P"),
         ("UserReset",), R("P"), R("P"), ("LocOutcome", True, False), R("U"), R("P"), ("Pump",), ("Pump",)]


def interleaved(ctx):
    """schedules of bursts on the real manager with the client's handler suspended at every delivery"""
    exprs, metas = [], []
    n = 160 if ctx.thorough else 40
    runs = [("adaptive", k % 4 != 3, None) for k in range(n)] + [("k10", True, W_K10)]
    for kind, configured, fixed in runs:
        if fixed is None:
            enter, (first, snap0, occ0), out, alive = lifecycle_i.run_adaptive(configured, ctx.rng, 80 if ctx.thorough else 60, warm=(len(exprs) % 2 == 1 and configured))
        else:
            enter, (first, snap0, occ0), out, alive = lifecycle_i.run_schedule(configured, fixed)
        exprs.append(ischedule_expr(configured, enter, first, snap0, occ0, out))
        labels = [l for (l, app, snap, dels, occ, exc, *_) in out if app]
        reached, conc, ready_open = set(), 0, False
        iopen = {"LOCATING": any(d[0] == "LOCATING_STARTED" for d in first), "CONNECTION": False}
        prev_occ = occ0
        prev_state, ping_reset = snap0[0], False
        for j, (l, app, snap, dels, occ, exc, *_) in enumerate(out):
            if not app:
                continue
            hist = [x[0] for x in out[:j + 1] if x[1]]
            reached.add(snap[0])
            conc += sum(occ) >= 2
            ctx.count("ischedule_steps")
            for d in dels:
                for ph in iopen:
                    if d[0] == ph + "_STARTED":
                        if iopen[ph]:
                            ctx.fail("lifecycle:phase_not_closed:" + ph, "%s_STARTED delivered while the previous %s phase never got its %s_FINISHED (interleaved schedule)" % (ph, ph, ph),
                                     {"configured": configured, "schedule": hist})
                        iopen[ph] = True
                    elif d[0] == ph + "_FINISHED":
                        iopen[ph] = False
                if d[0] == "CLIENT_FACADE_IS_READY":
                    if d[1] != "CONNECTED" or not d[2]:
                        ctx.fail("lifecycle:ready", "CLIENT_FACADE_IS_READY delivered in state %s, facade present=%s (interleaved schedule)" % (d[1], d[2]), {"configured": configured, "schedule": hist})
                    ready_open = True
                if d[0] == "CLIENT_FACADE_TEARDOWN":
                    if not d[2]:
                        ctx.fail("lifecycle:teardown_without_facade", "CLIENT_FACADE_TEARDOWN delivered when manager.facade is already None (interleaved schedule)", {"configured": configured, "schedule": hist})
                    if not ready_open:
                        ctx.fail("lifecycle:teardown_extra", "CLIENT_FACADE_TEARDOWN announced twice for one facade-ready (interleaved schedule)", {"configured": configured, "schedule": hist})
                    ready_open = False
            if snap[0] == "CONNECTED" and not (snap[1] and snap[2]):
                ctx.fail("lifecycle:connected", "CONNECTED without facade / spa (interleaved schedule)", {"configured": configured, "schedule": hist})
            for who, what in exc:
                ctx.fail("lifecycle:task_died", "task %s died inside the manager: %s" % (who, what), {"configured": configured, "schedule": hist})
            # the reset a ping answer starts in an error state runs on a task of the connection: when that task is gone the reset must have
            # got at least as far as disconnecting the spa (it may only die in a handler AFTER that)
            if l == ("Ext", "RUNNING_PING_RECEIVED") and prev_state in ("ERROR_PING_MISSED", "ERROR_RF_FAULT", "ERROR_NEEDS_ATTENTION"):
                ping_reset = True
            if ping_reset and prev_occ[1] and not occ[1]:
                ping_reset = False
                if snap[0] in ("ERROR_PING_MISSED", "ERROR_RF_FAULT", "ERROR_NEEDS_ATTENTION") and snap[2] and not occ[2]:
                    ctx.fail("lifecycle:reset_abandoned", "the reset started by a ping answered in %s was abandoned: its task is gone, the manager is still in %s with the spa in place" % (snap[0], snap[0]),
                             {"configured": configured, "schedule": hist})
            # the pump has polled (three times during the settle), nobody is inside the manager: IDLE with descriptors in place is a state no
            # branch of the pump leaves (theorem no_stuck_idle says no schedule reaches it)
            if _ and _[-1] is True:
                ctx.fail("lifecycle:stuck_idle_with_descriptors", "the manager sits in IDLE with descriptors in place, nobody is inside it and the pump polls without doing anything (stuck until the next reset): "
                         "after %r, step %d of an interleaved schedule" % (l, j + 1), {"configured": configured, "schedule": hist})
            prev_state = snap[0]
            # a user reset / set-spa-info that has just returned: IDLE with no facade, spa or descriptors?
            if prev_occ[2] and not occ[2] and l == ("Resume", "U") and (snap[1] or snap[2] or snap[3]):
                ctx.fail("lifecycle:reset_not_clean_concurrent", "async_reset returned with (state, facade?, spa?, descriptors?) = %r: while its RUNNING_SPA_DISCONNECTED handler was suspended "
                         "another task went on (the pump finished its own reset and discovered / connected again)" % (snap,), {"configured": configured, "schedule": hist})
            prev_occ = occ
        if kind == "k10":
            snap = out[-1][2]
            ctx.count("k10_witness_replayed")
            if snap[0] == "IDLE" and snap[3] and not any(out[-1][4]):
                ctx.fail("lifecycle:reset_not_clean_concurrent", "after the schedule of finding K10 the manager sits in IDLE with descriptors present and the pump polls without doing anything (stuck until the next reset)",
                         {"configured": True, "schedule": [x[0] for x in out]})
        metas.append({"kind": kind, "configured": configured, "steps": len(labels), "states": sorted(reached), "steps_with_two_tasks_inside": conc})
        ctx.case(("ischedule", kind, str(labels)), nontrivial=conc > 0 and bool(reached & {"CONNECTED", "CONNECTING", "ERROR_NEEDS_ATTENTION", "ERROR_PING_MISSED", "ERROR_RF_FAULT"}))
        for st in reached:
            ctx.count("istate:" + st)
        ctx.count("isteps_with_two_tasks_inside", conc)
    res = ctx.coq_cases("lifei", HEADER, ["Nat.eqb (%s) 0" % e for e in exprs], shard=8)
    bad = [i for i, r in enumerate(res) if r is not True]
    detail = ""
    if bad:
        i = bad[0]
        rc, out = vf.coqc_text("C08_idbg", HEADER + "Eval vm_compute in (%s).\n" % exprs[i])
        detail = "schedule %d (%s): first rejected step (index+1, 1000/1001 = entry) %s" % (i, metas[i]["kind"], " ".join(out.split())[-40:])
        metas[i]["first_rejected"] = detail
        ctx.extra["rejected_schedule"] = {"detail": detail, "expr_head": exprs[i][:300]}
    ctx.oblige("correspondence:interleaved_lifecycle_model", not bad, detail)
    for m in metas[:2] + metas[-1:]:
        ctx.sample(m)


ALL = ([("Pump",), ("LocOutcome", True, False), ("LocOutcome", False, False), ("LocOutcome", False, True)] +
       [("ConnOutcome", o) for o in OUT] + [("UserReset",), ("SetSpaInfo",), ("NotFoundWake",)] + [("Ext", e) for e in lifecycle.EXT])


def gen_walk(rng, n):
    """label sequences biased towards making progress (so that CONNECTED and the error states are actually reached)"""
    out = []
    for _ in range(n):
        r = rng.random()
        if r < 0.30:
            out.append(("ConnOutcome", rng.choice(["next"] * 8 + ["retry", "cannot0", "cannot1", "cannot2", "raise"])))
        elif r < 0.45:
            out.append(("LocOutcome", rng.random() < 0.85, rng.random() < 0.05))
        elif r < 0.52:
            out.append(("Pump",))
        elif r < 0.55:
            out.append(("NotFoundWake",))
        elif r < 0.63:
            out.append(("UserReset",))
        elif r < 0.66:
            out.append(("SetSpaInfo",))
        else:
            out.append(("Ext", rng.choice(lifecycle.EXT)))
    return out


def run(ctx):
    ctx.rule = ("the REAL GeckoAsyncSpaMan (real _handle_event, async_reset, async_locate_spas / async_connect_to_spa / async_connect and the real sequence pump task) under "
                "the virtual-time loop, discovery and the handshake scripted step by step (outcomes: found / none / raises; next / retry exceeded / cannot find x3 / raises), "
                "events of the connection's own tasks, user resets and set-spa-info injected between any two steps; after every label the manager's (state, facade?, spa?, "
                "descriptors?) and every event delivered to the client with (state, facade?, status text) sampled at delivery are compared with the LTS interpreted from the "
                "AST-extracted rule table; INTERLEAVED schedules (the client's handler suspended at every delivery; pump, one connection task and one user task resumed one burst at a time, chosen adaptively among what can happen plus 8% that cannot) accepted step by step by the small-step machine Model/LifecycleI.v; random walks (length 40) plus all label sequences of length 3 from three seeds states (thorough: 4); non-trivial = trace that reaches CONNECTED or an error state")
    ctx.prove(timeout=1800)
    rng = ctx.rng
    traces = []
    for k in range(160 if ctx.thorough else 40):
        traces.append((k % 5 != 4, gen_walk(rng, 40)))
    # exhaustive short sequences after a prefix that reaches an interesting state
    to_connected = [("Pump",), ("LocOutcome", True, False), ("LocOutcome", True, False)] + [("ConnOutcome", "next")] * 5
    to_connecting = [("Pump",), ("LocOutcome", True, False), ("LocOutcome", True, False), ("ConnOutcome", "next"), ("ConnOutcome", "next")]
    to_not_found = [("Pump",), ("LocOutcome", True, False), ("LocOutcome", False, False)]
    depth = 3 if ctx.thorough else 2
    for prefix in ([], to_connecting, to_connected, to_not_found):
        for combo in itertools.product(ALL, repeat=depth):
            traces.append((True, prefix + list(combo)))
    exprs, meta = [], []
    for configured, labels in traces:
        try:
            enter, out, pump_alive = lifecycle.run_trace(configured, labels)
        except RuntimeError as e:
            if "deadlock" not in str(e):
                raise
            # nothing is scheduled any more although the script has labels left: a task of the manager the rig waits for is gone
            for cut in range(1, len(labels) + 1):
                try:
                    lifecycle.run_trace(configured, labels[:cut])
                except RuntimeError:
                    break
            ctx.fail("lifecycle:manager_stops", "the manager stops dead (no task left to run) during the label sequence", {"configured": configured, "labels": labels[:cut]})
            continue
        steps = []
        reached = set()
        ready, tear = 0, 0
        open_phase = {"LOCATING": False, "CONNECTION": False}
        for (l, applicable, snap, dels) in out:
            for d in dels:
                for ph in open_phase:
                    if d[0] == ph + "_STARTED":
                        if open_phase[ph]:
                            ctx.fail("lifecycle:phase_not_closed:" + ph, "%s_STARTED delivered while the previous %s phase never got its %s_FINISHED" % (ph, ph, ph),
                                     {"configured": configured, "labels": labels[:len(steps) + 1]})
                        open_phase[ph] = True
                    elif d[0] == ph + "_FINISHED":
                        open_phase[ph] = False
            steps.append("(%s, %s, (%s, %s, %s, %s), [%s])" % (clabel(l), vf.cbool(applicable), snap[0], vf.cbool(snap[1]), vf.cbool(snap[2]), vf.cbool(snap[3]),
                                                            "; ".join(cdel(d) for d in dels if d[0] != "EXCEPTION")))
            reached.add(snap[0])
            # ---- direct oracle on the implementation
            for d in dels:
                if d[0] == "CLIENT_FACADE_IS_READY":
                    ready += 1
                    if d[1] != "CONNECTED" or not d[2]:
                        ctx.fail("lifecycle:ready", "CLIENT_FACADE_IS_READY delivered in state %s, facade present=%s" % (d[1], d[2]), {"configured": configured, "labels": labels})
                if d[0] == "CLIENT_FACADE_TEARDOWN":
                    tear += 1
                    if not d[2]:
                        ctx.fail("lifecycle:teardown_without_facade", "CLIENT_FACADE_TEARDOWN delivered when manager.facade is already None", {"configured": configured, "labels": labels[:out.index((l, applicable, snap, dels)) + 1]})
                    if tear > ready:
                        ctx.fail("lifecycle:teardown_extra", "more teardowns than facade-ready announcements", {"configured": configured, "labels": labels})
                if d[0] == "EXCEPTION":
                    ctx.count("task_exceptions")
            if snap[0] == "CONNECTED" and not (snap[1] and snap[2]):
                ctx.fail("lifecycle:connected", "CONNECTED without facade / spa", {"configured": configured, "labels": labels})
            if l[0] in ("UserReset", "SetSpaInfo") and (snap[0] not in ("IDLE", "LOCATING_SPAS") or snap[1] or snap[2]):
                ctx.fail("lifecycle:reset", "reset did not land in IDLE with no facade / spa (state %s)" % (snap,), {"configured": configured, "labels": labels})
        exprs.append("chk_lifecycle %s [%s] [%s]" % (vf.cbool(configured), "; ".join(cdel(d) for d in enter), "; ".join(steps)))
        meta.append({"configured": configured, "labels": [clabel(l) for l in labels][:12], "states": sorted(reached), "pump_alive": pump_alive})
        ctx.case((configured, str(labels)), nontrivial=bool(reached & {"CONNECTED", "ERROR_PING_MISSED", "ERROR_RF_FAULT", "ERROR_NEEDS_ATTENTION", "ERROR_SPA_NOT_FOUND"}))
        for s in reached:
            ctx.count("state:" + s)
        ctx.count("labels", len(labels))
    # interleavings INSIDE a handler: two tasks raise teardown-causing events while the client's handler is suspended
    srcs = ["RUNNING_PING_NO_RESPONSE", "ERROR_RF_ERROR", "UserReset"]
    for e1 in srcs:
        for e2 in srcs:
            r = lifecycle.run_concurrent_teardown(e1, e2)
            ctx.count("concurrent_teardown_schedules")
            if r is None:
                continue
            dels, final = r
            ready = sum(1 for d in dels if d[0] == "CLIENT_FACADE_IS_READY")
            tear = sum(1 for d in dels if d[0] == "CLIENT_FACADE_TEARDOWN")
            ctx.case(("concurrent", e1, e2), nontrivial=True)
            if tear > 1 + ready:
                ctx.fail("lifecycle:teardown_twice_concurrent", "CLIENT_FACADE_TEARDOWN announced %d times for one facade-ready: %s raised by one task and, while the client's teardown "
                         "handler was suspended, %s by another" % (tear, e1, e2), {"first": e1, "second": e2, "deliveries": [d[:2] for d in dels]})
    for s in (meta[0], meta[1], meta[-1]):
        ctx.sample(s)
    interleaved(ctx)
    res = ctx.coq_cases("life", HEADER, exprs, shard=40)
    bad = [m for m, r in zip(meta, res) if r is not True]
    if bad:
        # locate the first step the model rejects (index from 1) for the first disagreeing traces
        idx = [i for i, r in enumerate(res) if r is not True][:3]
        body = HEADER + "".join("Eval vm_compute in (first_reject %s)%s.\n" % (exprs[i].split(" ", 2)[1], " " + exprs[i].split("] [", 1)[1].join(["[", ""]) if False else "") for i in [])
        for i in idx:
            e = exprs[i]
            conf = e.split(" ")[1]
            steps = e[e.index("] [") + 2:]
            rc, out = vf.coqc_text("C08_dbg%d" % i, HEADER + "Eval vm_compute in (first_reject %s %s).\n" % (conf, steps))
            meta[i]["first_rejected_step"] = " ".join(out.split())[-40:]
    ctx.oblige("correspondence:lifecycle_model", not bad, "first disagreements: %r" % (bad[:2],))
    ctx.assume += ["the rule-table extractor (fail-closed) is trusted for the proof side and cross-checked by this behavioural run",
                   "interleavings: at most one task of the connection and one user task inside the manager besides the pump (Model/LifecycleI.v); the client's handler is the only suspension point inside _handle_event / async_reset (the facade's disconnect and the watercare query of the harness do not suspend)",
                   "discovery and the spa handshake are scripted (their real behaviour is C15 / C09)"]
