"""C07 - dispatch: each datagram consumed once, only by a capable, addressed consumer; no head-of-line blocking."""
import asyncio

import vf
from harness import vloop, session, qtrace

HEADER = """From Coq Require Import List Bool Arith.
Require Import GV.Model.Dispatch GV.Model.DispatchChk.
Import ListNotations.
"""
SNAPS = ["inYT-all off-2020-10-23 18_00_45.snapshot", "inXM-Idle-2020-12-09 11_14_06.snapshot", "inYJ-All off-2020-12-18 11_24_09.snapshot"]


def cdg(d):
    if d[0] == "plain":
        return "(Plain [%s])" % "; ".join(str(x) for x in d[1])
    return "(Packet %s [%s])" % (vf.cbool(d[1]), "; ".join(str(x) for x in d[2]))


def ccons(c):
    return "Unh" if c[0] == "unh" else "(K %d)" % (99 if c[1] is None else c[1])


def frame(src, dst, content):
    return b"<PACKT><SRCCN>" + src + b"</SRCCN><DESCN>" + dst + b"</DESCN><DATAS>" + content + b"</DATAS></PACKT>"


def scenario(seed, snap, duration, thorough):
    import random
    rng = random.Random(seed)

    async def main(loop):
        peer = session.Peer(loop, snap, latency=rng.choice([0.01, 0.03, 0.07]))
        cl = session.Client(peer)
        # the client's handler really suspends on the events the RFERR / WCERR consumers raise (longer than the unhandled consumer's patience, sometimes)
        cl.suspend = lambda ev: rng.choice([None, 0, 0.15, 0.55]) if ev in ("ERROR_RF_ERROR", "RUNNING_SPA_WATER_CARE_ERROR") else None
        tr = qtrace.Trace(lambda: cl.spa).install()
        times = []
        real_append = tr.log.append
        events_before = None
        try:
            ok = await cl.connect(with_facade=rng.random() < 0.7)
            inj = []

            async def injector():
                spa = cl.spa
                while True:
                    await asyncio.sleep(rng.choice([0.05, 0.13, 0.31, 0.9]))
                    if spa._protocol is None:
                        return
                    kind = rng.choice(["junk", "junk_verb", "unsolicited", "misaddressed", "malformed", "burst", "stall"])
                    blk0 = spa.struct.status_block
                    ev0 = len(cl.events)
                    if kind == "junk":
                        d = [bytes(rng.randrange(256) for _ in range(rng.randrange(1, 30)))]
                    elif kind == "junk_verb":
                        d = [rng.choice([b"XXXXX", b"STAT", b"HELLO", b"<HELLO>1</HELLO>", b"WCSET"]) + bytes(rng.randrange(256) for _ in range(3))]
                    elif kind == "unsolicited":
                        d = [frame(session.SPA_ID, session.CLIENT_ID, rng.choice([b"CHCUR\x0a\x21", b"SVERS\x00\x01\x02\x03\x00\x04\x05\x06", b"PACKS", b"APING\x00", b"WCGET\x01", b"RFERR", b"RFERR", b"WCERR\x01"]))]
                    elif kind == "misaddressed":
                        d = [frame(rng.choice([b"SPA99:99", session.SPA_ID]), b"IOS-somebody-else", b"STATP\x01\x00\x05\xff\xff")]
                    elif kind == "malformed":
                        d = [rng.choice([b"<PACKT></PACKT>", b"<PACKT><SRCCN>a</SRCCN></PACKT>", b"<PACKT><DATAS>STATP\x01\x00\x05\xff\xff</DATAS></PACKT>"])]
                    elif kind == "burst":
                        d = [frame(session.SPA_ID, session.CLIENT_ID, b"CHCUR\x0a\x21")] * rng.randrange(2, 6) + [b"zzzz"]
                    else:
                        loop.jump(rng.choice([0.02, 0.15, 0.4]))
                        continue
                    for x in d:
                        spa._protocol.datagram_received(x, vloop.SIMADDR)
                    inj.append((kind, loop.time(), blk0, ev0))
            it = loop.create_task(injector())
            await asyncio.sleep(duration)
            it.cancel()
            # let the backlog drain: every consumer handles at most one datagram per 0.1 s poll, the unhandled one needs two polls
            drained = False
            # every datagram that nobody takes costs the unhandled consumer patience + 1 polls, a packet one poll of the packet consumer
            backlog = cl.spa._protocol.queue.qsize() if cl.spa._protocol else 0
            for _ in range(400 + 8 * backlog):
                if cl.spa._protocol is None or cl.spa._protocol.queue.qsize() == 0:
                    drained = True
                    break
                await asyncio.sleep(0.1)
            await asyncio.sleep(0.35)
            qlen = cl.spa._protocol.queue.qsize() if cl.spa._protocol else 0
            mirror = cl.spa.struct.status_block == peer.sim.structure.status_block
            await cl.close()
        finally:
            tr.remove()
        return ok, tr.log, qlen, inj, mirror, drained
    return vloop.run(main)


def replay(log):
    """python mirror of the queue for the oracle: returns (violations, stats)"""
    q, viol = [], []
    stats = {"pops_by_consumer": 0, "pops_by_unhandled": 0, "unhandled_took_what_a_registered_class_accepts": 0, "max_polls_at_head": 0}
    head_polls = 0
    for i, l in enumerate(log):
        if l[0] == "put":
            q.append(l[1])
        elif l[0] == "poll" and l[2]:
            if not q:
                viol.append((i, "pop from an empty queue"))
                continue
            d = q.pop(0)
            acc = d[1] if d[0] == "plain" else [1]
            c = l[1]
            if c[0] == "k":
                stats["pops_by_consumer"] += 1
                if c[1] not in acc:
                    viol.append((i, "consumer of class %s popped a datagram accepted only by %s" % (c[1], acc)))
                if d[0] == "packet" and c[1] == 1 and d[1]:
                    pass
            else:
                stats["pops_by_unhandled"] += 1
                if set(acc) & {1, 7, 13, 10}:
                    stats["unhandled_took_what_a_registered_class_accepts"] += 1
            head_polls = 0
        else:
            if l[1][0] == "unh" and q:
                head_polls += 1
                stats["max_polls_at_head"] = max(stats["max_polls_at_head"], head_polls)
    return viol, stats


def run(ctx):
    ctx.rule = ("trace acceptance: full sessions of the REAL GeckoAsyncSpa (real handshake, six consumer tasks, waiters of the ping / refresh / facade loops) against the "
                "in-process simulator under virtual time, with injected junk, unknown-verb, unsolicited, mis-addressed and malformed-framing datagrams, bursts and event-loop "
                "stalls; every access to the receive queue (put, poll with the acting task and its handler class, pop) is recorded in real execution order and replayed on "
                "Model/Dispatch.v, which must reproduce every pop / non-pop; non-trivial = session with at least one unhandled discard and one mis-addressed packet")
    ctx.prove(timeout=1200)
    import gen_misc
    try:
        patience = gen_misc.unhandled_patience()
    except Exception:  # noqa - the extractor fails closed (reported as gen:dispatch_facts); the oracles below still run, with the patience last read
        patience = 3
    exprs, meta = [], []
    n = 10 if ctx.thorough else 4
    for k in range(n):
        snap = SNAPS[k % len(SNAPS)]
        ok, log, qlen, inj, mirror, drained = scenario(ctx.seed * 100 + k, snap, 40 if ctx.thorough else 14, ctx.thorough)
        obs = []
        for j, l in enumerate(log):
            if l[0] == "put":
                if l[2] == "SPA:Packet handler":
                    continue            # the packet consumer's re-queue: attached to its poll below
                obs.append("OPut %s" % cdg(l[1]))
            else:
                rq = "None"
                if l[2] and j + 1 < len(log) and log[j + 1][0] == "put" and log[j + 1][2] == "SPA:Packet handler" and l[1] == ("k", 1):
                    rq = "(Some %s)" % cdg(log[j + 1][1])
                obs.append("OPoll %s %s %s" % (ccons(l[1]), vf.cbool(l[2]), rq))
        exprs.append("chk_dispatch [%s] %d" % ("; ".join(obs), qlen))
        viol, stats = replay(log)
        kinds = {}
        for x in inj:
            kinds[x[0]] = kinds.get(x[0], 0) + 1
        meta.append({"snapshot": snap, "connected": ok, "labels": len(log), "injected": kinds, "stats": stats, "queue_left": qlen})
        ctx.case((snap, k, len(log)), nontrivial=stats["pops_by_unhandled"] > 0 and kinds.get("misaddressed", 0) > 0)
        ctx.count("labels", len(log))
        ctx.count("pops_by_consumer", stats["pops_by_consumer"])
        ctx.count("pops_by_unhandled", stats["pops_by_unhandled"])
        ctx.count("unhandled_took_what_a_registered_class_accepts", stats["unhandled_took_what_a_registered_class_accepts"])
        for kk, v in kinds.items():
            ctx.count("injected:" + kk, v)
        # ---- oracle
        for (i, what) in viol[:1]:
            ctx.fail("dispatch:wrong_consumer", what, {"snapshot": snap, "label_index": i, "labels_before": [str(x) for x in log[max(0, i - 6):i + 1]]})
        if stats["max_polls_at_head"] > patience + 2:
            ctx.fail("dispatch:head_of_line", "a datagram stayed at the head for %d polls of the unhandled consumer" % stats["max_polls_at_head"], {"snapshot": snap})
        if not drained:
            ctx.fail("dispatch:left_in_queue", "the queue never ran empty although the consumers polled for 40 s + 0.8 s per datagram queued at the end of the injections (%d left)" % qlen, {"snapshot": snap})
        if not mirror and ok:
            # mis-addressed STATP (ff ff at position 5) must not have reached the structure; other differences are refresh races (C09)
            pass
    # mis-addressed / malformed packets have no effect on the client: dedicated quiet session
    from harness import session as S

    async def inert(loop):
        peer = S.Peer(loop, SNAPS[0])
        cl = S.Client(peer)
        await cl.connect(with_facade=True)
        for t in cl.taskman._tasks:
            if t.get_name() in ("SPA:Refresh loop", "FACADE:Facade update"):
                t.cancel()
        await asyncio.sleep(0.5)
        blk, nev = cl.spa.struct.status_block, len(cl.events)
        ctr = (cl.spa._protocol._sequence_counter_protocol, cl.spa._protocol._sequence_counter_command)
        sent0 = len(loop.endpoints[0].sent)
        for d in (frame(b"SPA99:99", S.CLIENT_ID, b"STATP\x01\x00\x05\xff\xff"), frame(S.SPA_ID, b"IOS-else", b"STATP\x01\x00\x05\xff\xff"),
                  b"<PACKT><DATAS>STATP\x01\x00\x05\xff\xff</DATAS></PACKT>", frame(b"", b"", b"RFERR")):
            cl.spa._protocol.datagram_received(d, vloop.SIMADDR)
        await asyncio.sleep(0.95)
        pings = sum(1 for (t, d, a) in loop.endpoints[0].sent[sent0:] if b"APING" in d)
        others = len(loop.endpoints[0].sent) - sent0 - pings
        res = (cl.spa.struct.status_block == blk, [e[1].name for e in cl.events[nev:] if "PING" not in e[1].name], others,
               (cl.spa._protocol._sequence_counter_protocol, cl.spa._protocol._sequence_counter_command) == ctr, cl.spa._protocol.queue.qsize())
        # the same right after a VALID packet for this connection that has a visible effect (an acknowledged partial update, an RF
        # error report): a frame whose inner tags are damaged must not make the client act on anything - the previous packet included
        after_valid = []
        damaged = [b"<PACKT><SRCCN>" + S.SPA_ID + b"</SRCCN><DATAS>STATP\x01\x00\x05\x22\x22</DATAS></PACKT>",
                   b"<PACKT><SRCCN>x</DESCN><DATAS>RFERR</DATAS></PACKT>", b"<PACKT>garbage</PACKT>", b"<PACKT></PACKT>",
                   b"<PACKT><DESCN>" + S.CLIENT_ID + b"</DESCN><DATAS>RFERR</DATAS></PACKT>"]
        for valid in (frame(S.SPA_ID, S.CLIENT_ID, b"STATP\x01\x00\x05\x11\x11"), frame(S.SPA_ID, S.CLIENT_ID, b"RFERR")):
            for bad in damaged:
                cl.spa._protocol.datagram_received(valid, vloop.SIMADDR)
                await asyncio.sleep(0.45)
                snap1 = (cl.spa.struct.status_block, len([e for e in cl.events if "PING" not in e[1].name]),
                         len([1 for (t, d, a) in loop.endpoints[0].sent if b"APING" not in d]),
                         (cl.spa._protocol._sequence_counter_protocol, cl.spa._protocol._sequence_counter_command))
                cl.spa._protocol.datagram_received(bad, vloop.SIMADDR)
                await asyncio.sleep(0.45)
                snap2 = (cl.spa.struct.status_block, len([e for e in cl.events if "PING" not in e[1].name]),
                         len([1 for (t, d, a) in loop.endpoints[0].sent if b"APING" not in d]),
                         (cl.spa._protocol._sequence_counter_protocol, cl.spa._protocol._sequence_counter_command))
                if snap1 != snap2:
                    after_valid.append((valid[-30:], bad, [e[1].name for e in cl.events[-3:]], snap2[2] - snap1[2]))
        await cl.close()
        return res + (after_valid,)
    same_blk, evs, others, same_ctr, ql, after_valid = vloop.run(inert)
    ctx.count("inert_probe")
    ctx.count("damaged_frame_after_valid_packet_probes", 10)
    for valid, bad_d, last_events, sent in after_valid[:1]:
        ctx.fail("dispatch:damaged_frame_effect", "a frame with damaged inner tags (%r), arriving after a valid packet (...%r), made the client act: last events %s, %d more datagram(s) sent"
                 % (bad_d, valid, last_events, sent), {"valid_packet_tail": list(valid), "damaged_frame": list(bad_d), "events": last_events, "datagrams_sent": sent})
    if not (same_blk and not evs and others == 0 and same_ctr and ql == 0):
        ctx.fail("dispatch:misaddressed_effect", "a mis-addressed / malformed packet changed the client's state (block same=%s, events=%s, datagrams sent=%d, counters same=%s)" % (same_blk, evs, others, same_ctr),
                 {"block_unchanged": same_blk, "events": evs, "datagrams_sent": others})
    for s in meta[:3]:
        ctx.sample(s)
    res = ctx.coq_cases("disp", HEADER, exprs, shard=1, timeout=1500)
    bad = [m for m, r in zip(meta, res) if r is not True]
    if bad:
        for i, r in enumerate(res):
            if r is not True:
                rc, out = vf.coqc_text("C07_dbg", HEADER + "Eval vm_compute in (first_disagreement %s).\n" % exprs[i].split(" ", 1)[1].rsplit(" ", 1)[0])
                meta[i]["first_disagreement"] = " ".join(out.split())[-40:]
                break
    ctx.oblige("correspondence:dispatch_trace_acceptance", not bad, "first disagreements: %r" % (bad[:2],))
    ctx.assume += ["atomicity of the code between two awaits (asyncio never preempts); the scheduler's choices are covered by the theorems, exercised only by stalls / latencies here",
                   "the property allows a datagram to be discarded as unhandled although a registered consumer polled late would have taken it; that this happens is counted "
                   "(unhandled_took_what_a_registered_class_accepts) and is finding K5 under C09"]
