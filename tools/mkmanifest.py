"""Writes /verif/MANIFEST.json from the table below (kept next to the code so it stays in step)."""
import json, os
ROOT = os.path.dirname(os.path.dirname(os.path.abspath(__file__)))

CLAIMED = {
 "C16": dict(
   text="Machine-checked proof (Coq 8.16.1) over the Gallina translation of both get_and_increment_sequence_counter bodies, regenerated from the Python AST on every run: for every interleaving of request kinds the i-th value is the k-th of its own cycle (1..191 / 192..255), never 0, both classes equal; the call-site table (every call with its literal flag and the factory it feeds) is regenerated and proved to use the right range. Correspondence: every reachable counter state x both kinds x both classes (thorough: all 256x256) plus random call lists, evaluated by vm_compute against the real methods.",
   note="Trusted: Coq kernel + vm_compute; the 100-line AST translator (cross-checked exhaustively against the real methods on every run); call sites found syntactically; the threaded lock is an AST fact, real threads are exercised only as supporting evidence. All theorems: Closed under the global context.",
   technique="Rocq proof by induction over call lists on AST-translated model + exhaustive vm_compute correspondence",
   design="3/C16"),
}

REASON_PENDING = "check not built yet in this round (model and correspondence under construction; see DESIGN.md section 8)"

def main():
    props = [json.loads(l)["id"] for l in open(os.path.join(ROOT, "properties.jsonl"))]
    checks = []
    for pid in props:
        if pid not in CLAIMED:
            continue
        c = CLAIMED[pid]
        checks.append({
            "property_id": pid,
            "quick_cmd": "./check %s --tier quick" % pid,
            "thorough_cmd": "./check %s --tier thorough" % pid,
            "evidence_file": "/verif/evidence/%s.json" % pid,
            "replay_cmd_template": "./check %s --replay {path}" % pid,
            "engine": "rocq",
            "level_claimed": {"category": "proof", "text": c["text"], "design_ref": c["design"]},
            "level_note": c["note"],
            "technique": c["technique"],
        })
    m = {
        "version": 1,
        "setup_cmd": "./check --setup",
        "hooks": {"guard": "GECKOLIB_VERIF", "enable": "no source hooks: all observation points are wrapped from the harness process; checks export GECKOLIB_VERIF=1 for uniformity",
                  "baseline_off_cmd": "cd /repo && /venv/bin/python -m pytest -ra -q -p no:cacheprovider --timeout=900 --continue-on-collection-errors",
                  "source_commits": [], "add_only": True},
        "engines": [{"name": "rocq", "path": "/verif/coq", "serves_properties": sorted(CLAIMED),
                     "kind_free_text": "Coq 8.16.1 development (Lib/Model/Proofs/Props, Gen regenerated from /repo on every run) + Python correspondence drivers in tools/props"}],
        "checks": checks,
        "not_applicable": [{"property_id": p, "reason": REASON_PENDING} for p in props if p not in CLAIMED],
        "notes": "Every check: regenerate coq/Gen from /repo's working tree, full .vo build of Props/<id>.vo, Print Assumptions, correspondence of model vs implementation via vm_compute, oracle search for a concrete failing input. Fix commits in /repo are recorded in known_findings.json.",
    }
    with open(os.path.join(ROOT, "MANIFEST.json"), "w") as f:
        json.dump(m, f, indent=1)

main()
