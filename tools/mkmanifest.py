"""Writes /verif/MANIFEST.json from the table below (kept next to the code so it stays in step)."""
import json, os
ROOT = os.path.dirname(os.path.dirname(os.path.abspath(__file__)))

CLAIMED = {
 "C16": dict(
   text="Machine-checked proof (Coq 8.16.1) over the Gallina translation of both get_and_increment_sequence_counter bodies, regenerated from the Python AST on every run: for every interleaving of request kinds the i-th value is the k-th of its own cycle (1..191 / 192..255), never 0, both classes equal; the call-site table (every call with its literal flag and the factory it feeds) is regenerated and proved to use the right range. Correspondence: every reachable counter state x both kinds x both classes (thorough: all 256x256) plus random call lists, evaluated by vm_compute against the real methods.",
   note="Trusted: Coq kernel + vm_compute; the 100-line AST translator (cross-checked exhaustively against the real methods on every run); call sites found syntactically; the threaded lock is an AST fact, real threads are exercised only as supporting evidence. All theorems: Closed under the global context.",
   technique="Rocq proof by induction over call lists on AST-translated model + exhaustive vm_compute correspondence",
   design="3/C16"),
 "C02": dict(
   text="Machine-checked proof over a hand-written executable model of GeckoStructAccessor (derivation of length/format/mask, raw read, decode, encode, read-modify-write, device write applied to a block): for ANY block, field geometry and value, write-then-read returns the value, every byte outside the item and every bit of its word outside [bitpos,bitpos+width) is unchanged, read-only items refuse, string forms give the same write; instantiated for every item of all 151 regenerated cfg/log tables through a per-module vm_compute obligation (item_ok, incl. derive(decl) = the shape the REAL constructor computed). Correspondence: every distinct declared shape of the shipped tables x field patterns x domain values through the real sync and async setters on both structure classes vs the model (about 5,600 cases, vm_compute).",
   note="Trusted: Coq kernel + vm_compute; the table extractor (imports the modules, records constructor arguments by wrapping __init__); the correspondence driver; struct big-endian pack/unpack and int() as modelled. Item-level isolation is stated at bit level (291 shipped neighbour pairs overlap in bits by design). Known findings K2 (two items with 61 labels on a 4-/1-bit field) are carried as an explicit exception list (TableWf.known_bad) so any new exception breaks the proof. Closed under the global context.",
   technique="Rocq proof (bitwise lemmas via Z.testbit, list splice lemmas) + per-table vm_compute obligations + differential correspondence",
   design="3/C02"),
 "C18": dict(
   text="Finite and complete: all 164 table modules (20,505 items) are regenerated from the working tree as Coq data on every run; Coq proves by vm_compute per module that every item is addressable (bytes in block, bit field in bytes, labels representable, derived shape = model derivation), every advertised key resolves, tags unique, module names agree with platform/version, and that every module of the layout pinned at the audited commit (coq/Pinned, committed) is present with an identical layout (positions, widths, bit positions, masks, labels, writability, refresh window).",
   note="Trusted: Coq kernel + vm_compute; the table extractor; Pinned/ generated once from commit 236b7b1. Known findings K1/K2 are the explicit exception list TableWf.known_bad; the unrestricted statement is proved false (c18_all_items_addressable_refuted). FILES-reply naming is covered in C04's codec model.",
   technique="Rocq: regenerated tables as Gallina data, forallb obligations closed by vm_compute and lifted with forallb_forall",
   design="3/C18"),
 "C03": dict(
   text="Machine-checked proof over a model of replace_status_block_segment / status_block_changed / Observable: for ANY block, any patch inside it, any set of watched items, an observer registered on an item is called exactly once with (old,new) iff the decoded value changed (cb_count = 1 / = 0), the byte-range filter is sound (range miss implies equal decoded value), callbacks reach registered observers only and carry the value the installed block decodes to; the registry stays duplicate-free over any history and unwatch removes. Instantiated for all shipped items (reading total on every 1024-byte block). Correspondence: random histories of watch/unwatch/update on the real GeckoStructure and GeckoAsyncStructure with real shipped items, patches aimed at item boundaries; callbacks per operation and final block compared with the model inside Coq.",
   note="Trusted: Coq kernel + vm_compute, table extractor, correspondence driver; observers modelled as ids; temperature callbacks mapped back to stored words by the harness (float layer in C14); exceptions raised by observers are outside the model. Closed under the global context.",
   technique="Rocq proof by induction over item lists/histories (counting lemma) + differential history correspondence",
   design="3/C03"),
 "C04": dict(
   text="Machine-checked proof over a hand-written executable model of the wire format (24 message kinds, hello, PACKT framing, the can_handle matrix of the 14 standard handler classes): decode(encode m) = m for all in-range field values of every kind (arbitrary 0..255-byte STATV payloads, any STATP record list, any reminder list with signed days, set-value 1/2 bytes), each built message accepted by exactly its verb's handler class, framing round-trips for arbitrary payloads (identifiers without '<') and replies swap the identifiers, hello round-trips for names containing '|'; FILES reply: complete finite sweep over every shipped platform name x versions 0..255. Correspondence: every kind built through the real constructors (boundary, random, out-of-range), real handle()/can_handle() of all classes, malformed datagrams, adversarial framing/hello inputs vs the model (vm_compute).",
   note="Trusted: Coq kernel + vm_compute; correspondence driver; Python re is validated differentially (framing model = first-occurrence splitting, argued equivalent to the lazy/greedy regex in DESIGN); struct pack/unpack and int() as modelled. Known finding K4 (SETWC, WCREQ claimed by no handler) appears as owner = None with c04_every_message_claimed_refuted. Two genuine defects were repaired (fix commits 6805286, eb7b054). Closed under the global context.",
   technique="Rocq proof (list/byte-string lemmas, lia for div/mod, finite vm_compute sweeps) + differential correspondence of codecs",
   design="3/C04"),
 "C05": dict(
   text="Machine-checked proof over a model of both long-lived partial-status handlers (pending-change list, acknowledgement before parsing, reset-per-message in the async client, clear-after-apply in the threaded one, error branches for truncated records), composed with the C04 STATP codec and the AST-translated C16 counters: for ANY interleaving of full refreshes and well-formed partial messages the client block equals the left fold of the updates (each once, in arrival order, nothing replayed) and each partial message is answered by exactly one STATQ numbered consecutively in 1..191. Correspondence: random histories (repeated positions, 1-byte changes, refreshes over the same bytes, malformed STATP) on the real handler objects of GeckoAsyncSpa and GeckoSpa, block after every event and ack datagrams compared inside Coq.",
   note="Trusted: Coq kernel + vm_compute; correspondence driver (drives async_handle/async_handled and dispatch_recevied_data as consume()/the engine thread do; the polling loop itself is C07/C20). Closed under the global context.",
   technique="Rocq proof by induction over histories with a state invariant + differential history correspondence",
   design="3/C05"),
 "C01": dict(
   text="Machine-checked proof over a model of the simulator's segment chain and of both clients' assembly loops: the chain for any request with length > 0 is well formed and its data is the spa's bytes over ceil(len/39) segments clipped at the block end; for ANY event list drawn from a well-formed chain and timeouts (= every pattern of lost, duplicated, re-ordered, delayed segments and duplicated requests) the client block is either untouched or exactly the old block with the whole chain spliced in, never a partial / duplicated / mis-ordered set, with at most `retries` (async) resp. 1+`retries` (threaded) requests; fault-free delivery succeeds with one request; byte-level meaning of success proved (requested bytes = spa's, every other byte untouched or spa's). Correspondence: the real simulator chain for boundary (start,len), and real GeckoAsyncStructure.get (virtual-time loop) / real GeckoStructure + engine retry steps under fault scripts, (status, #STATU, final block) vs the model.",
   note="Trusted: Coq kernel + vm_compute; correspondence driver + virtual-time loop; wait_for_response abstracted to handled/timed-out (its polling is C06/C07). One genuine defect repaired (fix c80e92e: chain never ended when length is a multiple of 39). Zero-length requests have no segments and cannot complete (excluded: 0 < len). Closed under the global context.",
   technique="Rocq proof by inductive invariant over arbitrary event lists (accumulator = prefix of the chain) + list/slice lemmas for the chain + differential correspondence under fault scripts",
   design="3/C01"),
 "C14": dict(
   text="Machine-checked, complete finite sweeps through the kernel's IEEE binary64 arithmetic (= CPython float) of a model of GeckoTempStructAccessor and GeckoWaterHeater: set(get r) = r for ALL 65,536 raw words in both units; presentation strictly increasing over all adjacent words; every decimal temperature k/100, 0 <= k <= 20000, both units, is written within one device step and order is preserved (adjacent sweep lifted to all pairs by induction); limits follow the unit and denote the same device steps; operation ladder decided by flags first, then by temperature comparison, exactly one outcome. Correspondence: bit-exact (float.hex) comparison of the real accessor get/set (both setters, both structure classes) and the real heater's limits / symbol / current_operation for all flag-presence combinations.",
   note="Trusted: Coq kernel + vm_compute and its primitive float/int operations (the only entries Print Assumptions lists); correspondence driver; decimal text parsing modelled as correctly rounded k/100. Partial: transitivity of IEEE '<' is not proved, so the operation clause is stated on float comparison results plus adjacent strict monotonicity; float formatting is not modelled.",
   technique="Rocq: PrimFloat model, exhaustive vm_compute over the complete finite domains, lifted with forallb_forall + induction",
   design="3/C14"),
 "C17": dict(
   text="Machine-checked proof: (a) for ANY live table, set_config_mode (a fold over CONFIG_MEMBERS) leaves every field of the configuration classes equal to the chosen table's value - the three tables and CONFIG_MEMBERS are regenerated by introspection on every run and Coq checks that CONFIG_MEMBERS covers every field and both tables define every member; (b) over a sleepers LTS of config_sleep's shared future, for ANY sequence of sleeps, switches and clock advances: every task sleeping at a switch is released by it at the switch time, nobody is released later than its deadline, and advancing the clock releases everything due; (c) active iff some pump or blower is on. Correspondence: real set_config_mode on the live GeckoConfig with random pre-states; real config_sleep tasks under the virtual-time loop with random scripts ((id, deadline, wake time) compared); real facade method for all on/off combinations.",
   note="Trusted: Coq kernel + vm_compute; introspection extractor; virtual-time loop. Partial: asyncio.wait timeout / future-callback semantics are assumed as modelled (exercised, not proved); real wall-clock drift is outside the model. Closed under the global context.",
   technique="Rocq proof (assoc-list fold lemmas; inductive invariant over arbitrary label lists) + generated tables + trace correspondence under virtual time",
   design="3/C17"),
 "C19": dict(
   text="Machine-checked proof over a byte-string model of the shell's snapshot writer (block dump as a list of hex strings, firmware / config / log version lines) and of the parser's extraction functions: the block dump parses back to exactly the same bytes for ANY non-empty byte list (split/join, strip, hex text round trip proved for all values), version lines round-trip for any naturals, a traffic log of STATV datagrams reassembles to the concatenated segment data for any segmentation (via the C04 codec), every shipped snapshot (regenerated through the REAL parser on every run) has a 1024-byte block and names existing table modules, and a client fetching it from the simulator receives it unchanged (C01 theorems instantiated). Correspondence: real GeckoShell.do_snapshot text through the real logging formatter into the real GeckoSnapshot.parse_log_file (composition checked directly), every produced and adversarial line through the model's extraction functions vs the real regex table, real traffic-log reassembly, all 34 shipped files loaded into the real simulator and served to a real client.",
   note="Trusted: Coq kernel + vm_compute; correspondence driver; Python re validated differentially per extraction function; logging prefix, repr()/ast.literal_eval of bytes are exercised, not modelled (one genuine defect in that residue was found by the correspondence and repaired: fix 5e5c2b4). Pack-name / snapshot-name extraction is modelled and validated but its round trip is not proved (greedy groups). Closed under the global context.",
   technique="Rocq proof (positional-notation round trip by induction, list split/join lemmas) + finite vm_compute over regenerated snapshots + writer/parser composition on the real code",
   design="3/C19"),
 "C12": dict(
   text="Machine-checked proof over a model of _scan_outputs: for ANY assignment of output labels the wired devices are exactly the pack's devices some non-NA label starts with, each once and in table order even when a device is on several outputs (dict.fromkeys de-duplication proved equal to a filter); the exposed (device, demand) pairs are exactly those with a case-insensitively matching user demand and an entry in DEVICES, partitioned by class, in table order; all automation keys (hence unique ids) are pairwise distinct and lookup by key returns the device. The DEVICES / SENSORS / BINARY_SENSORS tables and fixed keys are regenerated by introspection; per shipped log table Coq checks that device keys are distinct and no two demand keys collide under upper-casing. Correspondence: the real _scan_outputs (async) and scan_outputs (threaded, under three PYTHONHASHSEEDs in subprocesses) on real structures with synthetic wirings, lists / demands / modes / keypad codes / keys compared with the model.",
   note="Trusted: Coq kernel + vm_compute; introspection extractors; scan methods run unbound on stub facades with real structures (whole-facade construction is C11). One genuine defect repaired (fix 9087322: hash-seed dependent order in the threaded facade). Closed under the global context.",
   technique="Rocq proof (list filter / flat_map / NoDup lemmas) over generated tables + subprocess differential runs across hash seeds",
   design="3/C12"),
 "C11": dict(
   text="Finite and complete over combinations, universal over blocks: Coq computes (vm_compute over the regenerated tables) that all 895 platform x config x log combinations satisfy the facade's construction requirements (combo_ready: TempUnits, the three temperature items, EconActive, every output / error key / user demand and the state item of every exposable device exist and are addressable) except exactly the 18 listed (K3; tightness also proved), and proves that on a ready combination, for ANY 1024-byte block, every item the facade reads decodes without raising, out-of-range enum values read 'Unknown', any watercare mode renders, any reminder list yields proper descriptions. Correspondence: the REAL GeckoAsyncFacade and GeckoFacade are constructed on all 895 combinations (success compared with combo_ready) and every public read-only member of facade and devices is evaluated on zero / all-ones / random / small-value / shipped-snapshot blocks; watercare rendering for all 256 bytes; reminder lists.",
   note="Trusted: Coq kernel + vm_compute; table extractor; facade construction harness (no network, tasks/threads not started). Partial: combo_ready <-> real construction is checked exhaustively on the 895 combinations rather than proved from a model of the constructors; member evaluation on non-zero blocks covers a rotating third of the combinations in the quick tier. Known findings K3 (18 combinations) are an explicit exception list. One defect repaired (fix 4f27235).",
   technique="Rocq: finite vm_compute obligations over regenerated tables + general totality lemmas (get_value_total) + exhaustive differential construction of the real facades",
   design="3/C11"),
 "C13": dict(
   text="Machine-checked proof over a model of the facade commands composed from the accessor (C02), temperature (C14), wire (C04) and AST-translated counter (C16) models: a pump mode emits exactly one SPACK set-value carrying the pack type and config/log versions and a command-range number which, applied by the spa, makes the demand read the requested mode and changes nothing outside the item; on/off devices emit nothing when already in the requested state (for every current state) and otherwise exactly one key press with the device's keypad code (or one direct write for eco mode) after which the device reads the requested state; every representable target temperature is written as exactly its word; for ANY command sequence each command emits at most one datagram, pack commands numbered in 192..255, watercare in 1..191. Correspondence: the REAL async stack (real handshake against the in-process simulator under virtual time, real facade) on shipped snapshots with random command sequences; datagrams reaching the spa compared with the model per command, read-back after the spa's echo checked.",
   note="Trusted: Coq kernel + vm_compute (+ primitive floats); session harness. Environment specification (assumption): the spa applies set-values big-endian, toggles the device of a key press and echoes a STATP; echo delivered separately from the PACKS reply (when both arrive in one burst the client's unhandled-datagram consumer can discard the echo - finding K5, see C07/C09). One attempt per command (retries are C06).",
   technique="Rocq proof composing earlier models (corollaries of C02/C14/C16 theorems, induction over command sequences) + real-stack differential runs under virtual time",
   design="3/C13"),
}

REASON_PENDING = "check not built yet in this round (model and correspondence under construction; see DESIGN.md section 8)"

def main():
    props = [json.loads(l)["id"] for l in open(os.path.join(ROOT, "properties.jsonl"))]
    checks = []
    for pid in props:
        if pid not in CLAIMED:
            continue
        c = CLAIMED[pid]
        checks.append({
            "property_id": pid,
            "quick_cmd": "./check %s --tier quick" % pid,
            "thorough_cmd": "./check %s --tier thorough" % pid,
            "evidence_file": "/verif/evidence/%s.json" % pid,
            "replay_cmd_template": "./check %s --replay {path}" % pid,
            "engine": "rocq",
            "level_claimed": {"category": "proof", "text": c["text"], "design_ref": c["design"]},
            "level_note": c["note"],
            "technique": c["technique"],
        })
    m = {
        "version": 1,
        "setup_cmd": "./check --setup",
        "hooks": {"guard": "GECKOLIB_VERIF", "enable": "no source hooks: all observation points are wrapped from the harness process; checks export GECKOLIB_VERIF=1 for uniformity",
                  "baseline_off_cmd": "cd /repo && /venv/bin/python -m pytest -ra -q -p no:cacheprovider --timeout=900 --continue-on-collection-errors",
                  "source_commits": [], "add_only": True},
        "engines": [{"name": "rocq", "path": "/verif/coq", "serves_properties": sorted(CLAIMED),
                     "kind_free_text": "Coq 8.16.1 development (Lib/Model/Proofs/Props, Gen regenerated from /repo on every run) + Python correspondence drivers in tools/props"}],
        "checks": checks,
        "not_applicable": [{"property_id": p, "reason": REASON_PENDING} for p in props if p not in CLAIMED],
        "notes": "Every check: regenerate coq/Gen from /repo's working tree, full .vo build of Props/<id>.vo, Print Assumptions, correspondence of model vs implementation via vm_compute, oracle search for a concrete failing input. Fix commits in /repo are recorded in known_findings.json.",
    }
    with open(os.path.join(ROOT, "MANIFEST.json"), "w") as f:
        json.dump(m, f, indent=1)

main()
