(* Canonical positional text of non-negative integers (Python str(n) / hex(n)[2:]) as byte strings,
   and its parser (int(text, base) on digit strings), with the round trip proved for every n < base^24. *)
From Coq Require Import ZArith List Bool Lia.
Import ListNotations.
Open Scope Z_scope.

Section Base.
  Variable b : Z.
  Hypothesis Hb : 2 <= b.

  (* exactly f digits, most significant first *)
  Fixpoint digits (f : nat) (n : Z) : list Z :=
    match f with O => [] | S k => digits k (n / b) ++ [n mod b] end.
  Definition value (l : list Z) : Z := fold_left (fun a d => a * b + d) l 0.
  Fixpoint strip0 (l : list Z) : list Z :=
    match l with
    | 0 :: ((_ :: _) as r) => strip0 r
    | _ => l
    end.

  Lemma value_snoc l d : value (l ++ [d]) = value l * b + d.
  Proof. unfold value. now rewrite fold_left_app. Qed.

  Lemma value_digits f : forall n, 0 <= n < b ^ Z.of_nat f -> value (digits f n) = n.
  Proof.
    induction f as [|k IH]; intros n Hn.
    - cbn in *. unfold value. cbn. lia.
    - cbn [digits]. rewrite value_snoc. rewrite IH.
      + pose proof (Z.div_mod n b ltac:(lia)). lia.
      + rewrite Nat2Z.inj_succ, Z.pow_succ_r in Hn by lia. split; [apply Z.div_pos; lia|apply Z.div_lt_upper_bound; lia].
  Qed.

  Lemma value_strip0 l : value (strip0 l) = value l.
  Proof. induction l as [|x r IH]; [reflexivity|]. cbn [strip0]. destruct x; try reflexivity.
    destruct r as [|y r']; [reflexivity|]. rewrite IH. unfold value. cbn. reflexivity. Qed.

  Lemma digits_range f : forall n, Forall (fun d => 0 <= d < b) (digits f n).
  Proof. induction f as [|k IH]; intros n; cbn [digits]; [constructor|]. apply Forall_app. split; [apply IH|].
    constructor; [apply Z.mod_pos_bound; lia|constructor]. Qed.
  Lemma strip0_forall (P : Z -> Prop) l : Forall P l -> Forall P (strip0 l).
  Proof. induction l as [|x r IH]; intros H; [constructor|]. cbn [strip0]. inversion H; subst.
    destruct x; auto. destruct r; auto. Qed.
  Lemma strip0_nonempty l : l <> [] -> strip0 l <> [].
  Proof. induction l as [|x r IH]; intros H; [contradiction|]. cbn [strip0]. destruct x; try discriminate.
    destruct r as [|y r']; [discriminate|]. apply IH. discriminate. Qed.

  Definition canon (n : Z) : list Z := strip0 (digits 24 n).
  Theorem value_canon n : 0 <= n < b ^ 24 -> value (canon n) = n.
  Proof. intros H. unfold canon. rewrite value_strip0. apply value_digits. exact H. Qed.
End Base.

(* ---- decimal ---- *)
Definition dec_char (d : Z) : Z := 48 + d.
Definition dec_digit (c : Z) : option Z := if (48 <=? c) && (c <=? 57) then Some (c - 48) else None.
Definition dec_text (n : Z) : list Z := map dec_char (canon 10 n).
Fixpoint chars_to_digits (f : Z -> option Z) (s : list Z) : option (list Z) :=
  match s with
  | [] => Some []
  | c :: r => match f c, chars_to_digits f r with Some d, Some l => Some (d :: l) | _, _ => None end
  end.
Definition parse_dec_text (s : list Z) : option Z :=
  match s with [] => None | _ => option_map (value 10) (chars_to_digits dec_digit s) end.

Lemma chars_digits_map f g l : (forall d, In d l -> f (g d) = Some d) -> chars_to_digits f (map g l) = Some l.
Proof. induction l as [|x r IH]; intros H; [reflexivity|]. cbn. rewrite H by (left; auto). rewrite IH; [reflexivity|].
  intros d Hd. apply H. right. exact Hd. Qed.

Theorem dec_roundtrip n : 0 <= n < 10 ^ 24 -> parse_dec_text (dec_text n) = Some n.
Proof.
  intros H. unfold parse_dec_text, dec_text.
  assert (Hne : canon 10 n <> []) by (apply strip0_nonempty; discriminate).
  destruct (map dec_char (canon 10 n)) eqn:E; [destruct (canon 10 n); [contradiction|discriminate]|]. rewrite <- E.
  rewrite (chars_digits_map dec_digit dec_char).
  - cbn [option_map]. f_equal. apply value_canon; lia.
  - intros d Hd. assert (R : 0 <= d < 10).
    { pose proof (strip0_forall (fun d => 0 <= d < 10) _ (digits_range 10 ltac:(lia) 24 n)) as F.
      rewrite Forall_forall in F. apply F. exact Hd. }
    unfold dec_digit, dec_char. replace ((48 <=? 48 + d) && (48 + d <=? 57)) with true
      by (symmetry; apply andb_true_intro; split; apply Z.leb_le; clear - R; lia). replace (48 + d - 48) with d by (clear - R; lia). reflexivity.
Qed.

(* ---- hexadecimal (lower case, as Python's hex()) ---- *)
Definition hex_char (d : Z) : Z := if d <? 10 then 48 + d else 87 + d.
Definition hex_digit (c : Z) : option Z :=
  if (48 <=? c) && (c <=? 57) then Some (c - 48)
  else if (97 <=? c) && (c <=? 102) then Some (c - 87)
  else if (65 <=? c) && (c <=? 70) then Some (c - 55) else None.
Definition hex_text (n : Z) : list Z := map hex_char (canon 16 n).
Definition parse_hex_text (s : list Z) : option Z :=
  match s with [] => None | _ => option_map (value 16) (chars_to_digits hex_digit s) end.

Theorem hex_roundtrip n : 0 <= n < 16 ^ 24 -> parse_hex_text (hex_text n) = Some n.
Proof.
  intros H. unfold parse_hex_text, hex_text.
  assert (Hne : canon 16 n <> []) by (apply strip0_nonempty; discriminate).
  destruct (map hex_char (canon 16 n)) eqn:E; [destruct (canon 16 n); [contradiction|discriminate]|]. rewrite <- E.
  rewrite (chars_digits_map hex_digit hex_char).
  - cbn [option_map]. f_equal. apply value_canon; lia.
  - intros d Hd. assert (R : 0 <= d < 16).
    { pose proof (strip0_forall (fun d => 0 <= d < 16) _ (digits_range 16 ltac:(lia) 24 n)) as F.
      rewrite Forall_forall in F. apply F. exact Hd. }
    clear Hd H Hne E. unfold hex_digit, hex_char. destruct (d <? 10) eqn:E10.
    + apply Z.ltb_lt in E10. replace ((48 <=? 48 + d) && (48 + d <=? 57)) with true
        by (symmetry; apply andb_true_intro; split; apply Z.leb_le; lia). replace (48 + d - 48) with d by lia. reflexivity.
    + apply Z.ltb_ge in E10. replace ((48 <=? 87 + d) && (87 + d <=? 57)) with false
        by (symmetry; apply andb_false_intro2; apply Z.leb_gt; lia).
      replace ((97 <=? 87 + d) && (87 + d <=? 102)) with true
        by (symmetry; apply andb_true_intro; split; apply Z.leb_le; lia). replace (87 + d - 87) with d by lia. reflexivity.
Qed.

(* characters produced: useful to show the text contains no separators *)
Lemma dec_text_chars n : Forall (fun c => 48 <= c <= 57) (dec_text n).
Proof. unfold dec_text. apply Forall_map.
  pose proof (strip0_forall (fun d => 0 <= d < 10) _ (digits_range 10 ltac:(lia) 24 n)) as F.
  eapply Forall_impl; [|exact F]. intros d Hd. unfold dec_char. cbn beta in *. lia. Qed.
Lemma hex_text_chars n : Forall (fun c => 48 <= c <= 57 \/ 97 <= c <= 102) (hex_text n).
Proof. unfold hex_text. apply Forall_map.
  pose proof (strip0_forall (fun d => 0 <= d < 16) _ (digits_range 16 ltac:(lia) 24 n)) as F.
  eapply Forall_impl; [|exact F]. intros d Hd. unfold hex_char. cbn beta in *. destruct (d <? 10) eqn:E; [apply Z.ltb_lt in E|apply Z.ltb_ge in E]; lia. Qed.
Lemma dec_text_nonempty n : dec_text n <> [].
Proof. unfold dec_text. intros E. apply map_eq_nil in E. revert E. apply strip0_nonempty. discriminate. Qed.
Lemma hex_text_nonempty n : hex_text n <> [].
Proof. unfold hex_text. intros E. apply map_eq_nil in E. revert E. apply strip0_nonempty. discriminate. Qed.
