(* Finite reachability: a set closed under every step is an inductive invariant
   for all label lists (no depth bound). *)
From Coq Require Import List Bool.
Import ListNotations.
Section FinReach.
  Variables (S L : Type) (eqb : S -> S -> bool) (step : S -> L -> option S) (labels : list L).
  Hypothesis eqb_eq : forall a b, eqb a b = true <-> a = b.
  Hypothesis labels_all : forall l, In l labels.
  Definition mem (s : S) (X : list S) := existsb (eqb s) X.
  Definition closed (X : list S) : bool :=
    forallb (fun s => forallb (fun l => match step s l with Some s' => mem s' X | None => true end) labels) X.
  Fixpoint run (s : S) (ls : list L) : option S :=
    match ls with [] => Some s | l :: r => match step s l with Some s' => run s' r | None => None end end.
  Lemma mem_In s X : mem s X = true <-> In s X.
  Proof. unfold mem. rewrite existsb_exists. split.
    - intros [x [Hx He]]. apply eqb_eq in He. now subst.
    - intros H. exists s. split; auto. now apply eqb_eq. Qed.
  Theorem reach_in X init : closed X = true -> In init X ->
    forall ls s', run init ls = Some s' -> In s' X.
  Proof.
    intros Hc Hi ls. revert init Hi. induction ls as [|l r IH]; simpl; intros s Hs s' Hr.
    - now inversion Hr; subst.
    - destruct (step s l) as [s1|] eqn:E; [|discriminate].
      apply (IH s1); auto. unfold closed in Hc. rewrite forallb_forall in Hc.
      specialize (Hc s Hs). rewrite forallb_forall in Hc. specialize (Hc l (labels_all l)).
      rewrite E in Hc. now apply mem_In. Qed.
  Corollary inv_all X init (P : S -> bool) : closed X = true -> In init X -> forallb P X = true ->
    forall ls s', run init ls = Some s' -> P s' = true.
  Proof. intros. eapply forallb_forall; eauto. eapply reach_in; eauto. Qed.
End FinReach.
