(* Finite reachability with hashed sets: a bucket map keyed by a user-supplied hash (any function: only speed depends on it). *)
From Coq Require Import List Bool PArith FMapPositive.
Import ListNotations.
Section HashReach.
  Variables (S : Type) (eqb : S -> S -> bool) (key : S -> positive) (succs : S -> list S).
  Definition hset := PositiveMap.t (list S).
  Definition bucket (k : positive) (m : hset) : list S := match PositiveMap.find k m with Some b => b | None => [] end.
  Definition hmem (s : S) (m : hset) : bool := existsb (eqb s) (bucket (key s) m).
  Definition hadd (s : S) (m : hset) : hset := PositiveMap.add (key s) (s :: bucket (key s) m) m.
  Definition hbuild (l : list S) : hset := fold_left (fun m x => hadd x m) l (PositiveMap.empty _).
  Fixpoint hadd_all (new : list S) (seen : hset) (acc : list S) : hset * list S :=
    match new with
    | [] => (seen, acc)
    | x :: r => if hmem x seen then hadd_all r seen acc else hadd_all r (hadd x seen) (x :: acc)
    end.
  Fixpoint hexplore (fuel : nat) (frontier : list S) (seen : hset) (all : list S) : list S :=
    match fuel with
    | O => all
    | Datatypes.S f =>
        match frontier with
        | [] => all
        | _ => let '(seen', fr') := hadd_all (flat_map succs frontier) seen [] in hexplore f fr' seen' (fr' ++ all)
        end
    end.
  Definition hreach (fuel : nat) (inits : list S) : list S := hexplore fuel inits (hbuild inits) inits.

  Hypothesis eqb_eq : forall a b, eqb a b = true -> a = b.
  Lemma bucket_add_same s m : bucket (key s) (hadd s m) = s :: bucket (key s) m.
  Proof. unfold bucket, hadd. rewrite PositiveMap.gss. reflexivity. Qed.
  Lemma bucket_add_other s m k : k <> key s -> bucket k (hadd s m) = bucket k m.
  Proof. intros H. unfold bucket at 1, hadd. rewrite PositiveMap.gso by exact H. reflexivity. Qed.
  Lemma hbuild_sound : forall l m0 l0, (forall k x, In x (bucket k m0) -> In x l0) ->
    forall k x, In x (bucket k (fold_left (fun m x => hadd x m) l m0)) -> In x (l0 ++ l).
  Proof.
    induction l as [|y l IH]; intros m0 l0 H k x Hx; cbn [fold_left] in Hx.
    - rewrite app_nil_r. eapply H; eauto.
    - replace (l0 ++ y :: l) with ((l0 ++ [y]) ++ l) by (rewrite <- app_assoc; reflexivity).
      eapply IH; [|exact Hx]. intros k' x' Hx'. destruct (Pos.eq_dec k' (key y)) as [->|Hn].
      + rewrite bucket_add_same in Hx'. destruct Hx' as [<-|Hx']; apply in_or_app; [right; left; reflexivity|left; eapply H; eauto].
      + rewrite bucket_add_other in Hx' by exact Hn. apply in_or_app. left. eapply H; eauto.
  Qed.
  Lemma hmem_build l s : hmem s (hbuild l) = true -> In s l.
  Proof.
    unfold hmem. intros H. apply existsb_exists in H. destruct H as [x [Hx E]]. apply eqb_eq in E. subst x.
    change l with ([] ++ l). eapply hbuild_sound; [|exact Hx]. intros k x. unfold bucket. rewrite PositiveMap.gempty. intros [].
  Qed.
End HashReach.
