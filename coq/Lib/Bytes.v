(* Byte strings as list Z; Python slice / splice semantics; big-endian 1- and 2-byte words. *)
From Coq Require Import ZArith List Bool Lia.
Import ListNotations.
Open Scope Z_scope.

Definition is_byte (z : Z) : bool := (0 <=? z) && (z <? 256).
Definition bytes_ok (l : list Z) : bool := forallb is_byte l.

(* b[off:off+len] with Python clipping *)
Definition slice (b : list Z) (off len : nat) : list Z := firstn len (skipn off b).
(* b[0:off] + sg + b[off+len(sg):]  -- replace_status_block_segment *)
Definition splice (b : list Z) (off : nat) (sg : list Z) : list Z :=
  firstn off b ++ sg ++ skipn (off + length sg) b.

Lemma splice_length b off sg : (off + length sg <= length b)%nat -> length (splice b off sg) = length b.
Proof. intros H. unfold splice. rewrite !app_length, firstn_length, skipn_length. lia. Qed.

Lemma splice_nth_before b off sg i d : (i < off)%nat -> (off <= length b)%nat -> nth i (splice b off sg) d = nth i b d.
Proof. intros Hi Ho. unfold splice. rewrite app_nth1 by (rewrite firstn_length; lia).
  rewrite <- (firstn_skipn off b) at 2. rewrite app_nth1 by (rewrite firstn_length; lia). reflexivity. Qed.

Lemma splice_nth_after b off sg i d : (off + length sg <= i)%nat -> (off <= length b)%nat ->
  nth i (splice b off sg) d = nth i b d.
Proof. intros Hi Ho. unfold splice.
  rewrite app_nth2 by (rewrite firstn_length; lia). rewrite firstn_length, Nat.min_l by lia.
  rewrite app_nth2 by lia.
  destruct (Nat.le_gt_cases (off + length sg) (length b)) as [Hle|Hgt].
  - rewrite <- (firstn_skipn (off + length sg) b) at 2.
    rewrite app_nth2 by (rewrite firstn_length; lia). rewrite firstn_length, Nat.min_l by lia.
    f_equal. lia.
  - rewrite skipn_all2 by lia. rewrite (nth_overflow b) by lia. destruct (i - off - length sg)%nat; reflexivity. Qed.

Lemma splice_nth_inside b off sg i d : (off <= i)%nat -> (i < off + length sg)%nat -> (off <= length b)%nat ->
  nth i (splice b off sg) d = nth (i - off) sg d.
Proof. intros H1 H2 Ho. unfold splice. rewrite app_nth2 by (rewrite firstn_length; lia).
  rewrite firstn_length, Nat.min_l by lia. rewrite app_nth1 by lia. reflexivity. Qed.

Lemma slice_splice_same b off sg : (off <= length b)%nat -> slice (splice b off sg) off (length sg) = sg.
Proof. intros Ho. unfold slice, splice.
  rewrite skipn_app. rewrite skipn_all2 by (rewrite firstn_length; lia).
  rewrite firstn_length, Nat.min_l by lia. rewrite Nat.sub_diag. cbn [skipn app].
  rewrite firstn_app, Nat.sub_diag, firstn_all. cbn [firstn]. now rewrite app_nil_r. Qed.

Lemma slice_length b off len : (off + len <= length b)%nat -> length (slice b off len) = len.
Proof. intros H. unfold slice. rewrite firstn_length, skipn_length. lia. Qed.

Lemma slice_nth b off len i d : (i < len)%nat -> nth i (slice b off len) d = nth (off + i) b d.
Proof. intros Hi. unfold slice. revert b len i Hi. induction off as [|o IH]; intros b len i Hi; cbn [skipn Nat.add].
  - revert len i Hi. induction b as [|x b IHb]; intros len i Hi.
    + rewrite firstn_nil. destruct i; reflexivity.
    + destruct len; [lia|]. destruct i; cbn; [reflexivity|]. apply IHb. lia.
  - destruct b as [|x b]; [rewrite firstn_nil; destruct i; reflexivity|]. cbn [nth]. apply IH. exact Hi. Qed.

Lemma nth_ext_len (a b : list Z) d : length a = length b -> (forall i, (i < length a)%nat -> nth i a d = nth i b d) -> a = b.
Proof. intros. eapply nth_ext; eauto. Qed.

(* struct.unpack(">B"/">H") of a slice: None = struct.error (wrong slice length) *)
Definition be_decode (two : bool) (l : list Z) : option Z :=
  if two then match l with [h; lo] => Some (h * 256 + lo) | _ => None end
  else match l with [x] => Some x | _ => None end.
(* struct.pack(">B"/">H", v): None = struct.error (out of range) *)
Definition be_encode (two : bool) (v : Z) : option (list Z) :=
  if two then (if (0 <=? v) && (v <? 65536) then Some [v / 256; v mod 256] else None)
  else (if (0 <=? v) && (v <? 256) then Some [v] else None).

Lemma be_roundtrip two v l : be_encode two v = Some l -> be_decode two l = Some v.
Proof. unfold be_encode, be_decode. destruct two.
  - destruct ((0 <=? v) && (v <? 65536)); [|discriminate]. intros H; inversion H; subst.
    f_equal. pose proof (Z.div_mod v 256 ltac:(lia)). lia.
  - destruct ((0 <=? v) && (v <? 256)); [|discriminate]. intros H; inversion H; subst. reflexivity. Qed.

Lemma be_encode_length two v l : be_encode two v = Some l -> length l = if two then 2%nat else 1%nat.
Proof. unfold be_encode. destruct two; destruct (_ && _); intros H; inversion H; reflexivity. Qed.

Lemma be_encode_bytes two v l : be_encode two v = Some l -> bytes_ok l = true.
Proof. unfold be_encode, bytes_ok, is_byte. destruct two.
  - destruct ((0 <=? v) && (v <? 65536)) eqn:E; [|discriminate]. intros H; inversion H; subst. cbn [forallb].
    apply andb_prop in E. destruct E as [E1 E2]. apply Z.leb_le in E1. apply Z.ltb_lt in E2.
    pose proof (Z.mod_pos_bound v 256 ltac:(lia)).
    assert (0 <= v / 256 < 256) by (split; [apply Z.div_pos; lia | apply Z.div_lt_upper_bound; lia]).
    repeat (apply andb_true_intro; split); try reflexivity; try apply Z.leb_le; try apply Z.ltb_lt; lia.
  - destruct ((0 <=? v) && (v <? 256)) eqn:E; [|discriminate]. intros H; inversion H; subst. cbn [forallb].
    now rewrite E. Qed.

Lemma be_decode_range two l v : bytes_ok l = true -> be_decode two l = Some v -> 0 <= v < (if two then 65536 else 256).
Proof. unfold be_decode, bytes_ok, is_byte. destruct two.
  - destruct l as [|h [|lo [|x r]]]; try discriminate. cbn [forallb]. intros Hb H; inversion H; subst.
    repeat (apply andb_prop in Hb; destruct Hb as [? Hb]).
    repeat match goal with H : (_ && _) = true |- _ => apply andb_prop in H; destruct H end.
    repeat match goal with H : (_ <=? _) = true |- _ => apply Z.leb_le in H | H : (_ <? _) = true |- _ => apply Z.ltb_lt in H end. lia.
  - destruct l as [|x [|y r]]; try discriminate. cbn [forallb]. intros Hb H; inversion H; subst.
    repeat match goal with H : (_ && _) = true |- _ => apply andb_prop in H; destruct H end.
    repeat match goal with H : (_ <=? _) = true |- _ => apply Z.leb_le in H | H : (_ <? _) = true |- _ => apply Z.ltb_lt in H end. lia. Qed.
