(* Canonical decimal text of non-negative integers (Python str(int) / f"{n}"). *)
From Coq Require Import ZArith List Bool String Ascii Lia.
Open Scope Z_scope.

Definition digit_char (d : Z) : ascii := ascii_of_nat (48 + Z.to_nat d).
Fixpoint dec_digits (fuel : nat) (n : Z) (acc : string) : string :=
  match fuel with
  | O => acc
  | S f => let acc' := String (digit_char (n mod 10)) acc in
           if n / 10 =? 0 then acc' else dec_digits f (n / 10) acc'
  end.
(* enough fuel for any n < 10^24 *)
Definition dec_of_Z (n : Z) : string := dec_digits 24 n EmptyString.
(* f"{n:02}" *)
Definition dec2_of_Z (n : Z) : string := if n <? 10 then String "0"%char (dec_of_Z n) else dec_of_Z n.
