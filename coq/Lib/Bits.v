(* Bit-field lemmas shared by the accessor model (C02, C03, C13, C18). *)
From Coq Require Import ZArith Lia Bool.
Open Scope Z_scope.

(* the read-modify-write merge of GeckoStructAccessor._set_value *)
Definition merge (existing v mask bp : Z) : Z :=
  Z.lor (Z.land existing (Z.lnot (Z.shiftl mask bp))) (Z.shiftl (Z.land v mask) bp).
(* the read of GeckoStructAccessor._get_raw_value *)
Definition getf (w mask bp : Z) : Z := Z.land (Z.shiftr w bp) mask.

Lemma testbit_ones_nonneg n i : 0 <= n -> 0 <= i -> Z.testbit (Z.ones n) i = (i <? n).
Proof. intros. destruct (Z.ltb_spec i n).
  - apply Z.ones_spec_low; lia. - apply Z.ones_spec_high; lia. Qed.

Theorem read_after_write existing v w bp :
  0 <= w -> 0 <= bp -> getf (merge existing v (Z.ones w) bp) (Z.ones w) bp = Z.land v (Z.ones w).
Proof.
  intros Hw Hbp. unfold getf, merge. apply Z.bits_inj'. intros i Hi.
  rewrite !Z.land_spec, Z.shiftr_spec, Z.lor_spec, !Z.land_spec, Z.lnot_spec, !Z.shiftl_spec by lia.
  rewrite !Z.land_spec. replace (i + bp - bp) with i by lia.
  rewrite !testbit_ones_nonneg by lia.
  destruct (i <? w); simpl; rewrite ?andb_false_r, ?orb_false_r, ?andb_true_r; auto.
Qed.

Theorem outside_unchanged existing v w bp i :
  0 <= w -> 0 <= bp -> 0 <= i -> (i < bp \/ bp + w <= i) ->
  Z.testbit (merge existing v (Z.ones w) bp) i = Z.testbit existing i.
Proof.
  intros Hw Hbp Hi Hout. unfold merge.
  rewrite Z.lor_spec, !Z.land_spec, Z.lnot_spec by lia.
  destruct (Z.ltb_spec i bp).
  - rewrite !Z.shiftl_spec_low by lia. simpl. now rewrite andb_true_r, orb_false_r.
  - rewrite !Z.shiftl_spec by lia. rewrite Z.land_spec, !testbit_ones_nonneg by lia.
    replace (i - bp <? w) with false by (symmetry; apply Z.ltb_ge; lia).
    simpl. now rewrite andb_false_r, andb_true_r, orb_false_r.
Qed.

Lemma land_ones_small v w : 0 <= w -> 0 <= v < 2 ^ w -> Z.land v (Z.ones w) = v.
Proof. intros Hw Hv. rewrite Z.land_ones by lia. apply Z.mod_small. lia. Qed.

Lemma merge_range existing v w bp n :
  0 <= w -> 0 <= bp -> bp + w <= n -> 0 <= existing < 2 ^ n -> 0 <= merge existing v (Z.ones w) bp < 2 ^ n.
Proof.
  intros Hw Hbp Hn He.
  assert (Hnn : 0 <= n) by lia.
  set (m := merge existing v (Z.ones w) bp).
  assert (Hge : 0 <= m).
  { unfold m, merge. apply Z.lor_nonneg. split.
    - apply Z.land_nonneg. left. lia.
    - apply Z.shiftl_nonneg. apply Z.land_nonneg. right. rewrite Z.ones_equiv.
      pose proof (Z.pow_pos_nonneg 2 w ltac:(lia) Hw). lia. }
  split; [exact Hge|].
  destruct (Z.eq_dec m 0) as [E|E].
  - rewrite E. apply Z.pow_pos_nonneg; lia.
  - apply Z.log2_lt_pow2; [lia|].
    destruct (Z.lt_ge_cases (Z.log2 m) n) as [Hlt|Hle]; [exact Hlt|exfalso].
    assert (Hm : 0 < m) by lia.
    pose proof (Z.bit_log2 m Hm) as Hb.
    pose proof (Z.log2_nonneg m) as Hl0.
    assert (Hout : Z.testbit m (Z.log2 m) = Z.testbit existing (Z.log2 m)).
    { unfold m at 1. apply outside_unchanged; try lia. }
    rewrite Hout in Hb.
    destruct (Z.eq_dec existing 0) as [E0|E0].
    + rewrite E0 in Hb. rewrite Z.bits_0 in Hb. discriminate.
    + rewrite Z.bits_above_log2 in Hb; [discriminate|lia|].
      apply Z.lt_le_trans with n; [|lia]. apply Z.log2_lt_pow2; lia.
Qed.
