(* C09 correspondence: the stream of events the client of the REAL full stack (manager + locator + spa + facade +
   simulator, under faults) was given - each with the state, facade presence and status text sampled at delivery - must be
   a path of the lifecycle LTS: some label sequence produces exactly these deliveries. *)
From Coq Require Import List Bool String.
Require Import GV.Gen.LifecycleRules GV.Model.Lifecycle GV.Model.LifecycleChk.
Import ListNotations.

Fixpoint prefix_match (d : list delivery) (obs : list edelivery) : option (list edelivery) :=
  match d, obs with
  | [], _ => Some obs
  | x :: r, y :: o => if del_eqb x y then prefix_match r o else None
  | _ :: _, [] => None
  end.
(* SetSpaInfo and UserReset deliver the same events once an identifier is configured: one of them is enough here *)
Definition explain_labels : list label := filter (fun l => match l with SetSpaInfo => false | _ => true end) all_labels.
(* the set of model states that explain the deliveries seen so far, advanced one delivery at a time (a label's deliveries
   may span several observations: its successor is parked in the set that many positions ahead) *)
Fixpoint add_at (k : nat) (x : mst) (fut : list (list mst)) : list (list mst) :=
  match k, fut with
  | O, [] => [[x]]
  | O, c :: r => (if mem x c then c else x :: c) :: r
  | S k', [] => [] :: add_at k' x []
  | S k', c :: r => c :: add_at k' x r
  end.
Definition silent_succs (s : mst) : list mst :=
  flat_map (fun l => match step s l with Some (s', []) => if mst_eqb s s' then [] else [s'] | _ => [] end) explain_labels.
Fixpoint silent_close (fuel : nat) (todo seen : list mst) : list mst :=
  match fuel with
  | O => seen
  | S f => match todo with
           | [] => seen
           | _ => let '(seen', new) := add_all (flat_map silent_succs todo) seen [] in silent_close f new seen'
           end
  end.
Definition advance (obs : list edelivery) (cur : list mst) (fut : list (list mst)) : list (list mst) :=
  fold_left (fun acc s =>
    fold_left (fun acc l =>
      match step s l with
      | Some (s', (_ :: _) as d) => match prefix_match d obs with Some _ => add_at (List.length d - 1) s' acc | None => acc end
      | _ => acc
      end) explain_labels acc) cur fut.
Fixpoint explain (obs : list edelivery) (cur : list mst) (fut : list (list mst)) : bool :=
  let cur' := silent_close 6 cur cur in
  match obs with
  | [] => match cur' with [] => false | _ => true end
  | _ :: rest =>
      match advance obs cur' fut with
      | [] => false
      | nxt :: f => explain rest nxt f
      end
  end.
Definition chk_explained (enter obs : list edelivery) : bool :=
  let '(s0, d0) := handle FUEL (init true) SPA_MAN_ENTER in
  dels_eqb d0 enter && explain obs [s0] [].
(* number of deliveries consumed before every state set ahead is empty (diagnostics) *)
Fixpoint explained_prefix (obs : list edelivery) (cur : list mst) (fut : list (list mst)) (n : nat) : nat :=
  let cur' := silent_close 6 cur cur in
  match obs with
  | [] => n
  | _ :: rest =>
      match advance obs cur' fut with
      | [] => n
      | nxt :: f => if forallb (fun c => match c with [] => true | _ => false end) (nxt :: f) then n else explained_prefix rest nxt f (S n)
      end
  end.
Definition first_unexplained (obs : list edelivery) : nat := explained_prefix obs [entered true] [] 0.
