(* C08, interleavings: a small-step version of the lifecycle LTS (Model/Lifecycle.v) in which the client's handler may stay
   suspended at EVERY delivery while other tasks run.  Three tasks can be inside the manager at once: the sequence pump (P),
   one task of the connection - ping loop, refresh loop, RF-error handler - that raised an event (E), and one user task that
   called async_reset / async_set_spa_info (U).  A task runs a BURST: from where it is to its next delivery (await
   self.handle_event(...): the only place the manager's own code can be suspended), to the point where the pump blocks in
   discovery / a handshake step / its sleep, or to its end.  Between two bursts any other task may run a burst.
   The code of a task is a list of instructions (its continuation); nested _handle_event calls and async_reset just push
   theirs in front.  The big-step LTS is the special case in which a task that was started is resumed until it is done before
   anything else happens (LifecycleIP.big_step_is_a_schedule). *)
From Coq Require Import List Bool Arith NArith.
Require Import GV.Lib.HashReach GV.Gen.LifecycleRules GV.Model.Lifecycle.
Import ListNotations.

Inductive slot := SP | SE | SU.
Definition slot_eqb (a b : slot) : bool := match a, b with SP, SP | SE, SE | SU, SU => true | _, _ => false end.

Inductive instr :=
| IEnter (e : event)        (* call _handle_event(e): status-sensor creation, the rule, the delivery *)
| IRule (e : event)
| IAct (a : action)
| IPost (e : event)         (* status sensor records; await self.handle_event(e): the task may be suspended here *)
| IReset                    (* call async_reset *)
| IRSpa                     (* if / while self._spa is not None: spa = self._spa ; await spa.disconnect() ; [if self._spa is spa:] self._spa = None *)
| IRDisc                    (* spa.disconnect() after its event: _disconnected, cancel the SPA tasks, close; then self._spa = None *)
| IRDiscStale               (* the same, by a reset whose spa object has meanwhile been replaced: it closes the OLD object and clears the NEW reference *)
| IRFin                     (* self._facade = None ; [self._spa_descriptors = None] ; state = IDLE *)
| ISetId                    (* async_set_spa_info stores address / identifier / name *)
| ISetDesc                  (* self._spa_descriptors = locator.spas *)
| IAfterLoc (fc found : bool)  (* async_locate_spas has returned self._spa_descriptors *)
| IAssertNoFac              (* assert self._facade is None *)
| ISetSpa                   (* self._spa = GeckoAsyncSpa(...) ; await self._spa.connect() begins *)
| IFacadeIfReady            (* if state == SPA_READY: self._facade = GeckoAsyncFacade(...) *)
| ICondNotFound             (* if state == ERROR_SPA_NOT_FOUND: await self.async_reset() *)
| IExc                      (* an exception reaches the pump's loop *)
| IWait (p : pc).           (* the pump blocks until the matching label *)

Definition action_eqb (a b : action) : bool :=
  match a, b with
  | ASet x, ASet y => sstate_eqb x y
  | ANest x, ANest y => event_eqb x y
  | AReset, AReset | ASensor, ASensor | AWatercare, AWatercare => true
  | _, _ => false end.
Definition instr_eqb (a b : instr) : bool :=
  match a, b with
  | IEnter x, IEnter y | IRule x, IRule y | IPost x, IPost y => event_eqb x y
  | IAct x, IAct y => action_eqb x y
  | IReset, IReset | IRSpa, IRSpa | IRDisc, IRDisc | IRDiscStale, IRDiscStale | IRFin, IRFin | ISetId, ISetId | ISetDesc, ISetDesc | IAssertNoFac, IAssertNoFac
  | ISetSpa, ISetSpa | IFacadeIfReady, IFacadeIfReady | ICondNotFound, ICondNotFound | IExc, IExc => true
  | IAfterLoc a1 b1, IAfterLoc a2 b2 => Bool.eqb a1 a2 && Bool.eqb b1 b2
  | IWait p, IWait q => pc_eqb p q
  | _, _ => false end.
Fixpoint code_eqb (a b : list instr) : bool :=
  match a, b with [], [] => true | x :: r, y :: s => instr_eqb x y && code_eqb r s | _, _ => false end.

(* a task of the connection / of the user: not inside the manager, or suspended in the client's handler with k left to do *)
Inductive task := TNone | TSusp (k : list instr).
(* the pump: blocked (between phases, in discovery, in a handshake step, asleep, dead) or suspended in the client's handler *)
Inductive ptask := PBlocked (p : pc) | PSusp (k : list instr).
Definition task_eqb (a b : task) : bool := match a, b with TNone, TNone => true | TSusp x, TSusp y => code_eqb x y | _, _ => false end.
Definition ptask_eqb (a b : ptask) : bool := match a, b with PBlocked x, PBlocked y => pc_eqb x y | PSusp x, PSusp y => code_eqb x y | _, _ => false end.

Record ist := mkI {
  gs : mst;               (* the manager's fields and the delivery monitors of Model/Lifecycle.v; its ppc field is not used here *)
  tp : ptask; te : task; tu : task;
  ecancel : bool;         (* the connection's task cancelled itself (its own reset ran cancel_key_tasks): it dies at its next real suspension *)
  v_reset_dirty : bool;   (* sticky: an async_reset returned with a spa or descriptors present *)
  v_died : bool;          (* sticky: a task died on an AssertionError / AttributeError inside the manager *)
  cur_open : bool;        (* the datagram endpoint of the spa object the manager references is open *)
  v_leak : bool;          (* sticky: a spa object with an open endpoint was dropped (self._spa = None) without being disconnected *)
  fac_live : bool;        (* the tasks of the facade object the manager references are alive (created and not disconnected since) *)
  v_fleak : bool }.       (* sticky: a facade whose tasks are alive was dropped (self._facade = None / overwritten) without being disconnected *)

Definition ist_eqb (a b : ist) : bool :=
  mst_eqb (gs a) (gs b) && ptask_eqb (tp a) (tp b) && task_eqb (te a) (te b) && task_eqb (tu a) (tu b) &&
  Bool.eqb (ecancel a) (ecancel b) && Bool.eqb (v_reset_dirty a) (v_reset_dirty b) && Bool.eqb (v_died a) (v_died b) &&
  Bool.eqb (cur_open a) (cur_open b) && Bool.eqb (v_leak a) (v_leak b) && Bool.eqb (fac_live a) (fac_live b) && Bool.eqb (v_fleak a) (v_fleak b).

(* ---------- one burst ---------- *)
Record bst := mkB { b_g : mst; b_kill_e : bool; b_dirty : bool; b_died : bool; b_open : bool; b_leak : bool; b_new_spa : bool; b_over : bool; b_flive : bool; b_fleak : bool }.
Inductive bend := BYield (k : list instr) | BWait (p : pc) | BDone | BFuel.

Definition exc_code : list instr := if pump_survives then [IReset; IWait PIdle] else [IWait PDead].

(* returns the state, how the burst ended and the delivery (at most one: a burst ends at its first delivery) *)
Fixpoint burst (fuel : nat) (who : slot) (b : bst) (k : list instr) : bst * bend * list delivery :=
  match fuel with
  | O => (b, BFuel, [])
  | S f =>
      match k with
      | [] => (b, BDone, [])
      | i :: r =>
          let s := b_g b in
          let go s' k' := burst f who (mkB s' (b_kill_e b) (b_dirty b) (b_died b) (b_open b) (b_leak b) (b_new_spa b) (b_over b) (b_flive b) (b_fleak b)) k' in
          match i with
          | IEnter e =>
              match ss s with
              | None => if has_id s then go (upd_ss s (Some IDLE)) (IEnter CLIENT_HAS_STATUS_SENSOR :: IRule e :: IPost e :: r)
                        else go s (IRule e :: IPost e :: r)
              | Some _ => go s (IRule e :: IPost e :: r)
              end
          | IRule e => let '(g, acts) := rule_for rules e in if guard_holds g s then go s (map IAct acts ++ r) else go s r
          | IAct a =>
              match a with
              | ASet x => go (upd_st s x) r
              | ANest e' => go s (IEnter e' :: r)
              | AReset => go s (IReset :: r)
              | ASensor => go s r
              | AWatercare => if fac s && spa s then go s r     (* assert facade / spa ; await spa.async_get_watercare() *)
                              else (mkB s (b_kill_e b) (b_dirty b) true (b_open b) (b_leak b) (b_new_spa b) (b_over b) (b_flive b) (b_fleak b), BDone, [])
              end
          | IPost e =>
              let s2 := match ss s with Some _ => upd_ss s (Some (st s)) | None => s end in
              let s3 := monitor s2 e in
              (mkB s3 (b_kill_e b) (b_dirty b) (b_died b) (b_open b) (b_leak b) (b_new_spa b) (b_over b) (b_flive b) (b_fleak b), BYield r, [(e, st s3, fac s3, ss s3)])
          | IReset =>
              let s1 := upd_objs s (fac s) (spa s) false in
              let s2 := if reset_clears_facade_last then s1 else upd_objs s1 false (spa s1) (desc s1) in
              (* if self._facade is not None: await self._facade.disconnect()  (cancels the FACADE tasks; it has no suspension point) *)
              burst f who (mkB s2 (b_kill_e b) (b_dirty b) (b_died b) (b_open b) (b_leak b) (b_new_spa b) (b_over b) false (b_fleak b)) (IRSpa :: r)
          | IRSpa => if spa s then go s (IEnter RUNNING_SPA_DISCONNECTED :: IRDisc :: (if reset_loops_until_no_spa then IRSpa else IRFin) :: r) else go s (IRFin :: r)
          | IRDisc => burst f who (mkB (upd_objs s (fac s) false (desc s)) true (b_dirty b) (b_died b) false (b_leak b) (b_new_spa b) (b_over b) (b_flive b) (b_fleak b)) r
          | IRDiscStale =>
              (* the old object is closed and its - all - SPA tasks are cancelled; the reference that is cleared is the new object's *)
              if reset_loops_until_no_spa then
                (* 'if self._spa is spa' fails: the new reference stays (the loop disconnects that object next) *)
                burst f who (mkB s true (b_dirty b) (b_died b) (b_open b) (b_leak b) (b_new_spa b) (b_over b) (b_flive b) (b_fleak b)) r
              else
              burst f who (mkB (upd_objs s (fac s) false (desc s)) true (b_dirty b) (b_died b) false (b_leak b || (spa s && b_open b)) (b_new_spa b) (b_over b) (b_flive b) (b_fleak b)) r
          | IRFin =>
              let s1 := upd_st (upd_objs s false (spa s) (if reset_clears_descriptors_last then false else desc s)) IDLE in
              (* a facade created since the reset began: disconnected here (reset_disconnects_facade_last) or dropped alive *)
              burst f who (mkB s1 (b_kill_e b) (b_dirty b || spa s1 || desc s1) (b_died b) (b_open b) (b_leak b) (b_new_spa b) (b_over b) false
                               (b_fleak b || (b_flive b && negb reset_disconnects_facade_last))) r
          | ISetId => go (upd_id s true) r
          | ISetDesc => go (upd_objs s (fac s) (spa s) true) r
          | IAfterLoc fc found =>
              if fc then
                if negb (desc s) then go s (IExc :: nil)                       (* assert spa_descriptors is not None *)
                else if found then go s (IAssertNoFac :: IEnter CONNECTION_STARTED :: ISetSpa :: IWait (PConn 0) :: nil)
                else go s (IEnter SPA_NOT_FOUND :: IWait PIdle :: nil)
              else go s (IWait PIdle :: nil)
          | IAssertNoFac => if fac s then go s (IExc :: nil) else go s r
          | ISetSpa => burst f who (mkB (upd_objs s (fac s) true (desc s)) (b_kill_e b) (b_dirty b) (b_died b) true (b_leak b) true (b_over b || (spa s && b_open b)) (b_flive b) (b_fleak b)) r
          | IFacadeIfReady => if sstate_eqb (st s) SPA_READY
                              then burst f who (mkB (upd_objs s true (spa s) (desc s)) (b_kill_e b) (b_dirty b) (b_died b) (b_open b) (b_leak b) (b_new_spa b) (b_over b)
                                                    true (b_fleak b || b_flive b)) r
                              else go s r
          | ICondNotFound => if sstate_eqb (st s) ERROR_SPA_NOT_FOUND then go s (IReset :: r) else go s r
          | IExc => go s exc_code
          | IWait p => (b, BWait p, [])
          end
      end
  end.
Definition BFUEL : nat := 60.

(* ---------- labels ---------- *)
Inductive ilabel := LBig (l : label) | LResume (sl : slot).

Definition handshake_code (k : nat) (e : event) : list instr :=
  if Nat.eqb (S k) (List.length handshake_events) then [IEnter e; IFacadeIfReady; IEnter CONNECTION_FINISHED; IWait PIdle]
  else [IEnter e; IWait (PConn (S k))].

(* what the label makes which task do; None: not possible now *)
Definition start (s : ist) (l : label) : option (slot * list instr) :=
  let g := gs s in
  match l with
  | Pump =>
      match tp s with
      | PBlocked PIdle =>
          if sstate_eqb (st g) IDLE && negb (desc g) then Some (SP, [IEnter LOCATING_STARTED; IWait (PLoc false)])
          else if sstate_eqb (st g) LOCATED_SPAS && has_id g && negb (fac g) then Some (SP, [IEnter LOCATING_STARTED; IWait (PLoc true)])
          else if pump_retries_not_found && sstate_eqb (st g) ERROR_SPA_NOT_FOUND then Some (SP, [IWait PNotFound])
          else Some (SP, [IWait PIdle])
      | _ => None
      end
  | LocOutcome found raises =>
      match tp s with
      | PBlocked (PLoc fc) => if raises then Some (SP, [IEnter LOCATING_FINISHED; IExc])
                              else Some (SP, [ISetDesc; IEnter LOCATING_FINISHED; IAfterLoc fc found])
      | _ => None
      end
  | ConnOutcome o =>
      match tp s with
      | PBlocked (PConn k) =>
          if negb (spa g) then match o with CRaise => Some (SP, [IEnter CONNECTION_FINISHED; IExc]) | _ => None end
          else
          match o with
          | CNext => match nth_error handshake_events k with Some e => Some (SP, handshake_code k e) | None => None end
          | CRetryExceeded => Some (SP, [IEnter CONNECTION_PROTOCOL_RETRY_COUNT_EXCEEDED; IFacadeIfReady; IEnter CONNECTION_FINISHED; IWait PIdle])
          | CCannotFind w =>
              if Nat.ltb k 2 then None else
              let e := match w with O => CONNECTION_CANNOT_FIND_SPA_PACK | 1 => CONNECTION_CANNOT_FIND_CONFIG_VERSION | _ => CONNECTION_CANNOT_FIND_LOG_VERSION end in
              Some (SP, [IEnter e; IFacadeIfReady; IEnter CONNECTION_FINISHED; IWait PIdle])
          | CRaise => Some (SP, [IEnter CONNECTION_FINISHED; IExc])
          end
      | _ => None
      end
  | Ext e =>
      match te s with
      | TNone =>
          if spa g && existsb (event_eqb e) ext_events &&
             (if event_eqb e RUNNING_SPA_PACK_REFRESHED || event_eqb e RUNNING_SPA_WATER_CARE_ERROR then fac g else true)
          then Some (SE, [IEnter e]) else None
      | _ => None
      end
  | UserReset => match tu s with TNone => Some (SU, [IReset]) | _ => None end
  | SetSpaInfo => match tu s with TNone => Some (SU, [ISetId; IReset]) | _ => None end
  | NotFoundWake => match tp s with PBlocked PNotFound => Some (SP, [ICondNotFound; IWait PIdle]) | _ => None end
  end.

Definition resume (s : ist) (sl : slot) : option (list instr) :=
  match sl with
  | SP => match tp s with PSusp k => Some k | _ => None end
  | SE => match te s with TSusp k => Some k | _ => None end
  | SU => match tu s with TSusp k => Some k | _ => None end
  end.

Definition norm (g : mst) : mst := upd_pc g PIdle.

(* run a burst of task [who] with code k and put the result back *)
(* a new spa object has replaced the one a suspended reset is disconnecting: that reset now works on a stale object *)
Definition stale_code (k : list instr) : list instr := map (fun i => match i with IRDisc => IRDiscStale | _ => i end) k.
Definition has_disc (k : list instr) : bool := existsb (fun i => match i with IRDisc => true | _ => false end) k.
Definition task_has_disc (t : task) : bool := match t with TSusp k => has_disc k | TNone => false end.
Definition ptask_has_disc (t : ptask) : bool := match t with PSusp k => has_disc k | _ => false end.
Definition stale_task (t : task) : task := match t with TSusp k => TSusp (stale_code k) | TNone => TNone end.
Definition stale_ptask (t : ptask) : ptask := match t with PSusp k => PSusp (stale_code k) | _ => t end.

Definition exec (s : ist) (who : slot) (k : list instr) : ist * list delivery :=
  (* a connection task that cancelled itself is dead as soon as anything else runs *)
  let dead_e := ecancel s && negb (slot_eqb who SE) in
  let te0 := if dead_e then TNone else te s in
  let ec0 := if dead_e then false else ecancel s in
  let '(b, fin, d) := burst BFUEL who (mkB (gs s) false false false (cur_open s) false false false (fac_live s) false) k in
  let g := match fin with BFuel => fuel_out (b_g b) | _ => b_g b end in
  let asT := match fin with BYield r => TSusp r | _ => TNone end in
  let tp' := match who with
             | SP => match fin with BYield r => PSusp r | BWait p => PBlocked p | _ => PBlocked PDead end
             | _ => tp s end in
  (* cancel_key_tasks("SPA") ran in this burst: a suspended connection task is gone; the running one dies at its next suspension *)
  let te1 := match who with SE => asT | _ => if b_kill_e b then TNone else te0 end in
  let ec1 := match who with SE => match asT with TNone => false | _ => ec0 || b_kill_e b end | _ => if b_kill_e b then false else ec0 end in
  let tu' := match who with SU => asT | _ => tu s end in
  let fix_p t := if b_new_spa b then match who with SP => t | _ => stale_ptask t end else t in
  let fix_e t := if b_new_spa b then match who with SE => t | _ => stale_task t end else t in
  let fix_u t := if b_new_spa b then match who with SU => t | _ => stale_task t end else t in
  (mkI (norm g) (fix_p tp') (fix_e te1) (fix_u tu') ec1 (v_reset_dirty s || b_dirty b) (v_died s || b_died b) (b_open b)
       (* a referenced, open spa object was overwritten by a new one while no suspended reset is about to close it *)
       (v_leak s || b_leak b || (b_over b && negb (ptask_has_disc tp' || task_has_disc te1 || task_has_disc tu')))
       (b_flive b) (v_fleak s || b_fleak b), d).

Definition istep (s : ist) (l : ilabel) : option (ist * list delivery) :=
  match l with
  | LBig b => match start s b with Some (who, k) => Some (exec s who k) | None => None end
  | LResume sl => match resume s sl with Some k => Some (exec s sl k) | None => None end
  end.

Definition iinit (configured : bool) : ist := mkI (norm (init configured)) (PBlocked PIdle) TNone TNone false false false false false false false.
(* __aenter__ : SPA_MAN_ENTER is delivered before the pump exists; the caller of __aenter__ is the user's task *)
Definition ienter_label : list instr := [IEnter SPA_MAN_ENTER].

Definition all_ilabels : list ilabel := map LBig all_labels ++ [LResume SP; LResume SE; LResume SU].
Definition ientered (configured : bool) : ist := mkI (norm (entered configured)) (PBlocked PIdle) TNone TNone false false false false false false false.

(* ---------- a hash of the state (speed only: Lib/HashReach proves nothing about it) ---------- *)
Local Open Scope N_scope.
Definition bN (b : bool) : N := if b then 1 else 0.
Fixpoint index_of {A} (eqb : A -> A -> bool) (x : A) (l : list A) (n : N) : N :=
  match l with [] => n | y :: r => if eqb x y then n else index_of eqb x r (n + 1) end.
Definition st_idx (x : sstate) : N := index_of sstate_eqb x all_states 0.
Definition ev_idx (x : event) : N := index_of event_eqb x all_events 0.
Definition pc_idx (p : pc) : N := match p with PIdle => 0 | PLoc b => 1 + bN b | PConn k => 3 + N.of_nat k | PDead => 20 | PNotFound => 21 end.
Definition instr_code (i : instr) : N :=
  match i with
  | IEnter e => 1 + 32 * ev_idx e | IRule e => 2 + 32 * ev_idx e | IPost e => 3 + 32 * ev_idx e
  | IAct a => 4 + 32 * match a with ASet x => st_idx x | ANest e => 12 + ev_idx e | AReset => 50 | ASensor => 51 | AWatercare => 52 end
  | IReset => 5 | IRSpa => 6 | IRDisc => 7 | IRDiscStale => 18 | IRFin => 8 | ISetId => 9 | ISetDesc => 10 | IAfterLoc a b => 11 + 32 * (bN a + 2 * bN b)
  | IAssertNoFac => 12 | ISetSpa => 13 | IFacadeIfReady => 14 | ICondNotFound => 15 | IExc => 16 | IWait p => 17 + 32 * pc_idx p
  end.
Definition code_hash (k : list instr) : N := fold_left (fun h i => (h * 131 + instr_code i) mod 1000003) k 7.
Definition task_hash (t : task) : N := match t with TNone => 0 | TSusp k => 1 + code_hash k end.
Definition ptask_hash (t : ptask) : N := match t with PBlocked p => pc_idx p | PSusp k => 30 + code_hash k end.
Definition ikey (s : ist) : positive :=
  let g := gs s in
  let a := st_idx (st g) + 10 * (bN (fac g) + 2 * bN (spa g) + 4 * bN (desc g) + 8 * bN (has_id g) + 16 * bN (ready_open g) + 32 * bN (loc_open g) + 64 * bN (conn_open g)
           + 128 * match ss g with Some x => 1 + st_idx x | None => 0 end) in
  N.succ_pos ((a * 7919 + ptask_hash (tp s) * 31 + task_hash (te s) * 17 + task_hash (tu s)) mod 16777213).
Local Close Scope N_scope.

Definition isuccs (s : ist) : list ist :=
  flat_map (fun l => match istep s l with Some (s', _) => [s'] | None => [] end) all_ilabels.
Definition ireach_upto (fuel : nat) : list ist := hreach ist ist_eqb ikey isuccs fuel [ientered true; ientered false].
