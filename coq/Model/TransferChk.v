From Coq Require Import ZArith List Bool.
Require Import GV.Lib.Bytes GV.Model.Wire GV.Model.WireChk GV.Model.Transfer.
Import ListNotations.
Open Scope Z_scope.

Definition chk_chain (blk : list Z) (start len : Z) (e : list (Z * Z * list Z)) : bool :=
  leqb (fun a b => (fst (fst a) =? fst (fst b)) && (snd (fst a) =? snd (fst b)) && bytes_eqb (snd a) (snd b))
       (map (fun s => (idx s, nxt s, dat s)) (sim_chain blk start len)) e.

(* compact event script: EC k = k-th segment of the spa's chain for this request, ET = timeout, ER = any other segment *)
Inductive ev := EC (k : nat) | ET | ER (i n : Z) (d : list Z).
Definition to_cev (chain : list seg) (e : ev) : cev :=
  match e with EC k => Seg (nth k chain (mkSeg 0 0 [])) | ET => Timeout | ER i n d => Seg (mkSeg i n d) end.
Definition st_code (s : status) : Z := match s with Running => 0 | Installed => 1 | Failed => 2 end.

Definition chk_client (async : bool) (spa b0 : list Z) (start len : Z) (retries : nat) (es : list ev)
                      (est esends : Z) (eblk : list Z) : bool :=
  let chain := sim_chain spa start len in
  let evs := map (to_cev chain) es in
  let r := if async then run (Z.to_nat start) (init retries b0) evs else sync_run (Z.to_nat start) (sync_init retries b0) evs in
  (st_code (st r) =? est) && (Z.of_nat (sends r) =? esends) && bytes_eqb (blk r) eblk.
