(* C07: the peekable receive queue of a connection and its polling consumers.
   consumers: the unhandled-datagram consumer (mark - sleep up to unhandled_patience intervals - pop if still marked;
   the patience is read from the AST of driver/protocol/unhandled.py on every run), the registered consumers and the
   request waiters (peek, can_handle, pop), the packet consumer (unwrap and re-queue when the identifier pair is ours).
   A datagram is abstracted to what matters here: which handler classes accept it (decided on the bytes by the real
   can_handle, C04) and, for a framed packet, whether its identifier pair is this connection's and what it carries. *)
From Coq Require Import ZArith List Bool.
Require Import GV.Gen.DispatchFacts.
Import ListNotations.

Inductive dgram :=
| Plain (acc : list nat)                              (* classes whose can_handle accepts it *)
| Packet (ours : bool) (inner : list nat).            (* <PACKT>: parms == sendparms?, acceptors of the content *)
Definition PACKET_CLASS : nat := 1.                   (* index of the packet handler class in the class table *)
Definition acceptors (d : dgram) : list nat := match d with Plain a => a | Packet _ _ => [PACKET_CLASS] end.

Inductive cons := Unh | K (class : nat).              (* K c: a registered consumer or a request waiter of handler class c *)
Record st := mk { q : list (nat * dgram);             (* (ghost id, datagram), head first *)
                  marked : bool;                      (* AsyncPeekableQueue._marked *)
                  uph : nat;                          (* sleeps the unhandled consumer has left in its mark phase (0: idle) *)
                  popped : list (nat * dgram * cons);
                  nextid : nat }.
Inductive label := Put (d : dgram) | Poll (c : cons).

Definition accepts (k : nat) (d : dgram) : bool := existsb (Nat.eqb k) (acceptors d).

Definition pop_by (s : st) (c : cons) : st :=
  match q s with
  | (i, d) :: r => mk r false (uph s) ((i, d, c) :: popped s) (nextid s)
  | [] => s
  end.
Definition put (s : st) (d : dgram) : st := mk (q s ++ [(nextid s, d)]) (marked s) (uph s) (popped s) (S (nextid s)).

Definition step (s : st) (l : label) : st :=
  match l with
  | Put d => put s d
  | Poll (K k) =>
      match q s with
      | (i, d) :: _ =>
          if accepts k d then
            let s' := pop_by s (K k) in
            (* the packet consumer re-queues the content iff the packet's identifier pair is this connection's *)
            match d with
            | Packet true inner => if Nat.eqb k PACKET_CLASS then put s' (Plain inner) else s'
            | _ => s'
            end
          else s
      | [] => s
      end
  | Poll Unh =>
      match uph s with
      | O => match q s with
             | [] => s
             | _ => mk (q s) true unhandled_patience (popped s) (nextid s)   (* mark, then sleep *)
             end
      | S n =>                                        (* woke up from a sleep of the mark phase *)
          if marked s then
            match n with
            | O => pop_by (mk (q s) (marked s) 0 (popped s) (nextid s)) Unh   (* patience used up, still marked: discard *)
            | S _ => mk (q s) (marked s) n (popped s) (nextid s)                (* sleep again *)
            end
          else mk (q s) (marked s) 0 (popped s) (nextid s)                      (* somebody took it: back to idle *)
      end
  end.
Definition run (s : st) (ls : list label) : st := fold_left step ls s.
Definition init : st := mk [] false 0 [] 0.
