From Coq Require Import ZArith List Bool.
Require Import GV.Lib.Bytes GV.Model.Wire GV.Model.WireChk GV.Model.Partial GV.Gen.Counter.
Import ListNotations.
Open Scope Z_scope.
(* history correspondence: blocks after every event and acknowledgement datagrams (content bytes) per event *)
Definition chk_partial (async : bool) (b0 : list Z) (es : list pev) (eblks : list (list Z)) (eacks : list (list (list Z))) : bool :=
  let '(s, ackss, blks) := Partial.run async (mkP b0 [] (if async then async_init else sync_init)) es in
  leqb bytes_eqb blks eblks && leqb (leqb bytes_eqb) ackss eacks.
