(* C09: self-healing on the lifecycle LTS (Model/Lifecycle.v, interpreted from the rule table and pump shape extracted
   from async_spa_manager.py).  Faults - lost discovery replies, handshake retries exceeded, missed pings, RF errors, user
   resets and set-spa-info at any moment, exceptions in an attempt - are the labels; "the network is healthy again" is the
   scheduler below: discovery finds the spa, every handshake step succeeds, the old connection's ping loop (if it is still
   there) gets its answer. *)
From Coq Require Import List Bool ZArith.
Require Import GV.Gen.LifecycleRules GV.Model.Lifecycle.
Import ListNotations.

(* fault / user labels: everything except 'this spa pack / config / log version is not supported' (not a network fault) *)
Definition fault_label (l : label) : bool := match l with ConnOutcome (CCannotFind _) => false | _ => true end.
Definition fault_labels : list label := filter fault_label all_labels.

Definition succs9 (s : mst) : list mst :=
  flat_map (fun l => match step s l with Some (s', _) => [s'] | None => [] end) fault_labels.
Fixpoint explore9 (fuel : nat) (frontier seen : list mst) : list mst :=
  match fuel with
  | O => seen
  | S f => match frontier with
           | [] => seen
           | _ => let '(seen', fr') := add_all (flat_map succs9 frontier) seen [] in explore9 f fr' seen'
           end
  end.
(* configured manager (address / identifier given): the property's premise *)
Definition reach9 : list mst := Eval vm_compute in explore9 200 [entered true] [entered true].

Definition healed (s : mst) : bool := sstate_eqb (st s) CONNECTED && fac s && spa s.
Definition waits_for_ping (x : sstate) : bool :=
  sstate_eqb x ERROR_PING_MISSED || sstate_eqb x ERROR_RF_FAULT || sstate_eqb x ERROR_NEEDS_ATTENTION.

(* what happens next when the network is healthy, with the virtual seconds it can take at most (config: see cost) *)
Record costs := { k_poll : Z; k_discovery : Z; k_request : Z; k_ping : Z }.
Definition healthy_label (s : mst) : option label :=
  match ppc s with
  | PLoc _ => Some (LocOutcome true false)
  | PConn _ => Some (ConnOutcome (if spa s then CNext else CRaise))
  | PNotFound => Some NotFoundWake
  | PDead => None
  | PIdle => if waits_for_ping (st s) && spa s then Some (Ext RUNNING_PING_RECEIVED) else Some Pump
  end.
Definition cost (k : costs) (l : label) : Z :=
  match l with
  | Pump => k_poll k
  | LocOutcome _ _ | NotFoundWake => k_discovery k
  | ConnOutcome _ => k_request k
  | Ext _ => k_ping k
  | _ => 0
  end.
(* run the healthy schedule until CONNECTED with a facade: Some (virtual seconds) or None if it does not get there *)
Fixpoint heal (k : costs) (fuel : nat) (s : mst) (spent : Z) : option Z :=
  if healed s then Some spent else
  match fuel with
  | O => None
  | S f => match healthy_label s with
           | Some l => match step s l with Some (s', _) => heal k f s' (spent + cost k l)%Z | None => None end
           | None => None
           end
  end.
Definition FUELH : nat := 40.
(* idle configuration: discovery <= 10 s (+ its poll); one request exchange <= C06's bound for 10 attempts, 63.1 s (HealP.request_cost_covers_c06_bound);
   the next ping of a connection that is still pinging <= ping frequency 60 s + wait for the lock behind one exchange ... a ping is a 1-attempt
   call: 60 + 6.4 s, rounded up with the poll *)
Definition idle_costs : costs := {| k_poll := 1; k_discovery := 11; k_request := 64; k_ping := 71 |}.
