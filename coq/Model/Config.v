(* C17: set_config_mode / config_sleep (geckolib/config.py) and the facade's active test. *)
From Coq Require Import ZArith List Bool String.
Import ListNotations.
Open Scope Z_scope.

(* ---- the live timing table as an association list member -> value ---- *)
Definition table := list (string * Z).
Fixpoint lookup (k : string) (t : table) : option Z :=
  match t with [] => None | (k', v) :: r => if String.eqb k k' then Some v else lookup k r end.
Fixpoint set (k : string) (v : Z) (t : table) : table :=
  match t with [] => [(k, v)] | (k', v') :: r => if String.eqb k k' then (k, v) :: r else (k', v') :: set k v r end.
(* for member in CONFIG_MEMBERS: setattr(GeckoConfig, member, getattr(new_config, member)) *)
Definition set_config_mode (members : list string) (chosen live : table) : table :=
  fold_left (fun t m => match lookup m chosen with Some v => set m v t | None => t end) members live.

(* ---- config_sleep: shared future, renewed when done ---- *)
Record cst := mkC { pending : bool;                 (* a shared future exists and is not done *)
                    sleepers : list (Z * Z);        (* (sleeper id, deadline) waiting on the shared future *)
                    now : Z;
                    woken : list (Z * Z * Z) }.     (* (sleeper id, deadline, wake time), most recent first *)
Inductive cev := Sleep (id d : Z) | Switch | Advance (t : Z).

Definition due (t : Z) (s : Z * Z) : bool := snd s <=? t.
Definition step (s : cst) (e : cev) : cst :=
  match e with
  | Sleep id d =>        (* ConfigChange None or done -> new future; then wait([fut], timeout=d) *)
      mkC true (sleepers s ++ [(id, now s + d)]) (now s) (woken s)
  | Switch =>            (* if not ConfigChange.done(): set_result(True) -> every waiter is released now *)
      if pending s then mkC false [] (now s) (rev (map (fun p => (fst p, snd p, now s)) (sleepers s)) ++ woken s)
      else s
  | Advance t =>         (* timers: every waiter whose timeout has expired is released at its deadline *)
      if t <? now s then s else
      let d := filter (due t) (sleepers s) in
      mkC (pending s) (filter (fun p => negb (due t p)) (sleepers s)) t (rev (map (fun p => (fst p, snd p, snd p)) d) ++ woken s)
  end.
Definition run (s : cst) (es : list cev) : cst := fold_left step es s.
Definition init : cst := mkC false [] 0 [].

(* ---- the facade: active iff some pump or blower is on ---- *)
Definition active (pumps_on blowers_on : list bool) : bool := existsb (fun b => b) (pumps_on ++ blowers_on).
