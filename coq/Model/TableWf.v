(* Well-formedness of a regenerated pack table module (C18, used by C02/C11/C12). *)
From Coq Require Import ZArith List Bool String.
Require Import GV.Lib.Dec GV.Model.Accessor.
Import ListNotations.
Open Scope Z_scope.

Inductive mkind := KPack | KCfg | KLog.
Record tmodule := mkM {
  m_file : string;             (* module file stem, e.g. "inxm-cfg-9" *)
  m_kind : mkind;
  m_version : Z;               (* declared cfg/log version *)
  m_pack_name : string; m_pack_type : Z; m_revision : string;   (* pack modules *)
  m_begin : Z; m_end : Z;      (* log modules: refresh window *)
  m_outputs : list string; m_devices : list string; m_demands : list string; m_errors : list string;
  m_items : list titem }.

Definition oz_eqb (a b : option Z) : bool :=
  match a, b with Some x, Some y => x =? y | None, None => true | _, _ => false end.
Definition shape_eqb (a b : shape) : bool :=
  (s_len a =? s_len b) && Bool.eqb (s_two a) (s_two b) && oz_eqb (s_mask a) (s_mask b).

Definition block_size : Z := 1024.

(* an item is addressable: the attributes the real constructor derived are the ones the
   model derives; bytes inside the block; bit field inside its bytes; labels representable *)
Definition item_ok (t : titem) : bool :=
  let d := t_decl t in let s := t_shape t in
  shape_eqb (derive d) s &&
  (0 <=? d_pos d) && (d_pos d + s_len s <=? block_size) &&
  (((s_len s =? 1) && negb (s_two s)) || ((s_len s =? 2) && s_two s)) &&
  match d_bitpos d with
  | None => true
  | Some bp => match s_mask s with
               | Some m => match mask_width m with Some w => (0 <=? bp) && (bp + w <=? 8 * s_len s) | None => false end
               | None => false
               end
  end &&
  match d_type d with
  | TEnum => match d_items d with
             | Some ls => Z.of_nat (List.length ls) <=?
                            (match d_bitpos d, s_mask s with Some _, Some m => m + 1 | _, _ => if s_two s then 65536 else 256 end)
             | None => false
             end
  | _ => true
  end.

(* Items of the audited commit that are NOT addressable (genuine table defects, recorded
   in /verif/known_findings.json as K1/K2).  A new exception breaks the obligation. *)
Definition known_bad : list (string * string) :=
  [ ("mrsteam-log-1", "WaterDetected");          (* K1: byte 2658 is outside the 1024-byte block *)
    ("mas-ibc-32k-log-1", "UserDryingDelay");    (* K2: 61 labels on a 4-bit field *)
    ("mas-ibc-32k-log-1", "PurgeDelayTimer")     (* K2: 61 labels on a 1-bit field *)
  ]%string.
Definition is_known_bad (file tag : string) : bool :=
  existsb (fun p => String.eqb (fst p) file && String.eqb (snd p) tag) known_bad.

Definition tags (m : tmodule) : list string := map (fun t => d_tag (t_decl t)) (m_items m).
Definition mem_str (s : string) (l : list string) : bool := existsb (String.eqb s) l.
Definition keys_resolve (m : tmodule) : bool :=
  forallb (fun k => mem_str k (tags m)) (m_outputs m ++ m_demands m ++ m_errors m).

Fixpoint nodup_str (l : list string) : bool :=
  match l with [] => true | x :: r => negb (mem_str x r) && nodup_str r end.

Definition module_ok (m : tmodule) : bool :=
  forallb (fun t => item_ok t || is_known_bad (m_file m) (d_tag (t_decl t))) (m_items m) &&
  keys_resolve m && nodup_str (tags m).

(* ---- module naming (C18): file stem = lower(platform) [+ "-cfg-"/"-log-" + declared version] *)
Definition name_ok (packs : list string) (m : tmodule) : bool :=
  match m_kind m with
  | KPack => String.eqb (m_file m) (lower (m_pack_name m))
  | KCfg => existsb (fun p => String.eqb (m_file m) (p ++ "-cfg-" ++ dec_of_Z (m_version m))%string) packs
  | KLog => existsb (fun p => String.eqb (m_file m) (p ++ "-log-" ++ dec_of_Z (m_version m))%string) packs
  end.
Definition pack_files (all : list tmodule) : list string :=
  map m_file (filter (fun m => match m_kind m with KPack => true | _ => false end) all).
Definition names_ok (all : list tmodule) : bool := forallb (name_ok (pack_files all)) all && nodup_str (map m_file all).

(* ---- published layout (C18): positions, widths, bit positions, labels, writability, refresh window *)
Definition ols_eqb (a b : option (list string)) : bool :=
  match a, b with
  | Some x, Some y => Nat.eqb (List.length x) (List.length y) && forallb (fun p => String.eqb (fst p) (snd p)) (combine x y)
  | None, None => true | _, _ => false end.
Definition item_layout_eqb (p c : titem) : bool :=
  let dp := t_decl p in let dc := t_decl c in
  String.eqb (d_tag dp) (d_tag dc) && atype_eqb (d_type dp) (d_type dc) && (d_pos dp =? d_pos dc) &&
  oz_eqb (d_bitpos dp) (d_bitpos dc) && ols_eqb (d_items dp) (d_items dc) &&
  Bool.eqb (d_rw dp) (d_rw dc) && Bool.eqb (d_temp dp) (d_temp dc) && shape_eqb (t_shape p) (t_shape c).
Definition find_item (tag : string) (l : list titem) : option titem :=
  find (fun t => String.eqb (d_tag (t_decl t)) tag) l.
Definition layout_eqb (p c : tmodule) : bool :=
  String.eqb (m_file p) (m_file c) && (m_version p =? m_version c) && (m_pack_type p =? m_pack_type c) &&
  (m_begin p =? m_begin c) && (m_end p =? m_end c) &&
  Nat.eqb (List.length (m_items p)) (List.length (m_items c)) &&
  forallb (fun t => match find_item (d_tag (t_decl t)) (m_items c) with Some t' => item_layout_eqb t t' | None => false end) (m_items p).
