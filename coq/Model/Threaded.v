(* C20: one iteration of GeckoUdpSocket._thread_func as a deterministic function of (state, now, incoming datagram):
   throttled FIFO send, first can_handle wins, exceptions isolated, loop -> retry -> re-queue -> on_retry_failed,
   _cleanup_handlers.  Times in milliseconds. Handlers are abstract: which datagrams they accept and what handling does. *)
From Coq Require Import ZArith List Bool.
Import ListNotations.
Open Scope Z_scope.

Inductive effect := Keep | Remove | Raise.       (* handle(): stays registered / sets should_remove_handler / raises *)
Record hst := mkH { hid : nat; start : Z; tmo : Z; left : nat; rm : bool;
                    dest : bool }.               (* last_destination is set: transmitted at least once *)
(* a queued send is (handler, destination known?): retry() re-queues with handler.last_destination, which is None until
   the handler's first transmission - such an entry is consumed without being transmitted (AssertionError, logged).
   out = every entry taken from the send queue, in order, with its transmission time (None = consumed, not transmitted) *)
Record eng := mkE { sendq : list (nat * bool); hs : list hst; last_send : Z; out : list (nat * option Z); enq : list nat }.

Definition sent (e : eng) : list (Z * nat) :=
  flat_map (fun p => match snd p with Some t => [(t, fst p)] | None => [] end) (out e).

Section Engine.
  Variable dg : Type.
  Variable accepts : nat -> dg -> bool.
  Variable eff : nat -> dg -> effect.
  Definition THROTTLE : Z := 20.                   (* 1 / _SENDING_THROTTLE_RATE_PER_SECOND *)

  Definition mark_sent (x : nat) (l : list hst) : list hst :=
    map (fun h => if Nat.eqb (hid h) x then mkH (hid h) (start h) (tmo h) (left h) (rm h) true else h) l.
  (* _process_send_requests *)
  Definition do_send (e : eng) (now : Z) : eng :=
    if now - last_send e <? THROTTLE then e else
    match sendq e with
    | [] => e
    | (x, true) :: r => mkE r (mark_sent x (hs e)) now (out e ++ [(x, Some now)]) (enq e)
    | (x, false) :: r => mkE r (hs e) (last_send e) (out e ++ [(x, None)]) (enq e)
    end.

  (* dispatch_recevied_data: the first registered handler that accepts; handled() resets its timeout *)
  Fixpoint dispatch (l : list hst) (now : Z) (d : dg) : list hst :=
    match l with
    | [] => []
    | h :: r =>
        if accepts (hid h) d then
          match eff (hid h) d with
          | Raise => h :: r                                              (* logged; handled() not reached *)
          | Keep => mkH (hid h) now (tmo h) (left h) (rm h) (dest h) :: r
          | Remove => mkH (hid h) now (tmo h) (left h) true (dest h) :: r
          end
        else h :: dispatch r now d
    end.

  Definition timed_out (h : hst) (now : Z) : bool := (0 <? tmo h) && (tmo h <? now - start h).
  (* for handler in _receive_handlers: handler.loop(self): a timed-out handler either retries (one retry less, timeout
     reset, its send re-queued) or, out of retries, is marked for removal (default on_retry_failed) *)
  Definition retried (now : Z) (h : hst) : bool := timed_out h now && match left h with S _ => true | O => false end.
  Definition loop_h (now : Z) (h : hst) : hst :=
    if timed_out h now then
      match left h with
      | S k => mkH (hid h) now (tmo h) k (rm h) (dest h)
      | O => mkH (hid h) (start h) (tmo h) O true (dest h)
      end
    else h.
  Definition loop_all (l : list hst) (now : Z) : list hst * list (nat * bool) :=
    (map (loop_h now) l, map (fun h => (hid h, dest h)) (filter (retried now) l)).

  Definition iter (e : eng) (ev : Z * option dg) : eng :=
    let '(now, inc) := ev in
    let e1 := do_send e now in
    let hs1 := match inc with Some d => dispatch (hs e1) now d | None => hs e1 end in
    let '(hs2, q) := loop_all hs1 now in
    mkE (sendq e1 ++ q) (filter (fun h => negb (rm h)) hs2) (last_send e1) (out e1) (enq e1 ++ map fst q).
  Definition run (e : eng) (evs : list (Z * option dg)) : eng := fold_left iter evs e.

  (* client calls: queue_send (always with a destination) / add_receive_handler *)
  Definition queue_send (e : eng) (x : nat) : eng := mkE (sendq e ++ [(x, true)]) (hs e) (last_send e) (out e) (enq e ++ [x]).
  Definition add_handler (e : eng) (h : hst) : eng := mkE (sendq e) (hs e ++ [h]) (last_send e) (out e) (enq e).
End Engine.
