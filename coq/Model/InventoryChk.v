From Coq Require Import ZArith List Bool String.
Require Import GV.Model.Accessor GV.Model.TableWf GV.Model.Inventory GV.Gen.InventoryTables.
Import ListNotations.
Open Scope string_scope.
Fixpoint ls_eqb (a b : list string) : bool :=
  match a, b with [] , [] => true | x :: r, y :: s => String.eqb x y && ls_eqb r s | _, _ => false end.
Fixpoint lp_eqb (a b : list (string * string)) : bool :=
  match a, b with [], [] => true | (x, u) :: r, (y, v) :: s => String.eqb x y && String.eqb u v && lp_eqb r s | _, _ => false end.
(* one wiring: output values in output_keys order; expected (device, demand) lists per class and the key list *)
Definition chk_scan (m_log : tmodule) (item_keys values : list string)
                    (ep eb el : list (string * string)) (ekeys : list string) : bool :=
  let '(p, b, l) := scan devices_table (m_devices m_log) (m_demands m_log) values in
  lp_eqb p ep && lp_eqb b eb && lp_eqb l el &&
  ls_eqb (all_keys devices_table sensors_table binary_sensors_table fixed_keys item_keys (m_devices m_log) (m_demands m_log) values) ekeys.
