From Coq Require Import ZArith List Bool.
Require Import GV.Lib.Bytes GV.Model.Wire GV.Model.WireChk GV.Model.Snapshot.
Import ListNotations.
Open Scope Z_scope.
Definition oz3_eqb (a b : option (Z * Z * Z)) : bool :=
  match a, b with Some (x, y, z), Some (x', y', z') => (x =? x') && (y =? y') && (z =? z') | None, None => true | _, _ => false end.
Definition ozz_eqb (a b : option Z) : bool := match a, b with Some x, Some y => x =? y | None, None => true | _, _ => false end.
(* one log line as the real logging formatter produced it, and what the real parser extracted from it *)
Definition chk_data_line (line : list Z) (e : option (list Z)) : bool := obytes_eqb (parse_data_line line) e.
Definition chk_ver_line (line : list Z) (een eco : option (Z * Z * Z)) (ecfg elog : option Z) : bool :=
  oz3_eqb (parse_ver3 L_EN line) een && oz3_eqb (parse_ver3 L_CO line) eco &&
  ozz_eqb (parse_num L_CFG line) ecfg && ozz_eqb (parse_num L_LOG line) elog.
Definition chk_pack_line (line : list Z) (e : option (list Z * (Z * Z * Z))) : bool :=
  match parse_pack line, e with
  | Some (p, v), Some (p', v') => bytes_eqb p p' && oz3_eqb (Some v) (Some v')
  | None, None => true | _, _ => false end.
Definition chk_snap_line (line : list Z) (e : option (list Z)) : bool := obytes_eqb (parse_snap line) e.
(* writer: message text (without the logging prefix) *)
Definition chk_render (blk : list Z) (eblk : list Z) (en co : Z * Z * Z) (een eco : list Z) (cfg log : Z) (ecfg elog : list Z)
                      (pack : list Z) (pv : Z * Z * Z) (epack : list Z) : bool :=
  bytes_eqb (render_block blk) eblk &&
  bytes_eqb (render_en (fst (fst en)) (snd (fst en)) (snd en)) een && bytes_eqb (render_co (fst (fst co)) (snd (fst co)) (snd co)) eco &&
  bytes_eqb (render_cfg cfg) ecfg && bytes_eqb (render_log log) elog &&
  bytes_eqb (render_pack pack (fst (fst pv)) (snd (fst pv)) (snd pv)) epack.
Definition chk_reassemble (ds : list (list Z)) (e : list Z) : bool := bytes_eqb (reassemble ds) e.
