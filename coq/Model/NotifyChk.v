(* Comparison helpers for the C03 history correspondence. *)
From Coq Require Import ZArith List Bool String.
Require Import GV.Lib.Bytes GV.Model.Accessor GV.Model.AccessorChk GV.Model.Notify.
Import ListNotations.
Open Scope Z_scope.

Definition cb_eqb (a b : callback) : bool :=
  let '(i, ob, o, n) := a in let '(i', ob', o', n') := b in
  Nat.eqb i i' && (ob =? ob') && value_eqb o o' && value_eqb n n'.
Fixpoint list_eqb {A} (f : A -> A -> bool) (a b : list A) : bool :=
  match a, b with [], [] => true | x :: r, y :: s => f x y && list_eqb f r s | _, _ => false end.
Definition chk_hist (decls : list decl) (b0 : list Z) (ops : list op) (ecbs : list (list callback)) (eblk : list Z) : bool :=
  let '(s, cbs) := run (mkSt b0 (map (fun d => mkW (acc_of d) []) decls)) ops in
  lz_eqb (blk s) eblk && list_eqb (list_eqb cb_eqb) cbs ecbs.
