From Coq Require Import ZArith List Bool.
Require Import GV.Model.Threaded.
Import ListNotations.
Open Scope Z_scope.
(* handlers described by a table (handler id, verb, effect) *)
Definition tbl_accepts (t : list (nat * Z * effect)) (h : nat) (d : Z) : bool :=
  existsb (fun r => Nat.eqb (fst (fst r)) h && (snd (fst r) =? d)) t.
Definition tbl_eff (t : list (nat * Z * effect)) (h : nat) (d : Z) : effect :=
  match find (fun r => Nat.eqb (fst (fst r)) h && (snd (fst r) =? d)) t with Some r => snd r | None => Keep end.
Inductive op := OAdd (h : nat) (now tmo : Z) (left : nat) | OSend (h : nat) | OIter (now : Z) (d : option Z).
Definition apply_op t (e : eng) (o : op) : eng :=
  match o with
  | OAdd h now tm l => add_handler e (mkH h now tm l false false)
  | OSend h => queue_send e h
  | OIter now d => iter Z (tbl_accepts t) (tbl_eff t) e (now, d)
  end.
Fixpoint pl_eqb (a b : list (Z * nat)) : bool :=
  match a, b with [], [] => true | (t, h) :: r, (t', h') :: s => (t =? t') && Nat.eqb h h' && pl_eqb r s | _, _ => false end.
Fixpoint ln_eqb (a b : list nat) : bool :=
  match a, b with [], [] => true | x :: r, y :: s => Nat.eqb x y && ln_eqb r s | _, _ => false end.
Definition chk_engine (t : list (nat * Z * effect)) (ops : list op) (esent : list (Z * nat)) (ehandlers : list (nat * nat)) (esendq : list nat) : bool :=
  let e := fold_left (apply_op t) ops (mkE [] [] (-1000000) [] []) in
  pl_eqb (sent e) esent && ln_eqb (map fst (sendq e)) esendq &&
  ln_eqb (map hid (hs e)) (map fst ehandlers) && ln_eqb (map left (hs e)) (map snd ehandlers).

(* the registered handlers after every single iteration (not only at the end): a request that has been answered or has given up
   must be gone when the iteration that decided it is over *)
Fixpoint lln_eqb (a b : list (list nat)) : bool :=
  match a, b with [], [] => true | x :: r, y :: s => ln_eqb x y && lln_eqb r s | _, _ => false end.
Fixpoint hist t (e : eng) (ops : list op) : list (list nat) :=
  match ops with
  | [] => []
  | o :: r => let e' := apply_op t e o in
              match o with OIter _ _ => map hid (hs e') :: hist t e' r | _ => hist t e' r end
  end.
Definition chk_engine_hist (t : list (nat * Z * effect)) (ops : list op) (ehist : list (list nat)) : bool :=
  lln_eqb (hist t (mkE [] [] (-1000000) [] []) ops) ehist.
