(* C14: temperatures through IEEE binary64 (CPython float = kernel primitive float).
   GeckoTempStructAccessor._get_value / _set_value, GeckoWaterHeater limits, unit symbol, operation ladder. *)
From Coq Require Import ZArith List Bool PrimFloat Uint63 FloatOps SpecFloat.
Import ListNotations.

(* int(x): truncation toward zero of a finite float *)
Definition trunc (x : float) : option Z :=
  match Prim2SF x with
  | S754_zero _ => Some 0%Z
  | S754_finite s m e =>
      let mag := if (0 <=? e)%Z then (Z.pos m * 2 ^ e)%Z else (Z.pos m / 2 ^ (- e))%Z in
      Some (if s then (- mag)%Z else mag)
  | _ => None
  end.

(* float(n) for |n| < 2^62 (exact below 2^53) *)
Definition fl (z : Z) : float :=
  if (z <? 0)%Z then (- of_uint63 (Uint63.of_Z (- z)))%float else of_uint63 (Uint63.of_Z z).

Inductive unit := UC | UF.
(* _get_value: temp / 18.0  or  (temp + 320) / 10.0 *)
Definition get_temp (u : unit) (r : Z) : float :=
  match u with UC => (fl r / fl 18)%float | UF => (fl (r + 320) / fl 10)%float end.
(* _set_value: int(float(t) * 18.0)  or  int(float(t) * 10.0 - 320) *)
Definition set_temp (u : unit) (t : float) : option Z :=
  match u with UC => trunc (t * fl 18)%float | UF => trunc (t * fl 10 - fl 320)%float end.

(* a decimal temperature k/100 as Python parses it: the correctly rounded double *)
Definition dec100 (k : Z) : float := (fl k / fl 100)%float.

(* GeckoWaterHeater *)
Definition limits (u : unit) : Z * Z := match u with UC => (15, 40)%Z | UF => (59, 104)%Z end.
Definition symbol_is_celsius (u : unit) : bool := match u with UC => true | UF => false end.
Definition unit_of_label (units_value_is_C : bool) : unit := if units_value_is_C then UC else UF.

Inductive operation := Heating | Cooling | Idle.
(* current_operation: flags (None = item absent from the pack) first, then current vs real target *)
Definition current_operation (heat cool : option bool) (cur target : float) : operation :=
  match heat, cool with
  | Some h, Some c => if h then Heating else if c then Cooling else Idle
  | _, _ =>
      if (match heat with Some true => true | _ => false end) then Heating
      else if (match cool with Some true => true | _ => false end) then Cooling
      else if (cur <? target)%float then Heating
      else if (target <? cur)%float then Cooling
      else Idle
  end.

Fixpoint upto (n : nat) (z : Z) : list Z := match n with O => [] | S k => z :: upto k (z + 1)%Z end.
Definition all_words : list Z := upto (Z.to_nat 65536) 0%Z.
Definition grid : list Z := upto (Z.to_nat 20001) 0%Z.      (* k/100 for 0 <= k <= 20000: 0.00 .. 200.00 *)
