(* C15: GeckoAsyncLocator.discover as a labelled transition system.  Times in milliseconds since discovery started. *)
From Coq Require Import ZArith List Bool.
Import ListNotations.
Open Scope Z_scope.

Record reply := mkR { r_id : Z; r_name : Z; r_addr : Z }.       (* decoded hello reply (fields as interned values) *)
Record dst := mkD {
  queue : list reply;            (* receive queue of the locator's endpoint, head first *)
  seen : list Z;                 (* _spa_identifiers *)
  spas : list reply;             (* _spas, in discovery order *)
  found : bool;                  (* _has_found_spa *)
  pending : bool;                (* _async_on_discovered is awaiting the client's handler for LOCATING_DISCOVERED_SPA and will set _has_found_spa when it returns *)
  finished : option Z            (* time at which discover() left its loop (transport closed, LOC tasks cancelled) *)
}.
Record cfg := mkCfg { f_id : option Z; f_addr : bool; t_initial : Z; t_timeout : Z }.

Inductive label :=
| Arrive (r : reply)             (* datagram_received *)
| Consume                        (* the hello consumer's poll finds a head: pop + _async_on_discovered up to the client's handler *)
| HandlerDone                    (* the client's handler for LOCATING_DISCOVERED_SPA has returned: _has_found_spa is set if a spa was asked for *)
| MainPoll (age : Z).            (* one evaluation of the while condition / body of discover() *)

Definition mem (x : Z) (l : list Z) : bool := existsb (Z.eqb x) l.

Definition on_discovered (c : cfg) (s : dst) (r : reply) : dst :=
  if mem (r_id r) (seen s) then s
  else match f_id c with
       | Some want => if negb (want =? r_id r) then s
                      else mkD (queue s) (seen s ++ [r_id r]) (spas s ++ [r]) (found s) true (finished s)
       | None => mkD (queue s) (seen s ++ [r_id r]) (spas s ++ [r]) (found s) (pending s || f_addr c) (finished s)
       end.

Definition step (c : cfg) (s : dst) (l : label) : dst :=
  match finished s with
  | Some _ => s                                   (* endpoint closed, tasks cancelled: nothing has any effect *)
  | None =>
      match l with
      | Arrive r => mkD (queue s ++ [r]) (seen s) (spas s) (found s) (pending s) None
      | Consume => match queue s with
                   | [] => s
                   | r :: q => on_discovered c (mkD q (seen s) (spas s) (found s) (pending s) None) r
                   end
      | HandlerDone => mkD (queue s) (seen s) (spas s) (found s || pending s) false None
      | MainPoll age =>
          if negb (age <? t_timeout c) then mkD (queue s) (seen s) (spas s) (found s) (pending s) (Some age)
          else if (t_initial c <? age) && negb (Nat.eqb (List.length (spas s)) 0) then mkD (queue s) (seen s) (spas s) (found s) (pending s) (Some age)
          else if found s then mkD (queue s) (seen s) (spas s) (found s) (pending s) (Some age)
          else s
      end
  end.
Definition run (c : cfg) (s : dst) (ls : list label) : dst := fold_left (step c) ls s.
Definition init : dst := mkD [] [] [] false false None.
