(* Executable model of the in.touch2 wire format as geckolib builds and decodes it
   (geckolib/driver/protocol/*.py).  Byte strings are list Z.  No proofs here.
   Verb and tag literals are the protocol's (they are the layout the property speaks of):
   a changed verb or format in the code shows up as a correspondence disagreement. *)
From Coq Require Import ZArith List Bool.
Require Import GV.Lib.Bytes.
Import ListNotations.
Open Scope Z_scope.

Definition V_APING : list Z := [65; 80; 73; 78; 71].
Definition V_AVERS : list Z := [65; 86; 69; 82; 83].
Definition V_SVERS : list Z := [83; 86; 69; 82; 83].
Definition V_CURCH : list Z := [67; 85; 82; 67; 72].
Definition V_CHCUR : list Z := [67; 72; 67; 85; 82].
Definition V_SFILE : list Z := [83; 70; 73; 76; 69].
Definition V_FILES : list Z := [70; 73; 76; 69; 83].
Definition V_STATU : list Z := [83; 84; 65; 84; 85].
Definition V_STATV : list Z := [83; 84; 65; 84; 86].
Definition V_STATQ : list Z := [83; 84; 65; 84; 81].
Definition V_STATP : list Z := [83; 84; 65; 84; 80].
Definition V_SPACK : list Z := [83; 80; 65; 67; 75].
Definition V_PACKS : list Z := [80; 65; 67; 75; 83].
Definition V_GETWC : list Z := [71; 69; 84; 87; 67].
Definition V_WCGET : list Z := [87; 67; 71; 69; 84].
Definition V_SETWC : list Z := [83; 69; 84; 87; 67].
Definition V_WCSET : list Z := [87; 67; 83; 69; 84].
Definition V_REQWC : list Z := [82; 69; 81; 87; 67].
Definition V_WCREQ : list Z := [87; 67; 82; 69; 81].
Definition V_WCERR : list Z := [87; 67; 69; 82; 82].
Definition V_REQRM : list Z := [82; 69; 81; 82; 77].
Definition V_RMREQ : list Z := [82; 77; 82; 69; 81].
Definition V_UPDTS : list Z := [85; 80; 68; 84; 83].
Definition V_SUPDT : list Z := [83; 85; 80; 68; 84].
Definition V_RFERR : list Z := [82; 70; 69; 82; 82].
Definition PACKT_O : list Z := [60; 80; 65; 67; 75; 84; 62].
Definition PACKT_C : list Z := [60; 47; 80; 65; 67; 75; 84; 62].
Definition SRCCN_O : list Z := [60; 83; 82; 67; 67; 78; 62].
Definition D1 : list Z := [60; 47; 83; 82; 67; 67; 78; 62; 60; 68; 69; 83; 67; 78; 62].
Definition D2 : list Z := [60; 47; 68; 69; 83; 67; 78; 62; 60; 68; 65; 84; 65; 83; 62].
Definition DATAS_C : list Z := [60; 47; 68; 65; 84; 65; 83; 62].
Definition HELLO_O : list Z := [60; 72; 69; 76; 76; 79; 62].
Definition HELLO_C : list Z := [60; 47; 72; 69; 76; 76; 79; 62].
Definition T_IOS : list Z := [73; 79; 83].
Definition T_AND : list Z := [65; 78; 68].
Definition T_XML : list Z := [46; 120; 109; 108].
Definition T_MRST : list Z := [77; 114; 83; 116].
Definition T_MRSTEAM : list Z := [77; 114; 83; 116; 101; 97; 109].
Definition WC_SCHEDULE : list Z := [0; 0; 0; 1; 0; 0; 6; 0; 0; 0; 0; 2; 1; 0; 1; 5; 6; 0; 18; 0; 3; 1; 0; 0; 6; 6; 0; 18; 0; 4; 1; 0; 1; 5; 0; 0; 0; 0].

(* ---------- byte-string primitives ---------- *)
Fixpoint starts_with (p s : list Z) : bool :=
  match p, s with
  | [], _ => true
  | x :: p', y :: s' => (x =? y) && starts_with p' s'
  | _ :: _, [] => false
  end.
Definition ends_with (p s : list Z) : bool := starts_with (rev p) (rev s).
(* s[a:-b] *)
Definition strip (a b : nat) (s : list Z) : list Z := firstn (List.length s - a - b) (skipn a s).

(* first occurrence of pat in s: (before, after) *)
Fixpoint find_sub (pat s : list Z) : option (list Z * list Z) :=
  if starts_with pat s then Some ([], skipn (List.length pat) s)
  else match s with
       | [] => None
       | x :: r => match find_sub pat r with Some (a, b) => Some (x :: a, b) | None => None end
       end.
(* last occurrence *)
Definition find_last_sub (pat s : list Z) : option (list Z * list Z) :=
  match find_sub (rev pat) (rev s) with Some (a, b) => Some (rev b, rev a) | None => None end.

(* str.replace(pat, "") for non-empty pat *)
Fixpoint remove_all (fuel : nat) (pat s : list Z) : list Z :=
  match fuel with
  | O => s
  | S f => match find_sub pat s with Some (a, b) => a ++ remove_all f pat b | None => s end
  end.
(* str.split(sep) for a one-byte separator *)
Fixpoint split_on (sep : Z) (s : list Z) : list (list Z) :=
  match s with
  | [] => [[]]
  | x :: r => match split_on sep r with
              | h :: t => if x =? sep then [] :: h :: t else (x :: h) :: t
              | [] => [[]]
              end
  end.

(* struct.pack / unpack pieces: None = struct.error *)
Definition u8 (v : Z) : option (list Z) := if (0 <=? v) && (v <? 256) then Some [v] else None.
Definition u16 (v : Z) : option (list Z) := if (0 <=? v) && (v <? 65536) then Some [v / 256; v mod 256] else None.
Definition s16le (v : Z) : option (list Z) :=
  if (-32768 <=? v) && (v <? 32768) then let u := v mod 65536 in Some [u mod 256; u / 256] else None.
Definition s16le_dec (lo hi : Z) : Z := let u := hi * 256 + lo in if u <? 32768 then u else u - 65536.

Definition obind {A B} (o : option A) (f : A -> option B) : option B := match o with Some x => f x | None => None end.
Fixpoint ocat (l : list (option (list Z))) : option (list Z) :=
  match l with
  | [] => Some []
  | None :: _ => None
  | Some x :: r => match ocat r with Some y => Some (x ++ y) | None => None end
  end.

(* decimal text (non-negative) as bytes: int(x) on canonical digits; f"{n:02}" *)
Definition digit_b (c : Z) : option Z := if (48 <=? c) && (c <=? 57) then Some (c - 48) else None.
Fixpoint parse_dec_b_acc (s : list Z) (acc : Z) : option Z :=
  match s with [] => Some acc | c :: r => match digit_b c with Some d => parse_dec_b_acc r (acc * 10 + d) | None => None end end.
Definition parse_dec_b (s : list Z) : option Z := match s with [] => None | _ => parse_dec_b_acc s 0 end.
Fixpoint dec_b_digits (fuel : nat) (n : Z) (acc : list Z) : list Z :=
  match fuel with
  | O => acc
  | S f => let acc' := (48 + n mod 10) :: acc in if n / 10 =? 0 then acc' else dec_b_digits f (n / 10) acc'
  end.
Definition dec_b (n : Z) : list Z := dec_b_digits 24 n [].
Definition dec2_b (n : Z) : list Z := if n <? 10 then 48 :: dec_b n else dec_b n.

(* ---------- messages (the content carried inside <DATAS>) ---------- *)
Inductive msg :=
| Aping | ApingResp (b : Z)
| Avers (seq : Z) | Svers (enb enM enm cob coM com : Z)
| Curch (seq : Z) | Chcur (ch sig : Z)
| Sfile (seq : Z) | Files (platform : list Z) (cfg log : Z)
| Statu (seq start len : Z) | Statv (idx nxt : Z) (data : list Z)
| Statp (changes : list (Z * list Z)) | Statq (seq : Z)
| SpackKey (seq pack key : Z) | SpackSet (seq pack cfg log pos len value : Z) | Packs
| Getwc (seq : Z) | Wcget (mode : Z) | Setwc (seq mode : Z) | Wcreq
| Reqrm (seq : Z) | Rmreq (rems : list (Z * Z))
| Updts (seq : Z) | Supdt
| Rferr.

Definition enc_change (c : Z * list Z) : option (list Z) := ocat [u16 (fst c); Some (snd c)].
Definition enc_rem (r : Z * Z) : option (list Z) := ocat [u8 (fst r); s16le (snd r); Some [1]].

Definition encode (m : msg) : option (list Z) :=
  match m with
  | Aping => Some V_APING
  | ApingResp b => ocat [Some V_APING; u8 b]
  | Avers s => ocat [Some V_AVERS; u8 s]
  | Svers a b c d e f => ocat [Some V_SVERS; u16 a; u8 b; u8 c; u16 d; u8 e; u8 f]
  | Curch s => ocat [Some V_CURCH; u8 s]
  | Chcur c g => ocat [Some V_CHCUR; u8 c; u8 g]
  | Sfile s => ocat [Some V_SFILE; u8 s]
  | Files p c l => Some (V_FILES ++ [44] ++ p ++ [95; 67] ++ dec2_b c ++ T_XML ++ [44] ++ p ++ [95; 83] ++ dec2_b l ++ T_XML)
  | Statu s st ln => ocat [Some V_STATU; u8 s; u16 st; u16 ln]
  | Statv i n d => ocat [Some V_STATV; u8 i; u8 n; u8 (Z.of_nat (List.length d)); Some d]
  | Statp cs => ocat (Some V_STATP :: u8 (Z.of_nat (List.length cs)) :: map enc_change cs)
  | Statq s => ocat [Some V_STATQ; u8 s]
  | SpackKey s p k => ocat [Some V_SPACK; u8 s; u8 p; u8 2; u8 57; u8 k]
  | SpackSet s p c l pos len v =>
      obind (if len =? 1 then u8 v else if len =? 2 then u16 v else None) (fun d =>
      ocat [Some V_SPACK; u8 s; u8 p; u8 (5 + len); u8 70; u8 c; u8 l; u16 pos; Some d])
  | Packs => Some V_PACKS
  | Getwc s => ocat [Some V_GETWC; u8 s]
  | Wcget md => ocat [Some V_WCGET; u8 md]
  | Setwc s md => ocat [Some V_SETWC; u8 s; u8 md]
  | Wcreq => Some (V_WCREQ ++ WC_SCHEDULE)
  | Reqrm s => ocat [Some V_REQRM; u8 s]
  | Rmreq rs => ocat (Some V_RMREQ :: map enc_rem rs)
  | Updts s => ocat [Some V_UPDTS; u8 s]
  | Supdt => Some (V_SUPDT ++ [0])
  | Rferr => Some V_RFERR
  end.

(* ---------- decoders: what handle() of the accepting handler class extracts; None = it raises ---------- *)
Definition rest5 (b : list Z) : list Z := skipn 5 b.

(* STATP records: pos = remainder[1+4i:3+4i], data = remainder[3+4i:5+4i] *)
Fixpoint dec_changes (n : nat) (i : nat) (rem : list Z) : option (list (Z * list Z)) :=
  match n with
  | O => Some []
  | S k => match slice rem (1 + 4 * i) 2 with
           | [h; l] => match dec_changes k (S i) rem with
                       | Some r => Some ((h * 256 + l, slice rem (3 + 4 * i) 2) :: r)
                       | None => None end
           | _ => None
           end
  end.
(* RMREQ: repeated "<BhB"; unknown reminder types (ValueError) are skipped *)
Fixpoint dec_rems (fuel : nat) (rest : list Z) : option (list (Z * Z)) :=
  match rest with
  | [] => Some []
  | t :: lo :: hi :: _push :: r =>
      match fuel with
      | O => None
      | S f => match dec_rems f r with
               | Some l => Some (if (0 <=? t) && (t <=? 6) then (t, s16le_dec lo hi) :: l else l)
               | None => None end
      end
  | _ => None
  end.

Definition bytes_eqb (a b : list Z) : bool :=
  Nat.eqb (List.length a) (List.length b) && forallb (fun p => fst p =? snd p) (combine a b).

(* FILES: received_bytes[6:].replace(".xml","").split(","), then split("_"), int(x[1][1:]) *)
Definition dec_files (b : list Z) : option msg :=
  let txt := remove_all (List.length b) T_XML (skipn 6 b) in
  match split_on 44 txt with
  | c0 :: c1 :: _ =>
      match split_on 95 c0, split_on 95 c1 with
      | p0 :: v0 :: _, p1 :: v1 :: _ =>
          if negb (bytes_eqb p0 p1) then None else
          match parse_dec_b (skipn 1 v0), parse_dec_b (skipn 1 v1) with
          | Some c, Some l => Some (Files (if bytes_eqb p0 T_MRST then T_MRSTEAM else p0) c l)
          | _, _ => None
          end
      | _, _ => None
      end
  | _ => None
  end.

Definition be_of (d : list Z) : Z := fold_left (fun a x => a * 256 + x) d 0.

Definition dec_spack (r : list Z) : option msg :=
  match r with
  | s :: p :: ln :: cmd :: rest =>
      if cmd =? 57 then
        (if ln =? 2 then match rest with [k] => Some (SpackKey s p k) | _ => None end else None)
      else if cmd =? 70 then
        match rest with
        | c :: l :: ph :: pl :: data => Some (SpackSet s p c l (ph * 256 + pl) (Z.of_nat (List.length data)) (be_of data))
        | _ => None
        end
      else None
  | _ => None
  end.

Definition decode (b : list Z) : option msg :=
  let r := skipn 5 b in
  if starts_with V_APING b then match r with [] => Some Aping | [x] => Some (ApingResp x) | _ => None end
  else if starts_with V_AVERS b then match r with [s] => Some (Avers s) | _ => None end
  else if starts_with V_SVERS b then
    match r with [a1; a0; b1; c1; d1; d0; e1; f1] => Some (Svers (a1 * 256 + a0) b1 c1 (d1 * 256 + d0) e1 f1) | _ => None end
  else if starts_with V_CURCH b then match r with [s] => Some (Curch s) | _ => None end
  else if starts_with V_CHCUR b then match r with [c; g] => Some (Chcur c g) | _ => None end
  else if starts_with V_SFILE b then match r with [s] => Some (Sfile s) | _ => None end
  else if starts_with V_FILES b then dec_files b
  else if starts_with V_STATU b then
    match r with [s; a1; a0; l1; l0] => Some (Statu s (a1 * 256 + a0) (l1 * 256 + l0)) | _ => None end
  else if starts_with V_STATV b then
    match r with i :: n :: l :: rest => Some (Statv i n (firstn (Z.to_nat l) rest)) | _ => None end
  else if starts_with V_STATQ b then match r with [s] => Some (Statq s) | _ => None end
  else if starts_with V_STATP b then
    match r with c :: _ => option_map Statp (dec_changes (Z.to_nat c) 0 r) | [] => None end
  else if starts_with V_SPACK b then dec_spack r
  else if starts_with V_PACKS b then Some Packs
  else if starts_with V_GETWC b then match r with [s] => Some (Getwc s) | _ => None end
  else if starts_with V_WCGET b then match r with [m] => Some (Wcget m) | _ => None end
  (* SETWC and WCREQ: no standard handler accepts them (K4), so nothing decodes them *)
  else if starts_with V_REQRM b then match r with s :: _ => Some (Reqrm s) | [] => None end
  else if starts_with V_RMREQ b then option_map Rmreq (dec_rems (List.length r) r)
  else if starts_with V_UPDTS b then match r with s :: _ => Some (Updts s) | [] => None end
  else if starts_with V_SUPDT b then Some Supdt
  else if starts_with V_RFERR b then Some Rferr
  else None.

(* ---------- which standard handler class accepts a datagram (can_handle) ---------- *)
Inductive handler := HHello | HPacket | HPing | HVersion | HChannel | HConfigFile | HStatus | HPartial
                   | HPackCmd | HWatercare | HWcErr | HReminders | HFirmware | HRfErr.
Definition all_handlers : list handler :=
  [HHello; HPacket; HPing; HVersion; HChannel; HConfigFile; HStatus; HPartial; HPackCmd; HWatercare; HWcErr; HReminders; HFirmware; HRfErr].
Definition accepts (h : handler) (b : list Z) : bool :=
  match h with
  | HHello => starts_with HELLO_O b && ends_with HELLO_C b
  | HPacket => starts_with PACKT_O b && ends_with PACKT_C b
  | HPing => starts_with V_APING b
  | HVersion => starts_with V_AVERS b || starts_with V_SVERS b
  | HChannel => starts_with V_CURCH b || starts_with V_CHCUR b
  | HConfigFile => starts_with V_SFILE b || starts_with V_FILES b
  | HStatus => starts_with V_STATU b || starts_with V_STATV b
  | HPartial => starts_with V_STATQ b || starts_with V_STATP b
  | HPackCmd => starts_with V_SPACK b || starts_with V_PACKS b
  | HWatercare => starts_with V_GETWC b || starts_with V_WCGET b || starts_with V_REQWC b || starts_with V_WCSET b
  | HWcErr => starts_with V_WCERR b
  | HReminders => starts_with V_REQRM b || starts_with V_RMREQ b
  | HFirmware => starts_with V_UPDTS b || starts_with V_SUPDT b
  | HRfErr => starts_with V_RFERR b
  end.
(* the handler class whose verb the message carries *)
Definition owner (m : msg) : option handler :=
  match m with
  | Aping | ApingResp _ => Some HPing
  | Avers _ | Svers _ _ _ _ _ _ => Some HVersion
  | Curch _ | Chcur _ _ => Some HChannel
  | Sfile _ | Files _ _ _ => Some HConfigFile
  | Statu _ _ _ | Statv _ _ _ => Some HStatus
  | Statp _ | Statq _ => Some HPartial
  | SpackKey _ _ _ | SpackSet _ _ _ _ _ _ _ | Packs => Some HPackCmd
  | Getwc _ | Wcget _ => Some HWatercare
  | Setwc _ _ | Wcreq => None           (* K4: no standard handler claims SETWC / WCREQ *)
  | Reqrm _ | Rmreq _ => Some HReminders
  | Updts _ | Supdt => Some HFirmware
  | Rferr => Some HRfErr
  end.

(* ---------- hello ---------- *)
Inductive hello := HBroadcast | HClient (id : list Z) | HResponse (id name : list Z).
Definition enc_hello (h : hello) : list Z :=
  HELLO_O ++ match h with HBroadcast => [49] | HClient id => id | HResponse id name => id ++ [124] ++ name end ++ HELLO_C.
Definition dec_hello (b : list Z) : option hello :=
  let c := strip 7 8 b in
  if bytes_eqb c [49] then Some HBroadcast
  else if starts_with T_IOS c || starts_with T_AND c then Some (HClient c)
  else match find_sub [124] c with Some (id, name) => Some (HResponse id name) | None => None end.

(* ---------- packet framing ---------- *)
Definition frame (src dst content : list Z) : list Z :=
  PACKT_O ++ SRCCN_O ++ src ++ D1 ++ dst ++ D2 ++ content ++ DATAS_C ++ PACKT_C.
(* handle(): the framing regex (lazy source id, lazy destination id, greedy payload) searched in bytes[7:-8] *)
Definition unframe (b : list Z) : option (list Z * list Z * list Z) :=
  let c := strip 7 8 b in
  match find_sub SRCCN_O c with
  | None => None
  | Some (_, r1) =>
      match find_sub D1 r1 with
      | None => None
      | Some (src, r2) =>
          match find_sub D2 r2 with
          | None => None
          | Some (dst, r3) =>
              match find_last_sub DATAS_C r3 with
              | None => None
              | Some (payload, _) => Some (src, dst, payload)
              end
          end
      end
  end.
(* send_bytes of a handler constructed with parms = (ip, port, src, dst): SRCCN = parms[3], DESCN = parms[2] *)
Definition send_with_parms (src dst content : list Z) : list Z := frame dst src content.
