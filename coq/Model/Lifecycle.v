(* C08: GeckoAsyncSpaMan - the event switch (interpreted from the rule table extracted from the AST), async_reset,
   the locate / connect phases with try/finally, the sequence pump, with bracket monitors. *)
From Coq Require Import List Bool.
Require Import GV.Gen.LifecycleRules.
Import ListNotations.

Inductive pc := PIdle | PLoc (for_connect : bool) | PConn (k : nat) | PDead | PNotFound (* asleep in the not-found retry clause *).
Definition pc_eqb (a b : pc) : bool :=
  match a, b with
  | PIdle, PIdle | PDead, PDead | PNotFound, PNotFound => true
  | PLoc x, PLoc y => Bool.eqb x y
  | PConn x, PConn y => Nat.eqb x y
  | _, _ => false end.

Record mst := mkM {
  st : sstate; fac : bool; spa : bool; desc : bool; has_id : bool;
  ss : option sstate;                    (* status sensor: the state it last recorded *)
  ppc : pc;                              (* where the sequence pump task is *)
  ready_open : bool;                     (* CLIENT_FACADE_IS_READY announced and not yet torn down *)
  loc_open : bool; conn_open : bool;     (* LOCATING_STARTED / CONNECTION_STARTED delivered, finished event not yet *)
  (* sticky monitors *)
  v_ready_twice : bool; v_ready_not_connected : bool; v_teardown_extra : bool; v_teardown_nofacade : bool;
  v_sensor_stale : bool; v_fuel : bool }.

Definition upd_st (s : mst) (x : sstate) : mst :=
  mkM x (fac s) (spa s) (desc s) (has_id s) (ss s) (ppc s) (ready_open s) (loc_open s) (conn_open s) (v_ready_twice s) (v_ready_not_connected s) (v_teardown_extra s) (v_teardown_nofacade s) (v_sensor_stale s) (v_fuel s).
Definition upd_objs (s : mst) (f sp d : bool) : mst :=
  mkM (st s) f sp d (has_id s) (ss s) (ppc s) (ready_open s) (loc_open s) (conn_open s) (v_ready_twice s) (v_ready_not_connected s) (v_teardown_extra s) (v_teardown_nofacade s) (v_sensor_stale s) (v_fuel s).
Definition upd_ss (s : mst) (x : option sstate) : mst :=
  mkM (st s) (fac s) (spa s) (desc s) (has_id s) x (ppc s) (ready_open s) (loc_open s) (conn_open s) (v_ready_twice s) (v_ready_not_connected s) (v_teardown_extra s) (v_teardown_nofacade s) (v_sensor_stale s) (v_fuel s).
Definition upd_pc (s : mst) (p : pc) : mst :=
  mkM (st s) (fac s) (spa s) (desc s) (has_id s) (ss s) p (ready_open s) (loc_open s) (conn_open s) (v_ready_twice s) (v_ready_not_connected s) (v_teardown_extra s) (v_teardown_nofacade s) (v_sensor_stale s) (v_fuel s).
Definition upd_id (s : mst) (b : bool) : mst :=
  mkM (st s) (fac s) (spa s) (desc s) b (ss s) (ppc s) (ready_open s) (loc_open s) (conn_open s) (v_ready_twice s) (v_ready_not_connected s) (v_teardown_extra s) (v_teardown_nofacade s) (v_sensor_stale s) (v_fuel s).
Definition fuel_out (s : mst) : mst :=
  mkM (st s) (fac s) (spa s) (desc s) (has_id s) (ss s) (ppc s) (ready_open s) (loc_open s) (conn_open s) (v_ready_twice s) (v_ready_not_connected s) (v_teardown_extra s) (v_teardown_nofacade s) (v_sensor_stale s) true.

(* what the client's handle_event sees: the event, spa_state, facade is not None, status sensor's recorded state *)
Definition delivery := (event * sstate * bool * option sstate)%type.

(* the monitor, run at every delivery *)
Definition monitor (s : mst) (e : event) : mst :=
  let stale := match ss s with Some x => negb (sstate_eqb x (st s)) | None => false end in
  let lo := match e with LOCATING_STARTED => true | LOCATING_FINISHED => false | _ => loc_open s end in
  let co := match e with CONNECTION_STARTED => true | CONNECTION_FINISHED => false | _ => conn_open s end in
  let s1 := mkM (st s) (fac s) (spa s) (desc s) (has_id s) (ss s) (ppc s) (ready_open s) lo co (v_ready_twice s) (v_ready_not_connected s)
                (v_teardown_extra s) (v_teardown_nofacade s) (v_sensor_stale s || stale) (v_fuel s) in
  match e with
  | CLIENT_FACADE_IS_READY =>
      mkM (st s1) (fac s1) (spa s1) (desc s1) (has_id s1) (ss s1) (ppc s1) true (loc_open s1) (conn_open s1)
          (v_ready_twice s1 || ready_open s1) (v_ready_not_connected s1 || negb (sstate_eqb (st s1) CONNECTED && fac s1 && spa s1))
          (v_teardown_extra s1) (v_teardown_nofacade s1) (v_sensor_stale s1) (v_fuel s1)
  | CLIENT_FACADE_TEARDOWN =>
      mkM (st s1) (fac s1) (spa s1) (desc s1) (has_id s1) (ss s1) (ppc s1) false (loc_open s1) (conn_open s1)
          (v_ready_twice s1) (v_ready_not_connected s1) (v_teardown_extra s1 || negb (ready_open s1)) (v_teardown_nofacade s1 || negb (fac s1))
          (v_sensor_stale s1) (v_fuel s1)
  | _ => s1
  end.

Fixpoint rule_for (l : list (list event * guard * list action)) (e : event) : guard * list action :=
  match l with [] => (GNone, []) | (evs, g, acts) :: r => if existsb (event_eqb e) evs then (g, acts) else rule_for r e end.
Definition guard_holds (g : guard) (s : mst) : bool :=
  match g with GNone => true | GState l => existsb (sstate_eqb (st s)) l | GFacade => fac s end.

(* _handle_event / async_reset, mutually recursive through nested events: explicit fuel, exhaustion is a monitored error *)
Fixpoint handle (fuel : nat) (s : mst) (e : event) : mst * list delivery :=
  match fuel with
  | O => (fuel_out s, [])
  | S f =>
      (* status sensor created on the first event once identifier and name are known *)
      let '(s0, d0) := match ss s with
                       | None => if has_id s then handle f (upd_ss s (Some IDLE)) CLIENT_HAS_STATUS_SENSOR else (s, [])
                       | Some _ => (s, []) end in
      let '(g, acts) := rule_for rules e in
      let '(s1, d1) :=
        if guard_holds g s0 then
          (fix exec (acts : list action) (s : mst) {struct acts} : mst * list delivery :=
             match acts with
             | [] => (s, [])
             | a :: r =>
                 let '(s', d) :=
                   match a with
                   | ASet x => (upd_st s x, [])
                   | ANest e' => handle f s e'
                   | AReset => reset f s
                   | ASensor | AWatercare => (s, [])
                   end in
                 let '(s'', d') := exec r s' in (s'', d ++ d')
             end) acts s0
        else (s0, []) in
      (* status sensor records the state, then the client is called *)
      let s2 := match ss s1 with Some _ => upd_ss s1 (Some (st s1)) | None => s1 end in
      let s3 := monitor s2 e in
      (s3, d0 ++ d1 ++ [(e, st s3, fac s3, ss s3)])
  end
with reset (fuel : nat) (s : mst) : mst * list delivery :=
  match fuel with
  | O => (fuel_out s, [])
  | S f =>
      let s1 := upd_objs s (fac s) (spa s) false in                                    (* _spa_descriptors = None *)
      let s2 := if reset_clears_facade_last then s1 else upd_objs s1 false (spa s1) (desc s1) in   (* facade.disconnect(); _facade = None *)
      let '(s3, d) := if spa s2 then                                                    (* spa.disconnect() raises RUNNING_SPA_DISCONNECTED *)
                        let '(x, d) := handle f s2 RUNNING_SPA_DISCONNECTED in (upd_objs x (fac x) false (desc x), d)
                      else (s2, []) in
      let s4 := upd_objs s3 false (spa s3) (if reset_clears_descriptors_last then false else desc s3) in
      (upd_st s4 IDLE, d)
  end.
Definition FUEL : nat := 8.

(* ---------- labels ---------- *)
Inductive conn_outcome := CNext | CRetryExceeded | CCannotFind (which : nat) | CRaise.
Inductive label :=
| Pump                                   (* the sequence pump's poll when it is between phases *)
| LocOutcome (found raises : bool)       (* discover() returns (found a matching spa?) or raises *)
| ConnOutcome (o : conn_outcome)         (* next step of GeckoAsyncSpa._connect *)
| Ext (e : event)                        (* an event raised by one of the connection's own tasks *)
| UserReset
| SetSpaInfo
| NotFoundWake.                          (* the pump's sleep in the not-found clause is over *)

Definition handshake_events : list event :=
  [CONNECTION_GOT_FIRMWARE_VERSION; CONNECTION_GOT_CHANNEL; CONNECTION_GOT_CONFIG_FILES; CONNECTION_INITIAL_DATA_BLOCK_REQUEST; CONNECTION_SPA_COMPLETE].
Definition ext_events : list event :=
  [RUNNING_PING_RECEIVED; RUNNING_PING_MISSED; RUNNING_PING_NO_RESPONSE; ERROR_RF_ERROR; ERROR_TOO_MANY_RF_ERRORS;
   ERROR_PROTOCOL_RETRY_COUNT_EXCEEDED; RUNNING_SPA_PACK_REFRESHED; RUNNING_SPA_WATER_CARE_ERROR;
   CONNECTION_PROTOCOL_RETRY_COUNT_EXCEEDED (* also raised by the refresh loop when its channel query fails *)].

(* an exception reaches the pump's loop: caught, logged, async_reset (pump_survives) - or the end of the task *)
Definition raised (s : mst) : mst * list delivery :=
  if pump_survives then let '(s1, d) := reset FUEL s in (upd_pc s1 PIdle, d) else (upd_pc s PDead, []).
(* CONNECTION_FINISHED in the finally of async_connect_to_spa *)
Definition finish_connect (s : mst) (dead : bool) : mst * list delivery :=
  let '(s1, d) := handle FUEL s CONNECTION_FINISHED in
  if dead then let '(s2, d2) := raised s1 in (s2, d ++ d2) else (upd_pc s1 PIdle, d).

Definition step (s : mst) (l : label) : option (mst * list delivery) :=
  match l with
  | Pump =>
      match ppc s with
      | PIdle =>
          if sstate_eqb (st s) IDLE && negb (desc s) then
            let '(s1, d) := handle FUEL s LOCATING_STARTED in Some (upd_pc s1 (PLoc false), d)
          else if sstate_eqb (st s) LOCATED_SPAS && has_id s && negb (fac s) then
            let '(s1, d) := handle FUEL s LOCATING_STARTED in Some (upd_pc s1 (PLoc true), d)
          else if pump_retries_not_found && sstate_eqb (st s) ERROR_SPA_NOT_FOUND then Some (upd_pc s PNotFound, [])
          else Some (s, [])
      | _ => None
      end
  | LocOutcome found raises =>
      match ppc s with
      | PLoc fc =>
          let s0 := if raises then s else upd_objs s (fac s) (spa s) true in       (* self._spa_descriptors = locator.spas *)
          let '(s1, d1) := handle FUEL s0 LOCATING_FINISHED in                       (* finally *)
          if raises then let '(s2, d2) := raised s1 in Some (s2, d1 ++ d2)
          else if fc then
            if found then
              if fac s1 then let '(s2, d2) := raised s1 in Some (s2, d1 ++ d2)       (* assert self._facade is None *)
              else let '(s2, d2) := handle FUEL s1 CONNECTION_STARTED in
                   Some (upd_pc (upd_objs s2 (fac s2) true (desc s2)) (PConn 0), d1 ++ d2)
            else let '(s2, d2) := handle FUEL s1 SPA_NOT_FOUND in Some (upd_pc s2 PIdle, d1 ++ d2)
          else Some (upd_pc s1 PIdle, d1)
      | _ => None
      end
  | ConnOutcome o =>
      match ppc s with
      | PConn k =>
          if negb (spa s) then
            (* the connection was reset underneath the handshake: its protocol is gone, the next protocol use raises *)
            match o with CRaise => Some (finish_connect s true) | _ => None end
          else
          match o with
          | CNext =>
              match nth_error handshake_events k with
              | Some e =>
                  let '(s1, d1) := handle FUEL s e in
                  if Nat.eqb (S k) (List.length handshake_events) then
                    let s2 := if sstate_eqb (st s1) SPA_READY then upd_objs s1 true (spa s1) (desc s1) else s1 in
                    let '(s3, d3) := finish_connect s2 false in Some (s3, d1 ++ d3)
                  else Some (upd_pc s1 (PConn (S k)), d1)
              | None => None
              end
          | CRetryExceeded =>
              let '(s1, d1) := handle FUEL s CONNECTION_PROTOCOL_RETRY_COUNT_EXCEEDED in
              let '(s3, d3) := finish_connect s1 false in Some (s3, d1 ++ d3)
          | CCannotFind w =>
              if Nat.ltb k 2 then None else
              let e := match w with O => CONNECTION_CANNOT_FIND_SPA_PACK | 1 => CONNECTION_CANNOT_FIND_CONFIG_VERSION | _ => CONNECTION_CANNOT_FIND_LOG_VERSION end in
              let '(s1, d1) := handle FUEL s e in
              let '(s3, d3) := finish_connect s1 false in Some (s3, d1 ++ d3)
          | CRaise => Some (finish_connect s true)
          end
      | _ => None
      end
  | Ext e =>
      if spa s && existsb (event_eqb e) ext_events &&
         (* refresh / watercare-error events come from a fully connected spa with a facade *)
         (if event_eqb e RUNNING_SPA_PACK_REFRESHED || event_eqb e RUNNING_SPA_WATER_CARE_ERROR then fac s else true)
      then Some (handle FUEL s e) else None
  | UserReset => Some (reset FUEL s)
  | SetSpaInfo => Some (reset FUEL (upd_id s true))
  | NotFoundWake =>
      match ppc s with
      | PNotFound => if sstate_eqb (st s) ERROR_SPA_NOT_FOUND then let '(s1, d) := reset FUEL s in Some (upd_pc s1 PIdle, d) else Some (upd_pc s PIdle, [])
      | _ => None
      end
  end.

Definition init (configured : bool) : mst :=
  mkM IDLE false false false configured None PIdle false false false false false false false false false.
(* __aenter__: SPA_MAN_ENTER, then the pump is started *)
Definition entered (configured : bool) : mst := fst (handle FUEL (init configured) SPA_MAN_ENTER).

Definition all_labels : list label :=
  [Pump; LocOutcome true false; LocOutcome false false; LocOutcome false true;
   ConnOutcome CNext; ConnOutcome CRetryExceeded; ConnOutcome (CCannotFind 0); ConnOutcome (CCannotFind 1); ConnOutcome (CCannotFind 2); ConnOutcome CRaise;
   UserReset; SetSpaInfo; NotFoundWake] ++ map Ext ext_events.

Definition oss_eqb (a b : option sstate) : bool := match a, b with Some x, Some y => sstate_eqb x y | None, None => true | _, _ => false end.
Definition mst_eqb (a b : mst) : bool :=
  sstate_eqb (st a) (st b) && Bool.eqb (fac a) (fac b) && Bool.eqb (spa a) (spa b) && Bool.eqb (desc a) (desc b) && Bool.eqb (has_id a) (has_id b) &&
  oss_eqb (ss a) (ss b) && pc_eqb (ppc a) (ppc b) && Bool.eqb (ready_open a) (ready_open b) && Bool.eqb (loc_open a) (loc_open b) && Bool.eqb (conn_open a) (conn_open b) &&
  Bool.eqb (v_ready_twice a) (v_ready_twice b) && Bool.eqb (v_ready_not_connected a) (v_ready_not_connected b) &&
  Bool.eqb (v_teardown_extra a) (v_teardown_extra b) && Bool.eqb (v_teardown_nofacade a) (v_teardown_nofacade b) &&
  Bool.eqb (v_sensor_stale a) (v_sensor_stale b) && Bool.eqb (v_fuel a) (v_fuel b).

(* breadth-first exploration of the reachable set *)
Definition mem (s : mst) (l : list mst) : bool := existsb (mst_eqb s) l.
Fixpoint add_all (new : list mst) (seen : list mst) (acc : list mst) : list mst * list mst :=
  match new with
  | [] => (seen, acc)
  | x :: r => if mem x seen then add_all r seen acc else add_all r (x :: seen) (x :: acc)
  end.
Definition succs (s : mst) : list mst :=
  flat_map (fun l => match step s l with Some (s', _) => [s'] | None => [] end) all_labels.
Fixpoint explore (fuel : nat) (frontier seen : list mst) : list mst :=
  match fuel with
  | O => seen
  | S f => match frontier with
           | [] => seen
           | _ => let '(seen', fr') := add_all (flat_map succs frontier) seen [] in explore f fr' seen'
           end
  end.
Definition reach : list mst := explore 200 [entered true; entered false] [entered true; entered false].
