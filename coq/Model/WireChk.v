(* Comparison helpers for the C04 correspondence. *)
From Coq Require Import ZArith List Bool.
Require Import GV.Lib.Bytes GV.Model.Wire.
Import ListNotations.
Open Scope Z_scope.

Definition obytes_eqb (a b : option (list Z)) : bool :=
  match a, b with Some x, Some y => bytes_eqb x y | None, None => true | _, _ => false end.
Fixpoint leqb {A} (f : A -> A -> bool) (a b : list A) : bool :=
  match a, b with [], [] => true | x :: r, y :: s => f x y && leqb f r s | _, _ => false end.
Definition msg_eqb (a b : msg) : bool :=
  match a, b with
  | Aping, Aping | Packs, Packs | Wcreq, Wcreq | Supdt, Supdt | Rferr, Rferr => true
  | ApingResp x, ApingResp y | Avers x, Avers y | Curch x, Curch y | Sfile x, Sfile y | Statq x, Statq y
  | Getwc x, Getwc y | Wcget x, Wcget y | Reqrm x, Reqrm y | Updts x, Updts y => x =? y
  | Svers a1 a2 a3 a4 a5 a6, Svers b1 b2 b3 b4 b5 b6 => (a1 =? b1) && (a2 =? b2) && (a3 =? b3) && (a4 =? b4) && (a5 =? b5) && (a6 =? b6)
  | Chcur a1 a2, Chcur b1 b2 | Setwc a1 a2, Setwc b1 b2 => (a1 =? b1) && (a2 =? b2)
  | Files p c l, Files p' c' l' => bytes_eqb p p' && (c =? c') && (l =? l')
  | Statu a1 a2 a3, Statu b1 b2 b3 | SpackKey a1 a2 a3, SpackKey b1 b2 b3 => (a1 =? b1) && (a2 =? b2) && (a3 =? b3)
  | Statv i n d, Statv i' n' d' => (i =? i') && (n =? n') && bytes_eqb d d'
  | Statp cs, Statp cs' => leqb (fun x y => (fst x =? fst y) && bytes_eqb (snd x) (snd y)) cs cs'
  | SpackSet a1 a2 a3 a4 a5 a6 a7, SpackSet b1 b2 b3 b4 b5 b6 b7 =>
      (a1 =? b1) && (a2 =? b2) && (a3 =? b3) && (a4 =? b4) && (a5 =? b5) && (a6 =? b6) && (a7 =? b7)
  | Rmreq r, Rmreq r' => leqb (fun x y => (fst x =? fst y) && (snd x =? snd y)) r r'
  | _, _ => false
  end.
Definition omsg_eqb (a b : option msg) : bool :=
  match a, b with Some x, Some y => msg_eqb x y | None, None => true | _, _ => false end.

Definition chk_msg (m : msg) (ebytes : option (list Z)) (edec : option msg) (eacc : list bool) : bool :=
  obytes_eqb (encode m) ebytes &&
  match ebytes with
  | Some b => omsg_eqb (decode b) edec && leqb Bool.eqb (map (fun h => accepts h b) all_handlers) eacc
  | None => true
  end.
(* raw datagram (possibly malformed): decode + acceptance *)
Definition chk_raw (b : list Z) (edec : option msg) (eacc : list bool) : bool :=
  omsg_eqb (decode b) edec && leqb Bool.eqb (map (fun h => accepts h b) all_handlers) eacc.

(* acceptance only (verbs the library accepts but never builds, and any raw datagram): exactly these handler classes claim it *)
Definition chk_acc (b : list Z) (eacc : list bool) : bool := leqb Bool.eqb (map (fun h => accepts h b) all_handlers) eacc.
Definition hello_eqb (a b : hello) : bool :=
  match a, b with
  | HBroadcast, HBroadcast => true
  | HClient x, HClient y => bytes_eqb x y
  | HResponse i n, HResponse i' n' => bytes_eqb i i' && bytes_eqb n n'
  | _, _ => false end.
Definition ohello_eqb (a b : option hello) : bool :=
  match a, b with Some x, Some y => hello_eqb x y | None, None => true | _, _ => false end.
Definition chk_hello (h : hello) (ebytes : list Z) (edec : option hello) : bool :=
  bytes_eqb (enc_hello h) ebytes && ohello_eqb (dec_hello ebytes) edec.
Definition chk_hello_raw (b : list Z) (edec : option hello) : bool := ohello_eqb (dec_hello b) edec.

Definition parts_eqb (a b : option (list Z * list Z * list Z)) : bool :=
  match a, b with
  | Some (x, y, z), Some (x', y', z') => bytes_eqb x x' && bytes_eqb y y' && bytes_eqb z z'
  | None, None => true | _, _ => false end.
Definition chk_frame (src dst content ebytes : list Z) (eparts : option (list Z * list Z * list Z)) : bool :=
  bytes_eqb (send_with_parms src dst content) ebytes && parts_eqb (unframe ebytes) eparts.
Definition chk_unframe (b : list Z) (eparts : option (list Z * list Z * list Z)) : bool := parts_eqb (unframe b) eparts.
