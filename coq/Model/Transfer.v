(* C01: status-block transfer.
   sim_chain   : GeckoSimulator._on_status_block (segment chain: index, next, 39-byte slices)
   client_step : one turn of the inner loop of GeckoAsyncStructure.get on what wait_for_response yields
   sync_step   : GeckoStructure._on_status_block_received + GeckoUdpProtocolHandler.loop/retry *)
From Coq Require Import ZArith List Bool.
Require Import GV.Lib.Bytes.
Import ListNotations.
Open Scope Z_scope.

Record seg := mkSeg { idx : Z; nxt : Z; dat : list Z }.

Definition SEG : Z := 39.
Fixpoint chain_from (blk : list Z) (s : Z) (k : nat) (i count : Z) : list seg :=
  match k with
  | O => []
  | S k' => mkSeg i ((i + 1) mod count)
                  (slice blk (Z.to_nat s) (Z.to_nat (Z.min SEG (Z.of_nat (List.length blk) - s))))
            :: chain_from blk (s + SEG) k' (i + 1) count
  end.
(* range(start, start+length, 39); next = (idx+1) % ceil(length/39) *)
Definition sim_chain (blk : list Z) (start len : Z) : list seg :=
  let count := (len + SEG - 1) / SEG in chain_from blk start (Z.to_nat count) 0 count.

Inductive status := Running | Installed | Failed.
Record cst := mk { left : nat; expected : Z; acc : list (list Z); sends : nat; st : status; blk : list Z }.
Inductive cev := Seg (s : seg) | Timeout.

(* ---- async client: GeckoAsyncStructure.get ---- *)
Definition attempt (l : nat) (sent : nat) (b : list Z) : cst :=
  match l with
  | O => mk 0 0 [] sent Failed b                    (* while retry_count > 0 exits: return False *)
  | S _ => mk l 0 [] (S sent) Running b             (* create + queue_send the request, reset the accumulator *)
  end.
Definition retry (c : cst) : cst := attempt (pred (left c)) (sends c) (blk c).
Definition init (retries : nat) (b : list Z) : cst := attempt retries 0 b.

Definition client_step (start : nat) (c : cst) (e : cev) : cst :=
  match st c with
  | Running =>
    match e with
    | Timeout => retry c
    | Seg s =>
      if expected c =? idx s then
        let acc' := acc c ++ [dat s] in
        if nxt s =? 0 then mk (left c) 0 acc' (sends c) Installed (splice (blk c) start (concat acc'))
        else mk (left c) (nxt s) acc' (sends c) Running (blk c)
      else if nxt s =? 0 then retry c else c
    end
  | _ => c
  end.
Definition run (start : nat) (c : cst) (es : list cev) : cst := fold_left (client_step start) es c.

(* ---- threaded client: the request handler lives in the socket's receive list ---- *)
(* left = handler._retry_count, sends counts queue_send of the request (1 initial + retransmissions) *)
Definition sync_init (retries : nat) (b : list Z) : cst := mk retries 0 [] 1 Running b.
Definition sync_step (start : nat) (c : cst) (e : cev) : cst :=
  match st c with
  | Running =>
    match e with
    | Timeout =>                                       (* loop(): has_timedout -> retry() or on_retry_failed *)
        match left c with
        | O => mk 0 (expected c) (acc c) (sends c) Failed (blk c)
        | S l => mk l (expected c) (acc c) (S (sends c)) Running (blk c)     (* accumulator NOT reset *)
        end
    | Seg s =>
      if expected c =? idx s then
        let acc' := acc c ++ [dat s] in
        if nxt s =? 0 then mk (left c) 0 acc' (sends c) Installed (splice (blk c) start (concat acc'))
        else mk (left c) (nxt s) acc' (sends c) Running (blk c)
      else if nxt s =? 0 then
        match left c with
        | O => mk 0 0 [] (sends c) Running (blk c)        (* RuntimeError("Too many retries"), logged; handler stays *)
        | S l => mk l 0 [] (S (sends c)) Running (blk c)
        end
      else c
    end
  | _ => c                                              (* handler removed: later segments are not ours *)
  end.
Definition sync_run (start : nat) (c : cst) (es : list cev) : cst := fold_left (sync_step start) es c.
