(* C06: the async request engine - GeckoAsyncUdpProtocol.get / GeckoAsyncStructure.get under the protocol lock,
   GeckoUdpProtocolHandler.wait_for_response and the gates in front of every command / query in GeckoAsyncSpa.

   A timed acceptor: the labels are the observable events of the real engine, stamped with the (virtual) clock in
   microseconds.  [step] returns None when the event is not one the engine may perform in that state:
   - LCall      a task enters get(): it queues on the lock (asyncio.Lock is FIFO); a gated caller (command / query of
                GeckoAsyncSpa) may only get here when the gate (connected and answering pings) was open
   - LAcquire   the lock is granted: only to the longest waiting caller and only when nobody holds it
   - LSend      queue_send of one attempt: only by the holder, only with attempts left, only a freshly built request
   - LMiss      a poll of wait_for_response that neither found a reply nor timed out: only while age <= timeout
   - LHit       wait_for_response popped a reply the request accepts
   - LTimeout   wait_for_response gave up: only when age > timeout
   - LPauseDone the pause after a failed attempt is over
   - LRelease   get() returns (a reply only after a hit; failure only when every attempt has been used)
   The structure download (kind Struct) keeps waiting after a hit (one hit per segment, the timer restarts), retries
   without a pause and may abandon an attempt after an out-of-sequence final segment.
   cJ bounds the scheduling jitter (time between two consecutive actions of the holder that the code performs without
   waiting, and the overshoot of a poll or a sleep); a run whose event loop stalls longer is outside the timed claims. *)
From Coq Require Import ZArith List Bool Lia.
Import ListNotations.
Open Scope Z_scope.

Inductive kind := Simple | Struct.
Record call := mkc { c_id : nat; c_kind : kind; c_retries : Z; c_gated : bool; c_query : bool }.
Inductive phase := Ready | Waiting (t0 : Z) (seg : bool) | Pausing | Returning (ok : bool).
Record hold := { h_call : call; h_sends : Z; h_hits : Z; h_phase : phase; h_last : Z; h_acq : Z }.
Record fin := { f_call : call; f_ok : bool; f_dur : Z; f_sends : Z; f_hits : Z }.
Record st := { waiters : list call; holder : option hold; gate : bool; called : list call; finished : list fin;
               stale_sends : Z    (* first attempts of gated command / query callers sent while the gate was closed *);
               stale_retries : Z  (* their further attempts sent while the gate was closed *);
               unguarded_sends : Z (* command / query sends of callers that never looked at the gate, while it was closed *);
               cancelled : list nat }.
Record cfg := { cT : Z; cP : Z; cJ : Z; cE : Z (* clock granularity of the observation: the code compares floats, the labels carry microseconds *) }.

Inductive label :=
| LGate (b : bool)
| LCall (c : call)
| LAcquire (id : nat) (t : Z)
| LSend (id : nat) (t : Z) (fresh : bool)
| LMiss (id : nat) (t : Z)
| LHit (id : nat) (t : Z)
| LTimeout (id : nat) (t : Z)
| LPauseDone (id : nat) (t : Z)
| LRelease (id : nat) (t : Z) (ok : bool)
| LCancel (id : nat).

Definition init : st := {| waiters := []; holder := None; gate := false; called := []; finished := []; stale_sends := 0; stale_retries := 0; unguarded_sends := 0; cancelled := [] |}.

Definition is_struct (k : kind) : bool := match k with Struct => true | Simple => false end.
Definition ids (l : list call) : list nat := map c_id l.
Definition mem_id (i : nat) (l : list nat) : bool := existsb (Nat.eqb i) l.
Definition within (lo t hi : Z) : bool := (lo <=? t) && (t <=? hi).

Definition set_holder (s : st) (h : option hold) : st :=
  {| waiters := waiters s; holder := h; gate := gate s; called := called s; finished := finished s; stale_sends := stale_sends s; stale_retries := stale_retries s; unguarded_sends := unguarded_sends s; cancelled := cancelled s |}.
Definition upd (h : hold) (sends hits : Z) (p : phase) (t : Z) : hold :=
  {| h_call := h_call h; h_sends := sends; h_hits := hits; h_phase := p; h_last := t; h_acq := h_acq h |}.

(* what the holder may do *)
Definition holder_step (c : cfg) (s : st) (h : hold) (l : label) : option st :=
  let k := c_kind (h_call h) in
  let n := h_sends h in
  let r := c_retries (h_call h) in
  match l with
  | LSend _ t fresh =>
      let ready := match h_phase h with Ready => true | Waiting _ true => is_struct k | _ => false end in
      if ready && fresh && (n <? r) && within (h_last h) t (h_last h + cJ c) then
        Some {| waiters := waiters s; holder := Some (upd h (n + 1) (h_hits h) (Waiting t false) t); gate := gate s; called := called s;
                finished := finished s;
                stale_sends := if c_query (h_call h) && c_gated (h_call h) && negb (gate s) && (n =? 0) then stale_sends s + 1 else stale_sends s;
                stale_retries := if c_query (h_call h) && c_gated (h_call h) && negb (gate s) && negb (n =? 0) then stale_retries s + 1 else stale_retries s;
                unguarded_sends := if c_query (h_call h) && negb (c_gated (h_call h)) && negb (gate s) then unguarded_sends s + 1 else unguarded_sends s;
                cancelled := cancelled s |}
      else None
  | LMiss _ t =>
      match h_phase h with
      | Waiting t0 seg => if (t - t0 <=? cT c + cE c) && within (h_last h) t (h_last h + cJ c) then Some (set_holder s (Some (upd h n (h_hits h) (Waiting t0 seg) t))) else None
      | _ => None
      end
  | LHit _ t =>
      match h_phase h with
      | Waiting t0 seg =>
          if within (h_last h) t (h_last h + cJ c) then
            Some (set_holder s (Some (upd h n (h_hits h + 1) (if is_struct k then Waiting t true else Returning true) t)))
          else None
      | _ => None
      end
  | LTimeout _ t =>
      match h_phase h with
      | Waiting t0 seg =>
          if (cT c - cE c <? t - t0) && within (h_last h) t (h_last h + cJ c) then
            Some (set_holder s (Some (upd h n (h_hits h) (if is_struct k then (if n <? r then Ready else Returning false) else Pausing) t)))
          else None
      | _ => None
      end
  | LPauseDone _ t =>
      match h_phase h with
      | Pausing => if within (h_last h) t (h_last h + cP c + cJ c) then
                     Some (set_holder s (Some (upd h n (h_hits h) (if n <? r then Ready else Returning false) t))) else None
      | _ => None
      end
  | LRelease _ t ok =>
      let may := match h_phase h with
                 | Returning b => Bool.eqb b ok
                 | Waiting _ true => is_struct k && (ok || (r <=? n))          (* complete, or abandoned with nothing left *)
                 | Ready => negb ok && (r <=? n)                                (* no attempt (left) at all *)
                 | _ => false
                 end in
      if may && within (h_last h) t (h_last h + cJ c) then
        Some {| waiters := waiters s; holder := None; gate := gate s; called := called s;
                finished := finished s ++ [{| f_call := h_call h; f_ok := ok; f_dur := t - h_acq h; f_sends := n; f_hits := h_hits h |}];
                stale_sends := stale_sends s; stale_retries := stale_retries s; unguarded_sends := unguarded_sends s; cancelled := cancelled s |}
      else None
  | _ => None
  end.

Definition label_id (l : label) : option nat :=
  match l with
  | LSend i _ _ | LMiss i _ | LHit i _ | LTimeout i _ | LPauseDone i _ | LRelease i _ _ => Some i
  | _ => None
  end.

Definition step (c : cfg) (s : st) (l : label) : option st :=
  match l with
  | LGate b => Some {| waiters := waiters s; holder := holder s; gate := b; called := called s; finished := finished s; stale_sends := stale_sends s; stale_retries := stale_retries s; unguarded_sends := unguarded_sends s; cancelled := cancelled s |}
  | LCall k =>
      if negb (mem_id (c_id k) (ids (called s))) && (negb (c_gated k) || gate s) && (0 <=? c_retries k) then
        Some {| waiters := waiters s ++ [k]; holder := holder s; gate := gate s; called := called s ++ [k]; finished := finished s; stale_sends := stale_sends s; stale_retries := stale_retries s; unguarded_sends := unguarded_sends s; cancelled := cancelled s |}
      else None
  | LAcquire i t =>
      match holder s, waiters s with
      | None, k :: rest =>
          if Nat.eqb (c_id k) i then
            Some {| waiters := rest; holder := Some {| h_call := k; h_sends := 0; h_hits := 0; h_phase := Ready; h_last := t; h_acq := t |};
                    gate := gate s; called := called s; finished := finished s; stale_sends := stale_sends s; stale_retries := stale_retries s; unguarded_sends := unguarded_sends s; cancelled := cancelled s |}
          else None
      | _, _ => None
      end
  | LCancel i =>
      match holder s with
      | Some h => if Nat.eqb (c_id (h_call h)) i then
                    Some {| waiters := waiters s; holder := None; gate := gate s; called := called s; finished := finished s;
                            stale_sends := stale_sends s; stale_retries := stale_retries s; unguarded_sends := unguarded_sends s; cancelled := cancelled s ++ [i] |}
                  else if mem_id i (ids (waiters s)) then
                    Some {| waiters := filter (fun k => negb (Nat.eqb (c_id k) i)) (waiters s); holder := holder s; gate := gate s; called := called s;
                            finished := finished s; stale_sends := stale_sends s; stale_retries := stale_retries s; unguarded_sends := unguarded_sends s; cancelled := cancelled s ++ [i] |}
                  else None
      | None => if mem_id i (ids (waiters s)) then
                    Some {| waiters := filter (fun k => negb (Nat.eqb (c_id k) i)) (waiters s); holder := None; gate := gate s; called := called s;
                            finished := finished s; stale_sends := stale_sends s; stale_retries := stale_retries s; unguarded_sends := unguarded_sends s; cancelled := cancelled s ++ [i] |}
                else None
      end
  | _ =>
      match holder s, label_id l with
      | Some h, Some i => if Nat.eqb (c_id (h_call h)) i then holder_step c s h l else None
      | _, _ => None
      end
  end.

Fixpoint run (c : cfg) (s : st) (ls : list label) : option st :=
  match ls with [] => Some s | l :: r => match step c s l with Some s' => run c s' r | None => None end end.

(* the time a simple call may hold the lock: per attempt the timeout, the pause and three scheduling slots; one more to return *)
Definition U (c : cfg) : Z := cT c + cE c + cP c + 3 * cJ c.
Definition bound (c : cfg) (k : call) : Z := c_retries k * U c + cJ c.

(* ---------- trace projections (independent of the acceptor's state) ---------- *)
Definition sends_of (i : nat) (ls : list label) : Z :=
  fold_left (fun a l => match l with LSend j _ _ => if Nat.eqb i j then a + 1 else a | _ => a end) ls 0.
Definition hits_of (i : nat) (ls : list label) : Z :=
  fold_left (fun a l => match l with LHit j _ => if Nat.eqb i j then a + 1 else a | _ => a end) ls 0.
Definition holders_of (ls : list label) : list nat :=
  fold_left (fun a l => match l with LAcquire i _ => a ++ [i] | LRelease i _ _ | LCancel i => filter (fun j => negb (Nat.eqb i j)) a | _ => a end) ls [].
Definition calls_of (ls : list label) : list nat := flat_map (fun l => match l with LCall k => [c_id k] | _ => [] end) ls.
Definition acquires_of (ls : list label) : list nat := flat_map (fun l => match l with LAcquire i _ => [i] | _ => [] end) ls.
Definition releases_of (ls : list label) : list nat := flat_map (fun l => match l with LRelease i _ _ => [i] | _ => [] end) ls.
(* callers queued on the lock, in arrival order: a call enters at the back, a grant or a cancellation removes it *)
Definition pending (ls : list label) : list nat :=
  fold_left (fun a l => match l with LCall k => a ++ [c_id k] | LAcquire i _ | LCancel i => filter (fun j => negb (Nat.eqb j i)) a | _ => a end) ls [].
Definition cancels_of (ls : list label) : list nat := flat_map (fun l => match l with LCancel i => [i] | _ => [] end) ls.
Definition gate_of (ls : list label) : bool := fold_left (fun a l => match l with LGate b => b | _ => a end) ls false.
