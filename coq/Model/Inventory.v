(* C12: GeckoAsyncFacade._scan_outputs / GeckoFacade.scan_outputs - from output wiring to user devices. *)
From Coq Require Import ZArith List Bool String.
Require Import GV.Model.Accessor.
Import ListNotations.
Open Scope string_scope.

Inductive dclass := CPUMP | CBLOWER | CLIGHT.
Definition dclass_eqb (a b : dclass) : bool :=
  match a, b with CPUMP, CPUMP | CBLOWER, CBLOWER | CLIGHT, CLIGHT => true | _, _ => false end.

(* list(dict.fromkeys(l)): order-preserving, first occurrence kept *)
Fixpoint dedup (l : list string) : list string :=
  match l with [] => [] | x :: r => x :: filter (fun y => negb (String.eqb x y)) (dedup r) end.

Definition not_na (v : string) : bool := negb (String.eqb v "NA").
(* [device for device in all_devices for val in actual_connections.values() if val.startswith(device)] *)
Definition wired_raw (all_devices values : list string) : list string :=
  flat_map (fun d => flat_map (fun v => if prefix d v then [d] else []) (filter not_na values)) all_devices.
Definition actual_devices (all_devices values : list string) : list string := dedup (wired_raw all_devices values).

(* for device in actual_devices for ud in user_demands if f"Ud{device}".upper() == ud.upper() *)
Definition demand_matches (d ud : string) : bool := String.eqb (upper ("Ud" ++ d)) (upper ud).
Definition has_demand (demands : list string) (d : string) : bool := existsb (demand_matches d) demands.
Definition user_devices (devs demands : list string) : list (string * string) :=
  flat_map (fun d => flat_map (fun ud => if demand_matches d ud then [(d, ud)] else []) demands) devs.

Definition mem_s (s : string) (l : list string) : bool := existsb (String.eqb s) l.
Fixpoint class_of (tbl : list (string * string * Z * string * dclass)) (d : string) : option dclass :=
  match tbl with
  | [] => None
  | (k, _, _, _, c) :: r => if String.eqb d k then Some c else class_of r d
  end.
(* the facade's three lists: (device, demand) pairs of the handled devices, split by class, in order *)
Definition handled tbl (uds : list (string * string)) : list (string * string) :=
  filter (fun p => match class_of tbl (fst p) with Some _ => true | None => false end) uds.
Definition of_class tbl (c : dclass) (h : list (string * string)) : list (string * string) :=
  filter (fun p => match class_of tbl (fst p) with Some c' => dclass_eqb c c' | None => false end) h.
Definition scan tbl (all_devices demands values : list string) : list (string * string) * list (string * string) * list (string * string) :=
  let h := handled tbl (user_devices (actual_devices all_devices values) demands) in
  (of_class tbl CPUMP h, of_class tbl CBLOWER h, of_class tbl CLIGHT h).
(* sensors: those whose item exists *)
Definition present_sensors (tbl : list (string * string * string)) (item_keys : list string) : list string :=
  map (fun s => snd s) (filter (fun s => mem_s (snd (fst s)) item_keys) tbl).
(* all_automation_devices keys, in the facade's order *)
Definition all_keys tbl stbl btbl (fixed : list string) (item_keys all_devices demands values : list string) : list string :=
  let '(p, b, l) := scan tbl all_devices demands values in
  map fst p ++ map fst b ++ map fst l ++ present_sensors stbl item_keys ++ present_sensors btbl item_keys ++ fixed.
(* get_device: first device with that key *)
Definition get_device (keys : list string) (k : string) : option nat :=
  (fix go (i : nat) (l : list string) := match l with [] => None | x :: r => if String.eqb x k then Some i else go (S i) r end) O keys.
