From Coq Require Import List Bool String.
Require Import GV.Gen.LifecycleRules GV.Model.Lifecycle.
Import ListNotations.
(* a delivery as the real client saw it: event, spa_state, facade is not None, status sensor text ("" = no sensor yet) *)
Definition edelivery := (event * sstate * bool * string)%type.
Definition del_eqb (d : delivery) (e : edelivery) : bool :=
  let '(ev, s, f, o) := d in let '(ev', s', f', t) := e in
  event_eqb ev ev' && sstate_eqb s s' && Bool.eqb f f' &&
  match o with Some x => String.eqb (state_text x) t | None => String.eqb t "" end.
Fixpoint dels_eqb (a : list delivery) (b : list edelivery) : bool :=
  match a, b with [], [] => true | x :: r, y :: s => del_eqb x y && dels_eqb r s | _, _ => false end.
(* one step of a trace: the label, whether it was applicable in the real system, the manager's fields afterwards, deliveries *)
(* the real loop runs to quiescence after every label: the pump polls (every 0.1 s) until it blocks in a phase or idles *)
Fixpoint pump_settle (n : nat) (s : mst) : mst * list delivery :=
  match n with
  | O => (s, [])
  | S k => match step s Pump with
           | Some (s', d) => if mst_eqb s s' then (s, []) else let '(s'', d') := pump_settle k s' in (s'', (d ++ d')%list)
           | None => (s, [])
           end
  end.
Definition step_settled (s : mst) (l : label) : option (mst * list delivery) :=
  match step s l with
  | Some (s', d) => let '(s'', d') := pump_settle 3 s' in Some (s'', (d ++ d')%list)
  | None => None
  end.
Definition tstep := (label * bool * (sstate * bool * bool * bool) * list edelivery)%type.
Fixpoint chk_trace (s : mst) (t : list tstep) : nat :=        (* 0 = whole trace accepted, k+1 = first rejected step is k *)
  match t with
  | [] => O
  | (l, applicable, (est, efac, espa, edesc), edels) :: r =>
      match step_settled s l with
      | None => if applicable then 1 else match chk_trace s r with O => O | S k => S (S k) end
      | Some (s', dels) =>
          if applicable && sstate_eqb (st s') est && Bool.eqb (fac s') efac && Bool.eqb (spa s') espa && Bool.eqb (desc s') edesc && dels_eqb dels edels
          then match chk_trace s' r with O => O | S k => S (S k) end
          else 1
      end
  end.
Definition chk_lifecycle (configured : bool) (enter : list edelivery) (t : list tstep) : bool :=
  let '(s0, d0) := handle FUEL (init configured) SPA_MAN_ENTER in
  dels_eqb d0 enter && Nat.eqb (chk_trace s0 t) 0.
(* index (from 1) of the first rejected step, 0 = accepted *)
Definition first_reject (configured : bool) (t : list tstep) : nat := chk_trace (entered configured) t.
