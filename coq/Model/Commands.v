(* C13: facade commands -> command datagrams (GeckoPump.async_set_mode, GeckoSwitch.async_turn_on/off,
   GeckoWaterHeater.async_set_target_temperature / async_set_temperature_unit, GeckoWaterCare.async_set_mode,
   GeckoAsyncSpa._on_async_set_value / async_press / async_set_watercare), on a responsive spa (one attempt). *)
From Coq Require Import ZArith List Bool String PrimFloat.
Require Import GV.Lib.Bytes GV.Model.Accessor GV.Model.Wire GV.Model.Temp GV.Gen.Counter.
Import ListNotations.
Open Scope Z_scope.

Record cctx := mkCtx { c_pack : Z; c_cfg : Z; c_log : Z }.
Record switch := mkSw { sw_state : acc; sw_keypad : Z }.
Inductive cmd :=
| SetMode (demand : acc) (mode : string)
| Turn (s : switch) (on : bool)
| SetTarget (setpoint : acc) (u : unit) (t : float)
| SetUnit (units : acc) (celsius : bool)
| SetWatercare (mode : Z).

(* GeckoSwitch.is_on / GeckoPump.is_on: Bool items give the value, others are on unless "OFF" *)
Definition is_on (a : acc) (blk : list Z) : option bool :=
  match get_value a blk with
  | Some (VBool b) => Some b
  | Some (VStr s) => Some (negb (String.eqb s "OFF"))
  | _ => None
  end.

Definition set_value_msg (c : cctx) (seq : Z) (w : Z * Z * Z) : msg :=
  let '(pos, len, v) := w in SpackSet seq (c_pack c) (c_cfg c) (c_log c) pos len v.

(* one accessor write = one SPACK set-value numbered from the command counter; a refused / invalid write sends nothing *)
Definition send_write (c : cctx) (ctr : Z * Z) (w : option (Z * Z * Z)) : list msg * (Z * Z) :=
  match w with
  | Some w' => let '(ctr', seq) := async_next true ctr in ([set_value_msg c seq w'], ctr')
  | None => ([], ctr)
  end.

Definition exec (c : cctx) (blk : list Z) (ctr : Z * Z) (k : cmd) : list msg * (Z * Z) :=
  match k with
  | SetMode a mode => send_write c ctr (write a blk (VStr mode))
  | Turn s on =>
      match is_on (sw_state s) blk with
      | Some cur =>
          if Bool.eqb cur on then ([], ctr)                                   (* already in the requested state *)
          else if negb (sw_keypad s =? 0) then
            let '(ctr', seq) := async_next true ctr in ([SpackKey seq (c_pack c) (sw_keypad s)], ctr')
          else send_write c ctr (write (sw_state s) blk (VBool on))           (* eco mode: direct write *)
      | None => ([], ctr)
      end
  | SetTarget a u t =>
      match set_temp u t with
      | Some r => send_write c ctr (write a blk (VInt r))
      | None => ([], ctr)
      end
  | SetUnit a celsius => send_write c ctr (write a blk (VStr (if celsius then "C" else "F")%string))
  | SetWatercare m => let '(ctr', seq) := async_next false ctr in ([Setwc seq m], ctr')
  end.

Fixpoint exec_all (c : cctx) (ctr : Z * Z) (ks : list (list Z * cmd)) : list (list msg) * (Z * Z) :=
  match ks with
  | [] => ([], ctr)
  | (blk, k) :: r => let '(ms, ctr') := exec c blk ctr k in let '(mss, ctr'') := exec_all c ctr' r in (ms :: mss, ctr'')
  end.

(* the spa (environment specification): a set-value is applied big-endian at its position *)
Definition spa_apply (blk : list Z) (m : msg) : option (list Z) :=
  match m with SpackSet _ _ _ _ pos len v => apply_write blk (pos, len, v) | _ => Some blk end.
