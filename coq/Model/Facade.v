(* C11: what the automation facades need from a pack table, and the pure renderings. *)
From Coq Require Import ZArith List Bool String.
Require Import GV.Model.Accessor GV.Model.TableWf GV.Model.Inventory.
Import ListNotations.
Open Scope string_scope.

(* dict(config.accessors, **log.accessors): the log table's item wins on equal tags *)
Definition find_tag (k : string) (l : list titem) : option titem := find (fun t => String.eqb (d_tag (t_decl t)) k) l.
Definition lookup_item (cfg log : tmodule) (k : string) : option titem :=
  match find_tag k (m_items log) with Some t => Some t | None => find_tag k (m_items cfg) end.

(* items read unconditionally while constructing the facade (direct indexing, no `in` probe):
   heater: TempUnits and the three temperature items (their sensors are referenced after the probes);
   eco mode: the facade iterates all_automation_devices, which contains eco_mode *)
Definition required_keys : list string := ["TempUnits"; "SetpointG"; "DisplayedTempG"; "RealSetPointG"; "EconActive"].

Fixpoint state_key_of (tbl : list (string * string * Z * string * dclass)) (d : string) : option string :=
  match tbl with [] => None | (k, _, _, sk, _) :: r => if String.eqb d k then Some sk else state_key_of r d end.

(* keys the facade reads for some block: required, outputs, error keys, demands of exposable devices, their state items *)
Definition exposable tbl (log : tmodule) : list string :=
  filter (fun d => match state_key_of tbl d with Some _ => has_demand (m_demands log) d | None => false end) (m_devices log).
Definition read_keys tbl (cfg log : tmodule) : list string :=
  required_keys ++ m_outputs cfg ++ m_errors log ++ m_demands log ++
  flat_map (fun d => match state_key_of tbl d with Some sk => [sk] | None => [] end) (exposable tbl log).

Definition combo_ready tbl (cfg log : tmodule) : bool :=
  forallb (fun k => match lookup_item cfg log k with Some t => item_ok t | None => false end) (read_keys tbl cfg log) &&
  (* outputs and demands must be enums with labels: _scan_outputs compares / lists their labels *)
  forallb (fun k => match lookup_item cfg log k with
                    | Some t => match d_type (t_decl t), d_items (t_decl t) with TEnum, Some _ => true | _, _ => false end
                    | None => false end) (m_outputs cfg).

(* GeckoWaterCare.__str__ : None = waiting; the label lookup is guarded by a range check *)
Definition watercare_labels : list string := ["Away From Home"; "Standard"; "Energy Saving"; "Super Energy Saving"; "Weekender"].
Definition watercare_str (mode : option Z) : option string :=      (* outer None = IndexError *)
  match mode with
  | None => Some "WaterCare: Waiting..."
  | Some m => if (m <? 0)%Z || (Z.of_nat (List.length watercare_labels) <=? m)%Z then Some "Unknown Water care mode"
              else option_map (fun l => "WaterCare: " ++ l) (nth_error watercare_labels (Z.to_nat m))
  end.

(* GeckoReminderType.to_string, Reminder.__str__ *)
Definition reminder_desc (t : Z) : string :=
  if (t =? 0)%Z then "Invalid" else if (t =? 1)%Z then "RinseFilter" else if (t =? 2)%Z then "CleanFilter" else if (t =? 3)%Z then "ChangeWater"
  else if (t =? 4)%Z then "CheckSpa" else if (t =? 5)%Z then "ChangeOzonator" else if (t =? 6)%Z then "ChangeVisionCartridge" else "Unhandled".
Inductive due := DueIn (d : Z) | DueToday | Overdue (d : Z).
Definition reminder_due (days : Z) : due := if (0 <? days)%Z then DueIn days else if (days =? 0)%Z then DueToday else Overdue (- days).
(* change_reminders keeps every reminder whose type is not INVALID *)
Definition active_reminders (rs : list (Z * Z)) : list (Z * Z) := filter (fun r => negb (fst r =? 0)%Z) rs.
