(* C06, waiting time: a layer over the request-engine acceptor (Model/Request.v) that also watches the clock between the
   events of different callers.  New observations: WTick t (the time at which an untimed event - a call entering, a
   cancellation - happens) ; new acceptance conditions: the clock never runs backwards; while a caller holds the lock the
   clock never shows more than the holder's next allowed moment (its polls / its pause keep coming); the lock is handed over
   promptly: a grant happens no later than one scheduling slot after the lock became free and the caller had arrived.
   Ghost: for every waiting caller its arrival time and the PROMISE computed when it arrived - the moment by which it will
   hold the lock if everybody ahead of it uses its whole time bound.  RequestWP proves that every grant keeps the promise. *)
From Coq Require Import ZArith List Bool.
Require Import GV.Model.Request.
Import ListNotations.
Open Scope Z_scope.

Record wentry := mkW { we_call : call; we_arr : Z; we_prom : Z }.
Record ghost := mkG { clock : Z; free_at : Z; wq : list wentry; broken : Z (* grants later than promised: proved to stay 0 *) }.
Inductive wlabel := WL (l : label) | WTick (t : Z).

(* what one caller may take once it holds the lock: C06's bound for a simple call, the configured ceiling for a structure download *)
Definition hold_bound (c : cfg) (cS : Z) (k : call) : Z := if is_struct (c_kind k) then cS else bound c k.

(* by when the lock is free for the head of the queue *)
Definition free_by (c : cfg) (cS : Z) (s : st) (g : ghost) : Z :=
  match holder s with Some h => h_acq h + hold_bound c cS (h_call h) | None => free_at g end.
(* deadlines of the waiting callers, head first: each is granted one slot after the lock is free and it has arrived, and may then
   keep the lock for its bound *)
Fixpoint deadlines (c : cfg) (cS : Z) (base : Z) (q : list wentry) : list Z :=
  match q with
  | [] => []
  | w :: r => let a := Z.max base (we_arr w) + cJ c in a :: deadlines c cS (a + hold_bound c cS (we_call w)) r
  end.

Definition time_of (l : label) : option Z :=
  match l with
  | LAcquire _ t | LSend _ t _ | LMiss _ t | LHit _ t | LTimeout _ t | LPauseDone _ t | LRelease _ t _ => Some t
  | _ => None
  end.
(* the latest moment the clock may show while the holder has not moved *)
Definition allowance (c : cfg) (cS : Z) (s : st) : option Z :=
  match holder s with
  | Some h => Some (Z.min (h_last h + match h_phase h with Pausing => cP c + cJ c | _ => cJ c end)
                          (if is_struct (c_kind (h_call h)) then h_acq h + cS else h_last h + cP c + cJ c))
  | None => None
  end.
Definition clock_ok (c : cfg) (cS : Z) (s : st) (g : ghost) (t : Z) : bool :=
  (clock g <=? t) && match allowance c cS s with Some a => t <=? a | None => true end.

Definition set_clock (g : ghost) (t : Z) : ghost := mkG t (free_at g) (wq g) (broken g).

Definition wstep (c : cfg) (cS : Z) (x : st * ghost) (w : wlabel) : option (st * ghost) :=
  let '(s, g) := x in
  match w with
  | WTick t => if clock_ok c cS s g t then Some (s, set_clock g t) else None
  | WL l =>
      match l with
      | LCall k =>
          match step c s l with
          | Some s' =>
              let q' := wq g ++ [mkW k (clock g) 0] in
              let d := last (deadlines c cS (free_by c cS s g) q') 0 in
              Some (s', mkG (clock g) (free_at g) (wq g ++ [mkW k (clock g) d]) (broken g))
          | None => None
          end
      | LAcquire i t =>
          match wq g with
          | w :: r =>
              (* prompt hand-over: one slot after the lock is free and the caller is there; never before either *)
              if (clock g <=? t) && (t <=? Z.max (free_at g) (we_arr w) + cJ c) then
                match step c s l with
                | Some s' => Some (s', mkG t (free_at g) r (if t <=? we_prom w then broken g else broken g + 1))
                | None => None
                end
              else None
          | [] => None
          end
      | LRelease i t ok =>
          if clock_ok c cS s g t then
            match step c s l with Some s' => Some (s', mkG t t (wq g) (broken g)) | None => None end
          else None
      | LCancel i =>
          match step c s l with
          | Some s' =>
              let was_holder := match holder s with Some h => Nat.eqb (c_id (h_call h)) i | None => false end in
              Some (s', mkG (clock g) (if was_holder then clock g else free_at g)
                            (if was_holder then wq g else filter (fun w => negb (Nat.eqb (c_id (we_call w)) i)) (wq g)) (broken g))
          | None => None
          end
      | LGate _ => match step c s l with Some s' => Some (s', g) | None => None end
      | _ =>
          (* the holder's own timed events *)
          match time_of l with
          | Some t => if clock_ok c cS s g t then match step c s l with Some s' => Some (s', set_clock g t) | None => None end else None
          | None => None
          end
      end
  end.

Fixpoint wrun (c : cfg) (cS : Z) (x : st * ghost) (ws : list wlabel) : option (st * ghost) :=
  match ws with [] => Some x | w :: r => match wstep c cS x w with Some y => wrun c cS y r | None => None end end.
Definition ginit : ghost := mkG 0 0 [] 0.

(* the inner label stream *)
Definition inner (ws : list wlabel) : list label := flat_map (fun w => match w with WL l => [l] | WTick _ => [] end) ws.

(* ---------- checking an observed stream (vm_compute) ---------- *)
Fixpoint first_wreject (c : cfg) (cS : Z) (x : st * ghost) (ws : list wlabel) (i : nat) : option nat :=
  match ws with
  | [] => None
  | w :: r => match wstep c cS x w with Some y => first_wreject c cS y r (S i) | None => Some i end
  end.
(* accepted by the timed layer, with no grant later than promised (RequestWP proves the second follows from the first) *)
Definition wchk (c : cfg) (cS : Z) (ws : list wlabel) : bool :=
  match wrun c cS (init, ginit) ws with Some (_, g) => broken g =? 0 | None => false end.
(* the longest wait (grant time - arrival) and the largest promise margin seen: diagnostics for the evidence file *)
Fixpoint wait_stats (c : cfg) (cS : Z) (x : st * ghost) (ws : list wlabel) (acc : Z * Z) : option (Z * Z) :=
  match ws with
  | [] => Some acc
  | w :: r =>
      match wstep c cS x w with
      | Some y =>
          let acc' := match w, wq (snd x) with
                      | WL (LAcquire _ t), e :: _ => (Z.max (fst acc) (t - we_arr e), Z.max (snd acc) (we_prom e - we_arr e))
                      | _, _ => acc
                      end in
          wait_stats c cS y r acc'
      | None => None
      end
  end.
