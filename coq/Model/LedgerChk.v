(* C10 correspondence: the accounting predicate of Model/Ledger.v evaluated on what was observed on the real stack. *)
From Coq Require Import List Bool Arith.
Require Import GV.Model.Ledger.
Import ListNotations.
(* observation: discovery in progress?, manager has a spa object?, manager has a facade?, context left?,
   open endpoints, live LOC / SPA / FACADE task groups *)
Definition obs := (bool * bool * bool * bool * (nat * nat * nat * nat))%type.
Definition accounted_obs (o : obs) : bool :=
  let '(inloc, hasspa, hasfac, ex, (e, tl, ts, tf)) := o in
  if ex then Nat.eqb e 0 && Nat.eqb tl 0 && Nat.eqb ts 0 && Nat.eqb tf 0
  else Nat.eqb e (b2n inloc + b2n hasspa) && Nat.eqb tl (b2n inloc) && Nat.eqb ts (b2n hasspa) && Nat.eqb tf (b2n hasfac).
Definition chk_ledger (l : list obs) : bool := forallb accounted_obs l.
Definition first_unaccounted (l : list obs) : option nat :=
  (fix go (i : nat) (l : list obs) := match l with [] => None | o :: r => if accounted_obs o then go (S i) r else Some i end) 0 l.
