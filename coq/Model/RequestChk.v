(* C06 correspondence: acceptance of an observed label stream of the real request engine, and the facts read off the
   accepting run (all evaluated by vm_compute on the traces the harness records). *)
From Coq Require Import ZArith List Bool.
Require Import GV.Model.Request.
Import ListNotations.
Open Scope Z_scope.

(* index of the first label the engine model cannot perform (None: the whole stream is accepted) *)
Fixpoint first_reject (c : cfg) (s : st) (ls : list label) (i : nat) : option nat :=
  match ls with
  | [] => None
  | l :: r => match step c s l with Some s' => first_reject c s' r (S i) | None => Some i end
  end.


(* accepted; every finished simple call took no longer than the bound; a reply was returned only after a hit, failure only
   with every attempt used; quiescent at the end (nobody holds or waits for the lock) when the run ended that way *)
Definition chk_request (c : cfg) (ls : list label) (quiescent : bool) : bool :=
  match run c init ls with
  | None => false
  | Some s =>
      forallb (fun f => (is_struct (c_kind (f_call f)) || (f_dur f <=? bound c (f_call f)))
                        && (f_sends f <=? c_retries (f_call f))
                        && (if f_ok f then 0 <? f_hits f else (c_retries (f_call f) <=? f_sends f))) (finished s)
      && (negb quiescent || (match holder s with None => true | Some _ => false end && match waiters s with [] => true | _ => false end))
  end.

(* (finished, cancelled, stale first attempts, stale retries, unguarded sends while the gate was closed) *)
Definition stats (c : cfg) (ls : list label) : option (nat * nat * Z * Z * Z) :=
  match run c init ls with
  | None => None
  | Some s => Some (List.length (finished s), List.length (cancelled s), stale_sends s, stale_retries s, unguarded_sends s)
  end.

(* diagnostics: the finished calls that break one of the facts checked above *)
Definition offenders (c : cfg) (ls : list label) : list (nat * bool * Z * Z * Z * Z) :=
  match run c init ls with
  | None => []
  | Some s => map (fun f => (c_id (f_call f), f_ok f, f_dur f, bound c (f_call f), f_sends f, f_hits f))
               (filter (fun f => negb ((is_struct (c_kind (f_call f)) || (f_dur f <=? bound c (f_call f)))
                        && (f_sends f <=? c_retries (f_call f))
                        && (if f_ok f then 0 <? f_hits f else (c_retries (f_call f) <=? f_sends f)))) (finished s))
  end.
