From Coq Require Import ZArith List Bool String PrimFloat.
Require Import GV.Lib.Bytes GV.Model.Accessor GV.Model.Wire GV.Model.WireChk GV.Model.Temp GV.Model.Commands GV.Gen.Counter.
Import ListNotations.
Open Scope Z_scope.
(* the client's block before the command, the model's counters, the command, the datagram contents that reached the spa *)
Definition chk_cmd (c : cctx) (blk : list Z) (ctr : Z * Z) (k : cmd) (emsgs : list msg) (ectr : Z * Z) : bool :=
  let '(ms, ctr') := exec c blk ctr k in
  (* the STATQ acknowledgement of the spa's echo also draws from the protocol counter, so only the counter the command itself
     uses is compared: the command counter for pack commands, the protocol counter for watercare *)
  leqb msg_eqb ms emsgs && match k with SetWatercare _ => fst ctr' =? fst ectr | _ => snd ctr' =? snd ectr end.
