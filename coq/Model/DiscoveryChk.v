From Coq Require Import ZArith List Bool.
Require Import GV.Model.Discovery.
Import ListNotations.
Open Scope Z_scope.
Fixpoint replies_eqb (a b : list reply) : bool :=
  match a, b with
  | [], [] => true
  | x :: r, y :: s => (r_id x =? r_id y) && (r_name x =? r_name y) && (r_addr x =? r_addr y) && replies_eqb r s
  | _, _ => false end.
(* the label stream recorded from the real run is replayed; listed spas and the age at which discover() left its loop must agree *)
Definition chk_discovery (c : cfg) (ls : list label) (espas : list reply) (efinished : option Z) : bool :=
  let s := run c init ls in
  replies_eqb (spas s) espas &&
  match finished s, efinished with Some a, Some b => a =? b | None, None => true | _, _ => false end.
