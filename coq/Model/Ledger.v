(* C10: the resource ledger of the manager - which datagram endpoints are open and which groups of background tasks are
   alive - layered over the lifecycle LTS (Model/Lifecycle.v).  Who closes / cancels what is read from the ASTs of
   GeckoAsyncSpa.disconnect, GeckoAsyncLocator.discover, GeckoAsyncSpaMan.__aexit__ / async_reset and
   GeckoAsyncFacade.disconnect on every run (Gen/LedgerFacts.v).  A reset or a context exit can hit ANY state of the LTS:
   idle, mid-discovery, every handshake step, steady state, every error state. *)
From Coq Require Import List Bool Arith.
Require Import GV.Gen.LifecycleRules GV.Gen.LedgerFacts GV.Model.Lifecycle.
Import ListNotations.

Record res := mkR { eps : nat; loc_tasks : nat; spa_tasks : nat; fac_tasks : nat; exited : bool }.
Definition CAP : nat := 5.                        (* counters saturate: a leak shows up as a count above what the owners explain *)
Definition inc (n : nat) : nat := if Nat.ltb n CAP then S n else n.
Definition dec (n : nat) : nat := Nat.pred n.
Definition res_eqb (a b : res) : bool :=
  Nat.eqb (eps a) (eps b) && Nat.eqb (loc_tasks a) (loc_tasks b) && Nat.eqb (spa_tasks a) (spa_tasks b) && Nat.eqb (fac_tasks a) (fac_tasks b) && Bool.eqb (exited a) (exited b).

Inductive llabel := Lab (l : label) | Exit | Late (e : event).   (* Late: an event raised on behalf of a connection the manager has already abandoned *)
Definition in_loc (s : mst) : bool := match ppc s with PLoc _ => true | _ => false end.

(* the connection's and the facade's part: a spa object appears (its endpoint is opened, its tasks started) or is disconnected *)
Definition conn_effects (s s' : mst) (r : res) : res :=
  let r1 := if negb (spa s) && spa s' then mkR (inc (eps r)) (loc_tasks r) (inc (spa_tasks r)) (fac_tasks r) (exited r) else r in
  let r2 := if spa s && negb (spa s') && reset_disconnects_facade_and_spa then
              mkR (if disconnect_closes_transport then dec (eps r1) else eps r1) (loc_tasks r1)
                  (if disconnect_cancels_spa_tasks then dec (spa_tasks r1) else spa_tasks r1) (fac_tasks r1) (exited r1) else r1 in
  let r3 := if negb (fac s) && fac s' then mkR (eps r2) (loc_tasks r2) (spa_tasks r2) (inc (fac_tasks r2)) (exited r2) else r2 in
  if fac s && negb (fac s') && reset_disconnects_facade_and_spa && facade_disconnect_cancels_tasks
  then mkR (eps r3) (loc_tasks r3) (spa_tasks r3) (dec (fac_tasks r3)) (exited r3) else r3.

Definition lstep (x : mst * res) (ll : llabel) : option (mst * res) :=
  let '(s, r) := x in
  if exited r then None else
  match ll with
  | Lab l =>
      match step s l with
      | None => None
      | Some (s', _) =>
          (* discovery starts: endpoint + the hello consumer and the broadcast loop *)
          let r1 := if negb (in_loc s) && in_loc s' then mkR (inc (eps r)) (inc (loc_tasks r)) (spa_tasks r) (fac_tasks r) false else r in
          (* discovery ends, normally or by an exception *)
          let r2 := match l with
                    | LocOutcome _ raises =>
                        if in_loc s && (if raises then discover_cleans_up_in_finally else (discover_cleans_up_on_return || discover_cleans_up_in_finally))
                        then mkR (dec (eps r1)) (dec (loc_tasks r1)) (spa_tasks r1) (fac_tasks r1) false else r1
                    | _ => r1
                    end in
          Some (s', conn_effects s s' r2)
      end
  | Late e =>
      (* e.g. the handshake coroutine of a connection that was reset under it reports its next step or its exhausted retries:
         dropped when a disconnected spa stays silent - otherwise it goes through the event switch like any other event *)
      if spa_silent_after_disconnect then Some (s, r)
      else let '(s', _) := handle FUEL s e in Some (s', conn_effects s s' r)
  | Exit =>
      (* __aexit__: the pump is cancelled (inside discover() if it is there), optional reset, every task is gathered *)
      let r1 := if in_loc s && discover_cleans_up_in_finally then mkR (dec (eps r)) (loc_tasks r) (spa_tasks r) (fac_tasks r) false else r in
      let s1 := if exit_resets then fst (reset FUEL s) else s in
      let r2 := conn_effects s s1 r1 in
      let r3 := if exit_gathers then mkR (eps r2) 0 0 0 true else mkR (eps r2) (loc_tasks r2) (spa_tasks r2) (fac_tasks r2) true in
      Some (upd_pc s1 PDead, r3)
  end.

Definition pair_eqb (a b : mst * res) : bool := mst_eqb (fst a) (fst b) && res_eqb (snd a) (snd b).
Definition memL (x : mst * res) (l : list (mst * res)) : bool := existsb (pair_eqb x) l.
Fixpoint add_allL (new seen acc : list (mst * res)) : list (mst * res) * list (mst * res) :=
  match new with
  | [] => (seen, acc)
  | x :: r => if memL x seen then add_allL r seen acc else add_allL r (x :: seen) (x :: acc)
  end.
Definition llabels : list llabel := Exit :: map Late all_events ++ map Lab all_labels.
Definition succsL (x : mst * res) : list (mst * res) :=
  flat_map (fun l => match lstep x l with Some y => [y] | None => [] end) llabels.
Fixpoint exploreL (fuel : nat) (frontier seen : list (mst * res)) : list (mst * res) :=
  match fuel with
  | O => seen
  | S f => match frontier with
           | [] => seen
           | _ => let '(seen', fr') := add_allL (flat_map succsL frontier) seen [] in exploreL f fr' seen'
           end
  end.
Definition r0 : res := mkR 0 0 0 0 false.
Definition startL : list (mst * res) := [(entered true, r0); (entered false, r0)].
Definition reachL : list (mst * res) := Eval vm_compute in exploreL 300 startL startL.

(* what the owners explain: one endpoint and one task group for a discovery in progress, one each for a live connection, one task group
   for a live facade; nothing at all once the context has been left *)
Definition b2n (b : bool) : nat := if b then 1 else 0.
Definition accounted (x : mst * res) : bool :=
  let '(s, r) := x in
  if exited r then Nat.eqb (eps r) 0 && Nat.eqb (loc_tasks r) 0 && Nat.eqb (spa_tasks r) 0 && Nat.eqb (fac_tasks r) 0
  else Nat.eqb (eps r) (b2n (in_loc s) + b2n (spa s)) && Nat.eqb (loc_tasks r) (b2n (in_loc s)) &&
       Nat.eqb (spa_tasks r) (b2n (spa s)) && Nat.eqb (fac_tasks r) (b2n (fac s)).
Definition bounded (x : mst * res) : bool := Nat.leb (eps (snd x)) 2 && Nat.leb (loc_tasks (snd x) + spa_tasks (snd x) + fac_tasks (snd x)) 3.
