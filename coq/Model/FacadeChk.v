From Coq Require Import ZArith List Bool String.
Require Import GV.Model.Accessor GV.Model.TableWf GV.Model.Inventory GV.Model.Facade GV.Gen.InventoryTables GV.Gen.AllTables.
Import ListNotations.
Open Scope string_scope.
Definition module_of (f : string) : option tmodule := find (fun m => String.eqb (m_file m) f) all_tables.
Definition chk_ready (cfg log : string) (e : bool) : bool :=
  match module_of cfg, module_of log with
  | Some c, Some l => Bool.eqb (combo_ready devices_table c l) e
  | _, _ => false end.
Definition os_eqb (a b : option string) : bool := match a, b with Some x, Some y => String.eqb x y | None, None => true | _, _ => false end.
Definition chk_wc (m : option Z) (unknown : bool) (label : string) : bool :=
  match watercare_str m with
  | Some s => if unknown then String.eqb s "Unknown Water care mode" else String.eqb s label
  | None => false end.
Definition chk_rem (t days : Z) (desc : string) (kind : Z) (n : Z) : bool :=
  String.eqb (reminder_desc t) desc &&
  match reminder_due days with DueIn d => (kind =? 0)%Z && (d =? n)%Z | DueToday => (kind =? 1)%Z | Overdue d => (kind =? 2)%Z && (d =? n)%Z end.
