From Coq Require Import ZArith List Bool String.
Require Import GV.Model.Config GV.Gen.ConfigTables.
Import ListNotations.
Open Scope Z_scope.
Definition chk_mode (active_mode : bool) (live expected : table) : bool :=
  let t := set_config_mode cfg_members (if active_mode then cfg_active else cfg_idle) live in
  forallb (fun kv => match lookup (fst kv) t with Some v => v =? snd kv | None => false end) expected &&
  Nat.eqb (List.length t) (List.length expected).
Fixpoint insert (x : Z * Z * Z) (l : list (Z * Z * Z)) : list (Z * Z * Z) :=
  match l with [] => [x] | y :: r => if (fst (fst x) <=? fst (fst y)) then x :: l else y :: insert x r end.
Definition sortw (l : list (Z * Z * Z)) := fold_right insert [] l.
Fixpoint w_eqb (a b : list (Z * Z * Z)) : bool :=
  match a, b with
  | [], [] => true
  | (i, d, w) :: r, (i', d', w') :: r' => (i =? i') && (d =? d') && (w =? w') && w_eqb r r'
  | _, _ => false end.
(* sleepers: ids are unique per script, so sorting by id canonicalises the wake list *)
Definition chk_sleep (es : list cev) (ewoken : list (Z * Z * Z)) (epending : Z) : bool :=
  let s := run init es in w_eqb (sortw (woken s)) (sortw ewoken) && (Z.of_nat (List.length (sleepers s)) =? epending).
Definition chk_active (pumps blowers : list bool) (e : bool) : bool := Bool.eqb (active pumps blowers) e.
