(* Executable model of geckolib/driver/accessor.py (GeckoStructAccessor):
   constructor derivation, raw read, decode, encode, read-modify-write, and the
   device write applied to a block.  No proofs here. *)
From Coq Require Import ZArith List Bool String Ascii.
Require Import GV.Lib.Bytes GV.Lib.Bits.
Import ListNotations.
Open Scope Z_scope.

Inductive atype := TByte | TWord | TTime | TBool | TEnum.
Definition atype_eqb (a b : atype) : bool :=
  match a, b with TByte, TByte | TWord, TWord | TTime, TTime | TBool, TBool | TEnum, TEnum => true | _, _ => false end.

(* arguments of GeckoStructAccessor.__init__ as the table module passes them *)
Record decl := mkDecl {
  d_tag : string; d_type : atype; d_pos : Z; d_bitpos : option Z;
  d_items : option (list string); d_size : option Z; d_maxitems : option Z;
  d_rw : bool;      (* read_write is not None *)
  d_temp : bool     (* GeckoTempStructAccessor *)
}.
(* attributes the constructor computes: length, format == ">H", bitmask (None = attribute absent) *)
Record shape := mkShape { s_len : Z; s_two : bool; s_mask : option Z }.
(* a table row as regenerated from /repo: the declared arguments and the shape the real constructor derived *)
Record titem := mkT { t_decl : decl; t_shape : shape }.

Definition derive (d : decl) : shape :=
  let m0 := match d_bitpos d with Some _ => Some 1 | None => None end in
  let len0 := match d_size d with Some s => s | None => 1 end in
  let two0 := match d_size d with Some s => s =? 2 | None => false end in
  let lt := match d_type d with TWord | TTime => (2, true) | _ => (len0, two0) end in
  let m1 := match d_maxitems d with
            | Some mx => if 8 <? mx then Some 15 else if 4 <? mx then Some 7 else if 2 <? mx then Some 3 else m0
            | None => m0 end in
  mkShape (fst lt) (snd lt) m1.

(* the accessor object *)
Record acc := mkAcc {
  a_type : atype; a_pos : Z; a_bitpos : option Z; a_len : Z; a_two : bool; a_mask : option Z;
  a_items : list string; a_rw : bool }.

Definition acc_of (d : decl) : acc :=
  let s := derive d in
  mkAcc (d_type d) (d_pos d) (d_bitpos d) (s_len s) (s_two s) (s_mask s)
        (match d_items d with Some l => l | None => [] end) (d_rw d).

Definition field (a : acc) (blk : list Z) : list Z := slice blk (Z.to_nat (a_pos a)) (Z.to_nat (a_len a)).

(* _get_raw_value: None = the Python code raises (struct.error / AttributeError) *)
Definition raw_get (a : acc) (blk : list Z) : option Z :=
  match be_decode (a_two a) (field a blk) with
  | None => None
  | Some data =>
      match a_bitpos a with
      | None => Some data
      | Some bp => match a_mask a with Some m => Some (getf data m bp) | None => None end
      end
  end.

Inductive value := VInt (z : Z) | VBool (b : bool) | VStr (s : string) | VTime (h m : Z).

(* _get_value; the IndexError fallback of the enum lookup is the nth default (raw is never negative) *)
Definition decode (a : acc) (raw : Z) : value :=
  match a_type a with
  | TBool => VBool (raw =? 1)
  | TEnum => VStr (nth (Z.to_nat raw) (a_items a) "Unknown"%string)
  | TTime => VTime (raw / 256) (raw mod 256)
  | _ => VInt raw
  end.
Definition get_value (a : acc) (blk : list Z) : option value := option_map (decode a) (raw_get a blk).

Fixpoint index_of (s : string) (l : list string) : option Z :=
  match l with
  | [] => None
  | x :: r => if String.eqb s x then Some 0 else option_map Z.succ (index_of s r)
  end.

Definition lower_ascii (c : ascii) : ascii :=
  let n := nat_of_ascii c in if (Nat.leb 65 n && Nat.leb n 90)%bool then ascii_of_nat (n + 32) else c.
Fixpoint lower (s : string) : string := match s with EmptyString => EmptyString | String c r => String (lower_ascii c) (lower r) end.
Definition upper_ascii (c : ascii) : ascii :=
  let n := nat_of_ascii c in if (Nat.leb 97 n && Nat.leb n 122)%bool then ascii_of_nat (n - 32) else c.
Fixpoint upper (s : string) : string := match s with EmptyString => EmptyString | String c r => String (upper_ascii c) (upper r) end.

(* canonical decimal text of a natural number -> number (Python int(str) on canonical input) *)
Definition digit_of (c : ascii) : option Z :=
  let n := nat_of_ascii c in if (Nat.leb 48 n && Nat.leb n 57)%bool then Some (Z.of_nat (n - 48)) else None.
Fixpoint parse_dec_acc (s : string) (acc : Z) : option Z :=
  match s with
  | EmptyString => Some acc
  | String c r => match digit_of c with Some d => parse_dec_acc r (acc * 10 + d) | None => None end
  end.
Definition parse_dec (s : string) : option Z := match s with EmptyString => None | _ => parse_dec_acc s 0 end.

(* value -> integer handed to the merge; None = the Python code raises or the value is outside the item's domain *)
Definition encode_value (a : acc) (v : value) : option Z :=
  match a_type a, v with
  | TEnum, VStr s => index_of s (a_items a)
  | TTime, VTime h m => Some (h * 256 + m mod 256)
  | TByte, VInt z | TWord, VInt z => Some z
  | TByte, VStr s | TWord, VStr s => parse_dec s
  | TBool, VBool b => Some (if b then 1 else 0)
  | TBool, VStr s => Some (if String.eqb (lower s) "true" then 1 else 0)
  | _, _ => None
  end.

(* _set_value / async_set_value: the (pos, length, newvalue) handed to the structure *)
Definition write (a : acc) (blk : list Z) (v : value) : option (Z * Z * Z) :=
  if negb (a_rw a) then None else
  match encode_value a v with
  | None => None
  | Some nv =>
      match be_decode (a_two a) (field a blk) with
      | None => None
      | Some existing =>
          match a_bitpos a with
          | None => Some (a_pos a, a_len a, nv)
          | Some bp => match a_mask a with
                       | Some m => Some (a_pos a, a_len a, merge existing nv m bp)
                       | None => None
                       end
          end
      end
  end.

(* the device write applied to a block: SPACK set-value packs 1 or 2 big-endian bytes at pos *)
Definition apply_write (blk : list Z) (w : Z * Z * Z) : option (list Z) :=
  let '(pos, len, nv) := w in
  match (if len =? 1 then be_encode false nv else if len =? 2 then be_encode true nv else None) with
  | Some bs => Some (splice blk (Z.to_nat pos) bs)
  | None => None
  end.

(* width of a mask 2^w-1 for the four masks the constructor can derive *)
Definition mask_width (m : Z) : option Z :=
  if m =? 1 then Some 1 else if m =? 3 then Some 2 else if m =? 7 then Some 3 else if m =? 15 then Some 4 else None.
