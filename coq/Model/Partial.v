(* C05: the long-lived partial-status-block handlers of both clients.
   async: GeckoAsyncPartialStatusBlockProtocolHandler.async_handle + GeckoAsyncSpa._async_on_partial_status_update
   sync : GeckoPartialStatusBlockProtocolHandler.handle + GeckoSpa._on_partial_status_update *)
From Coq Require Import ZArith List Bool.
Require Import GV.Lib.Bytes GV.Model.Wire GV.Gen.Counter.
Import ListNotations.
Open Scope Z_scope.

Record pst := mkP { p_blk : list Z; p_changes : list (Z * list Z); p_ctr : Z * Z }.
Inductive pev := PStatp (datagram : list Z) | PRefresh (start : Z) (data : list Z).

Definition apply_changes (b : list Z) (cs : list (Z * list Z)) : list Z :=
  fold_left (fun blk c => splice blk (Z.to_nat (fst c)) (snd c)) cs b.

Definition nxt (async : bool) : bool -> Z * Z -> (Z * Z) * Z := if async then async_next else sync_next.

(* STATP records parsed one by one as handle() does; false = the loop raised (struct.error on a short record)
   after having appended the records before it *)
Fixpoint parse_changes (n i : nat) (rem : list Z) : list (Z * list Z) * bool :=
  match n with
  | O => ([], true)
  | S k => match slice rem (1 + 4 * i) 2 with
           | [h; l] => let '(r, ok) := parse_changes k (S i) rem in ((h * 256 + l, slice rem (3 + 4 * i) 2) :: r, ok)
           | _ => ([], false)
           end
  end.

(* one event; output = the acknowledgement datagrams (content bytes) sent.
   Both handlers queue the STATQ acknowledgement BEFORE parsing the records. *)
Definition step (async : bool) (s : pst) (e : pev) : pst * list (list Z) :=
  match e with
  | PRefresh start data => (mkP (splice (p_blk s) (Z.to_nat start) data) (p_changes s) (p_ctr s), [])
  | PStatp d =>
      if starts_with V_STATP d then
        let rem := skipn 5 d in
        let '(ctr', seq) := nxt async false (p_ctr s) in
        let ack := match encode (Statq seq) with Some a => [a] | None => [] end in
        match rem with
        | [] => (mkP (p_blk s) (p_changes s) ctr', ack)            (* the count unpack raises, after the ack *)
        | c :: _ =>
            let '(cs, ok) := parse_changes (Z.to_nat c) 0 rem in
            if ok then
              if async then
                (* changes reset per message, then every change applied *)
                (mkP (apply_changes (p_blk s) cs) cs ctr', ack)
              else
                (* changes appended, all applied, list cleared afterwards *)
                (mkP (apply_changes (p_blk s) (p_changes s ++ cs)) [] ctr', ack)
            else
              (* error branch: handle() raised, on_handled never runs; the threaded handler keeps what it appended *)
              (mkP (p_blk s) (if async then cs else p_changes s ++ cs) ctr', ack)
        end
      else if starts_with V_STATQ d then
        (* a STATQ datagram: the handler only records its sequence byte (exactly one byte must follow, else the unpack raises and
           on_handled never runs) - but on_handled DOES run afterwards and applies whatever the handler's change list still holds:
           the last message's records in the async client (never cleared), the records left by a failed parse in the threaded one *)
        match skipn 5 d with
        | [_] => if async then (mkP (apply_changes (p_blk s) (p_changes s)) (p_changes s) (p_ctr s), [])
                 else (mkP (apply_changes (p_blk s) (p_changes s)) [] (p_ctr s), [])
        | _ => (s, [])
        end
      else (s, [])     (* not ours *)
  end.

Fixpoint run (async : bool) (s : pst) (es : list pev) : pst * list (list (list Z)) * list (list Z) :=
  match es with
  | [] => (s, [], [])
  | e :: r => let '(s1, acks) := step async s e in
              let '(s2, ackss, blks) := run async s1 r in (s2, acks :: ackss, p_blk s1 :: blks)
  end.

(* reference semantics: every update applied once, in arrival order *)
Inductive upd := URefresh (start : Z) (data : list Z) | UPartial (cs : list (Z * list Z)).
Definition apply_upd (b : list Z) (u : upd) : list Z :=
  match u with URefresh st d => splice b (Z.to_nat st) d | UPartial cs => apply_changes b cs end.
Definition ev_of (u : upd) : option pev :=
  match u with
  | URefresh st d => Some (PRefresh st d)
  | UPartial cs => option_map PStatp (encode (Statp cs))
  end.
