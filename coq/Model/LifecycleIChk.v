(* C08 correspondence for the interleaved lifecycle model: a schedule run on the real manager (tools/harness/lifecycle_i.py: the
   client's handler suspends at EVERY delivery; the schedule resumes tasks one burst at a time) must be a path of Model/LifecycleI.v. *)
From Coq Require Import List Bool String.
Require Import GV.Gen.LifecycleRules GV.Model.Lifecycle GV.Model.LifecycleChk GV.Model.LifecycleI.
Import ListNotations.

(* in the harness every delivery really suspends: a connection task that cancelled itself is dead after its next delivery *)
Definition settle_cancel (s : ist) : ist :=
  if ecancel s then mkI (gs s) (tp s) TNone (tu s) false (v_reset_dirty s) (v_died s) (cur_open s) (v_leak s) (fac_live s) (v_fleak s) else s.
(* the pump polls every 0.1 s: after every label it has polled if it was between phases *)
Definition auto_pump (s : ist) : ist * list delivery :=
  match istep s (LBig Pump) with
  | Some (s', d) => if ist_eqb s s' then (s, []) else (settle_cancel s', d)
  | None => (s, [])
  end.
Definition istep_settled (s : ist) (l : ilabel) : option (ist * list delivery) :=
  match istep s l with
  | Some (s1, d1) => let '(s2, d2) := auto_pump (settle_cancel s1) in Some (s2, (d1 ++ d2)%list)
  | None => None
  end.
Definition occ := (bool * bool * bool)%type.
Definition occ_of (s : ist) : occ :=
  (match tp s with PSusp _ => true | _ => false end, match te s with TNone => false | _ => true end, match tu s with TNone => false | _ => true end).
Definition occ_eqb (a b : occ) : bool :=
  let '(a1, a2, a3) := a in let '(b1, b2, b3) := b in Bool.eqb a1 b1 && Bool.eqb a2 b2 && Bool.eqb a3 b3.
Definition istepr := (ilabel * bool * (sstate * bool * bool * bool) * occ * list edelivery)%type.
Definition obs_ok (s : ist) (o : sstate * bool * bool * bool) (oc : occ) : bool :=
  let '(est, efac, espa, edesc) := o in
  let g := gs s in
  sstate_eqb (st g) est && Bool.eqb (fac g) efac && Bool.eqb (spa g) espa && Bool.eqb (desc g) edesc && occ_eqb (occ_of s) oc.
Fixpoint chk_itrace (s : ist) (t : list istepr) : nat :=        (* 0 = accepted, k+1 = step k is the first one rejected *)
  match t with
  | [] => O
  | (l, applicable, o, oc, edels) :: r =>
      match istep_settled s l with
      | None => if applicable then 1 else match chk_itrace s r with O => O | S k => S (S k) end
      | Some (s', dels) =>
          if applicable && obs_ok s' o oc && dels_eqb dels edels
          then match chk_itrace s' r with O => O | S k => S (S k) end
          else 1
      end
  end.
(* the run starts after __aenter__ (not suspended) and the pump's first poll *)
Definition chk_ischedule (configured : bool) (enter first : list edelivery) (o0 : sstate * bool * bool * bool) (oc0 : occ) (t : list istepr) : nat :=
  let '(s0, d0) := handle FUEL (init configured) SPA_MAN_ENTER in
  if negb (dels_eqb d0 enter) then 1000 else
  let '(s1, d1) := auto_pump (ientered configured) in
  if negb (dels_eqb d1 first && obs_ok s1 o0 oc0) then 1001 else chk_itrace s1 t.
(* what the model says at the rejected step: for the diagnostics *)
Fixpoint model_at (s : ist) (t : list istepr) (n : nat) : option (option (sstate * bool * bool * bool * occ * list delivery)) :=
  match t, n with
  | [], _ => None
  | (l, _, _, _, _) :: r, O => Some (match istep_settled s l with Some (s', d) => Some (st (gs s'), fac (gs s'), spa (gs s'), desc (gs s'), occ_of s', d) | None => None end)
  | (l, _, _, _, _) :: r, S k => match istep_settled s l with Some (s', _) => model_at s' r k | None => model_at s r k end
  end.

(* C10: the same schedules, observing only whether a spa object, resp. a facade object, has been dropped without disconnect() (the harness
   counts the real spa objects and its stand-ins for the facade objects): 0 = the model's v_leak agrees after every step, k+1 = first disagreement at step k *)
Fixpoint chk_ileaks_from (s : ist) (t : list (ilabel * bool * bool * bool)) : nat :=
  match t with
  | [] => O
  | (l, applicable, leaked, fleaked) :: r =>
      match istep_settled s l with
      | None => if applicable then 1 else match chk_ileaks_from s r with O => O | S k => S (S k) end
      | Some (s', _) => if applicable && Bool.eqb (v_leak s') leaked && Bool.eqb (v_fleak s') fleaked then match chk_ileaks_from s' r with O => O | S k => S (S k) end else 1
      end
  end.
Definition chk_ileaks (configured : bool) (t : list (ilabel * bool * bool * bool)) : nat := chk_ileaks_from (fst (auto_pump (ientered configured))) t.
