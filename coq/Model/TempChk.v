From Coq Require Import ZArith List Bool PrimFloat.
Require Import GV.Model.Temp.
Import ListNotations.
Definition oz_eqb (a b : option Z) : bool := match a, b with Some x, Some y => Z.eqb x y | None, None => true | _, _ => false end.
(* bit-exact comparison of finite values (no NaN in this domain); distinguishes nothing but the sign of zero *)
Definition feq (a b : float) : bool := (a =? b)%float.
Definition chk_get (c : bool) (r : Z) (e : float) : bool := feq (get_temp (if c then UC else UF) r) e.
Definition chk_set (c : bool) (t : float) (e : option Z) : bool := oz_eqb (set_temp (if c then UC else UF) t) e.
Definition op_code (o : operation) : Z := match o with Heating => 0 | Cooling => 1 | Idle => 2 end.
Definition chk_op (c : bool) (heat cool : option bool) (rcur rtgt : Z) (e : Z) : bool :=
  let u := if c then UC else UF in Z.eqb (op_code (current_operation heat cool (get_temp u rcur) (get_temp u rtgt))) e.
Definition chk_limits (c : bool) (lo hi : Z) : bool := let '(a, b) := limits (if c then UC else UF) in Z.eqb a lo && Z.eqb b hi.
