(* Model of replace_status_block_segment + GeckoStructAccessor.status_block_changed + Observable
   (C03).  Items are identified by their index in the accessor dictionary, observers by ids. *)
From Coq Require Import ZArith List Bool String.
Require Import GV.Lib.Bytes GV.Model.Accessor GV.Model.AccessorChk.
Import ListNotations.
Open Scope Z_scope.

(* the byte-range intersection test of status_block_changed *)
Definition intersects (off len : Z) (a : acc) : bool :=
  0 <? Z.min (off + len) (a_pos a + a_len a) - Z.max off (a_pos a).

Record watched := mkW { w_acc : acc; w_obs : list Z }.     (* observers in registration order *)
Definition callback := (nat * Z * value * value)%type.     (* item index, observer, old, new *)

Definition notify_one (prev new : list Z) (off len : Z) (i : nat) (w : watched) : list callback :=
  if intersects off len (w_acc w) then
    match get_value (w_acc w) prev, get_value (w_acc w) new with
    | Some o, Some n => if value_eqb o n then [] else map (fun ob => (i, ob, o, n)) (w_obs w)
    | _, _ => []
    end
  else [].

Fixpoint notify_all (prev new : list Z) (off len : Z) (i : nat) (ws : list watched) : list callback :=
  match ws with
  | [] => []
  | w :: r => notify_one prev new off len i w ++ notify_all prev new off len (S i) r
  end.

(* swap the block first, then notify every item with (offset, len, previous block) *)
Definition update (blk : list Z) (off : Z) (seg : list Z) (ws : list watched) : list Z * list callback :=
  let new := splice blk (Z.to_nat off) seg in
  (new, notify_all blk new off (Z.of_nat (List.length seg)) O ws).

(* Observable *)
Definition watch (ob : Z) (obs : list Z) : list Z := if existsb (Z.eqb ob) obs then obs else obs ++ [ob].
Fixpoint remove_first (ob : Z) (obs : list Z) : list Z :=
  match obs with [] => [] | x :: r => if x =? ob then r else x :: remove_first ob r end.

Inductive op := Watch (i : nat) (ob : Z) | Unwatch (i : nat) (ob : Z) | UnwatchAll (i : nat) | Update (off : Z) (seg : list Z).

Fixpoint map_nth {A} (f : A -> A) (i : nat) (l : list A) : list A :=
  match l, i with
  | [], _ => []
  | x :: r, O => f x :: r
  | x :: r, S k => x :: map_nth f k r
  end.
Definition set_obs (f : list Z -> list Z) (w : watched) : watched := mkW (w_acc w) (f (w_obs w)).

Record st := mkSt { blk : list Z; items : list watched }.
Definition step (s : st) (o : op) : st * list callback :=
  match o with
  | Watch i ob => (mkSt (blk s) (map_nth (set_obs (watch ob)) i (items s)), [])
  | Unwatch i ob => (mkSt (blk s) (map_nth (set_obs (remove_first ob)) i (items s)), [])
  | UnwatchAll i => (mkSt (blk s) (map_nth (set_obs (fun _ => [])) i (items s)), [])
  | Update off seg => let '(b, cbs) := update (blk s) off seg (items s) in (mkSt b (items s), cbs)
  end.
Fixpoint run (s : st) (ops : list op) : st * list (list callback) :=
  match ops with
  | [] => (s, [])
  | o :: r => let '(s1, c) := step s o in let '(s2, cs) := run s1 r in (s2, c :: cs)
  end.
