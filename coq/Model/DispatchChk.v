From Coq Require Import List Bool Arith.
Require Import GV.Model.Dispatch.
Import ListNotations.
(* trace acceptance: every observed poll carries what the real task did (popped or not); the model must do the same.
   Returns 0 when the whole trace is accepted, k+1 when step k is the first disagreement. *)
Definition dg_eqb (a b : dgram) : bool :=
  match a, b with
  | Plain x, Plain y => Nat.eqb (List.length x) (List.length y) && forallb (fun p => Nat.eqb (fst p) (snd p)) (combine x y)
  | Packet o x, Packet o' y => Bool.eqb o o' && Nat.eqb (List.length x) (List.length y) && forallb (fun p => Nat.eqb (fst p) (snd p)) (combine x y)
  | _, _ => false end.
(* OPoll c popped requeued: what the task did at this poll - popped the head?, and (packet consumer) the content it re-queued *)
Inductive obs := OPut (d : dgram) | OPoll (c : cons) (popped_it : bool) (requeued : option dgram).
Fixpoint accept (s : st) (t : list obs) : nat :=
  match t with
  | [] => 0
  | OPut d :: r => match accept (step s (Put d)) r with 0 => 0 | S k => S (S k) end
  | OPoll c p rq :: r =>
      let s' := step s (Poll c) in
      let did := negb (Nat.eqb (List.length (popped s')) (List.length (popped s))) in
      let grew := Nat.eqb (nextid s') (S (nextid s)) in
      let rq_ok := match rq with
                   | Some d => grew && match last (q s') (0, Plain []) with (_, d') => dg_eqb d d' end
                   | None => negb grew end in
      if Bool.eqb did p && rq_ok then match accept s' r with 0 => 0 | S k => S (S k) end else 1
  end.
Definition chk_dispatch (t : list obs) (equeue_len : nat) : bool :=
  Nat.eqb (accept init t) 0 && Nat.eqb (List.length (q (fold_left (fun s o => match o with OPut d => step s (Put d) | OPoll c _ _ => step s (Poll c) end) t init))) equeue_len.
Definition first_disagreement (t : list obs) : nat := accept init t.
