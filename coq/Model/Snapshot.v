(* C19: the shell's snapshot log format (GeckoShell.do_snapshot / version_strings) and its parser
   (GeckoSnapshot.parse: the regex table reduced to its extraction functions).  Text = byte strings (list Z). *)
From Coq Require Import ZArith List Bool.
Require Import GV.Lib.Bytes GV.Lib.Digits GV.Model.Wire.
Import ListNotations.
Open Scope Z_scope.

Definition L_EN : list Z := [105; 110; 116; 111; 117; 99; 104; 32; 118; 101; 114; 115; 105; 111; 110; 32; 69; 78; 32].
Definition L_CO : list Z := [105; 110; 116; 111; 117; 99; 104; 32; 118; 101; 114; 115; 105; 111; 110; 32; 67; 79; 32].
Definition L_CFG : list Z := [67; 111; 110; 102; 105; 103; 32; 118; 101; 114; 115; 105; 111; 110; 32].
Definition L_LOG : list Z := [76; 111; 103; 32; 118; 101; 114; 115; 105; 111; 110; 32].
Definition L_PACK : list Z := [83; 112; 97; 32; 112; 97; 99; 107; 32].
Definition L_SNAP : list Z := [83; 110; 97; 112; 115; 104; 111; 116; 32; 40].
Definition L_V : list Z := [32; 118].

(* ---------- writer ---------- *)
Definition hex_item (b : Z) : list Z := [39; 48; 120] ++ hex_text b ++ [39].            (* '0x..' *)
Fixpoint join_items (l : list (list Z)) : list Z :=
  match l with [] => [] | [x] => x | x :: r => x ++ [44; 32] ++ join_items r end.      (* ", " *)
(* logger.info([hex(b) for b in block]) *)
Definition render_block (blk : list Z) : list Z := [91] ++ join_items (map hex_item blk) ++ [93].
Definition render_ver3 (lit : list Z) (a b c : Z) : list Z := lit ++ dec_text a ++ L_V ++ dec_text b ++ [46] ++ dec_text c.
Definition render_en := render_ver3 L_EN.
Definition render_co := render_ver3 L_CO.
Definition render_pack (pack : list Z) (id rev rel : Z) : list Z := L_PACK ++ pack ++ [32] ++ dec_text id ++ L_V ++ dec_text rev ++ [46] ++ dec_text rel.
Definition render_cfg (n : Z) : list Z := L_CFG ++ dec_text n.
Definition render_log (n : Z) : list Z := L_LOG ++ dec_text n.
Definition render_snap (name : list Z) : list Z := L_SNAP ++ name ++ [41].

(* ---------- parser ---------- *)
Fixpoint take_while (f : Z -> bool) (s : list Z) : list Z :=
  match s with [] => [] | c :: r => if f c then c :: take_while f r else [] end.
Definition is_digit (c : Z) : bool := (48 <=? c) && (c <=? 57).
(* the character class [0-9A-Fa-fx\\' ,] *)
Definition in_class (c : Z) : bool :=
  is_digit c || ((65 <=? c) && (c <=? 70)) || ((97 <=? c) && (c <=? 102)) || (c =? 120) || (c =? 92) || (c =? 39) || (c =? 32) || (c =? 44).

(* first '[' whose run of class characters is closed by ']' *)
Fixpoint find_data (fuel : nat) (s : list Z) : option (list Z) :=
  match fuel with
  | O => None
  | S f => match find_sub [91] s with
           | None => None
           | Some (_, after) =>
               let run := take_while in_class after in
               match skipn (List.length run) after with
               | 93 :: _ => Some run
               | _ => find_data f after
               end
           end
  end.

Fixpoint strip_l (s : list Z) : list Z := match s with 32 :: r => strip_l r | _ => s end.
Definition strip (s : list Z) : list Z := rev (strip_l (rev (strip_l s))).
(* s[1:-1] *)
Definition inner (s : list Z) : list Z := firstn (List.length s - 2) (skipn 1 s).
(* int(x, 16): optional 0x / 0X prefix *)
Definition parse_int16 (s : list Z) : option Z :=
  match s with
  | 48 :: 120 :: r | 48 :: 88 :: r => parse_hex_text r
  | _ => parse_hex_text s
  end.
Fixpoint all_some {A} (l : list (option A)) : option (list A) :=
  match l with [] => Some [] | Some x :: r => option_map (cons x) (all_some r) | None :: _ => None end.
(* _re_data: bytes([int(b.strip()[1:-1], 16) for b in groups[0].split(",")]) ; bytes() needs 0..255 *)
Definition parse_items (content : list Z) : option (list Z) :=
  match all_some (map (fun p => parse_int16 (inner (strip p))) (split_on 44 content)) with
  | Some l => if forallb is_byte l then Some l else None
  | None => None
  end.
Definition parse_data_line (line : list Z) : option (list Z) :=
  match find_data (S (List.length line)) line with Some c => parse_items c | None => None end.

(* <literal><digits> v<digits>.<digits> at the first occurrence of the literal *)
Definition digits_then (s : list Z) : option (Z * list Z) :=
  let d := take_while is_digit s in
  match parse_dec_text d with Some n => Some (n, skipn (List.length d) s) | None => None end.
Definition parse_ver3_at (s : list Z) : option (Z * Z * Z) :=
  match digits_then s with
  | Some (a, r1) =>
      if starts_with L_V r1 then
        match digits_then (skipn 2 r1) with
        | Some (b, 46 :: r2) => match digits_then r2 with Some (c, _) => Some (a, b, c) | None => None end
        | _ => None
        end
      else None
  | None => None
  end.
Definition parse_ver3 (lit line : list Z) : option (Z * Z * Z) :=
  match find_sub lit line with Some (_, after) => parse_ver3_at after | None => None end.
Definition parse_num (lit line : list Z) : option Z :=
  match find_sub lit line with Some (_, after) => option_map fst (digits_then after) | None => None end.
(* 'Spa pack <greedy group> <id> v<rev>.<rel>': the greedy group ends at the LAST space from which the version matches *)
Fixpoint last_match (pre rest : list Z) (best : option (list Z * (Z * Z * Z))) : option (list Z * (Z * Z * Z)) :=
  match rest with
  | [] => best
  | c :: r =>
      let best' := if c =? 32 then match parse_ver3_at r with Some v => Some (rev pre, v) | None => best end else best in
      last_match (c :: pre) r best'
  end.
Definition parse_pack (line : list Z) : option (list Z * (Z * Z * Z)) :=
  match find_sub L_PACK line with Some (_, after) => last_match [] after None | None => None end.
(* 'Snapshot (<greedy group>)': up to the last closing parenthesis *)
Definition parse_snap (line : list Z) : option (list Z) :=
  match find_sub L_SNAP line with
  | Some (_, after) => match find_last_sub [41] after with Some (name, _) => Some name | None => None end
  | None => None end.

(* ---------- traffic log: every STATV segment appended; the block is set when a segment has next = 0 ---------- *)
Definition seg_step (st : list (list Z) * list Z) (d : list Z) : list (list Z) * list Z :=
  match decode d with
  | Some (Statv _ n data) => let segs := fst st ++ [data] in (segs, if n =? 0 then concat segs else snd st)
  | _ => st
  end.
Definition reassemble (datagrams : list (list Z)) : list Z := snd (fold_left seg_step datagrams ([], [])).
