(* Comparison helpers used by the generated correspondence cases of C02/C03. *)
From Coq Require Import ZArith List Bool String.
Require Import GV.Lib.Bytes GV.Model.Accessor GV.Model.TableWf.
Import ListNotations.
Open Scope Z_scope.

Definition value_eqb (a b : value) : bool :=
  match a, b with
  | VInt x, VInt y => x =? y
  | VBool x, VBool y => Bool.eqb x y
  | VStr x, VStr y => String.eqb x y
  | VTime h m, VTime h' m' => (h =? h') && (m =? m')
  | _, _ => false
  end.
Definition ov_eqb (a b : option value) : bool :=
  match a, b with Some x, Some y => value_eqb x y | None, None => true | _, _ => false end.
Definition ow_eqb (a b : option (Z * Z * Z)) : bool :=
  match a, b with
  | Some (p, l, v), Some (p', l', v') => (p =? p') && (l =? l') && (v =? v')
  | None, None => true | _, _ => false end.
Definition lz_eqb (a b : list Z) : bool :=
  (Nat.eqb (List.length a) (List.length b)) && forallb (fun p => fst p =? snd p) (combine a b).
Definition olz_eqb (a b : option (list Z)) : bool :=
  match a, b with Some x, Some y => lz_eqb x y | None, None => true | _, _ => false end.

(* one correspondence case: the real accessor built from declaration d, on block blk, asked to write v *)
Definition chk (d : decl) (sh : shape) (blk : list Z) (v : value)
               (eraw : option Z) (eval : option value) (ew : option (Z * Z * Z)) (eblk : option (list Z))
               (eafter : option value) : bool :=
  let a := acc_of d in
  shape_eqb (derive d) sh && oz_eqb (raw_get a blk) eraw && ov_eqb (get_value a blk) eval &&
  ow_eqb (write a blk v) ew &&
  match ew with
  | Some w => olz_eqb (apply_write blk w) eblk &&
              match eblk with Some b' => ov_eqb (get_value a b') eafter | None => true end
  | None => true
  end.
