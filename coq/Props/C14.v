(* C14 - Temperature values, units, limits and heater operation are consistent.
   Model: Model/Temp.v in the kernel's primitive binary64 floats (= CPython float), tied bit-exactly to
   GeckoTempStructAccessor / GeckoWaterHeater by tools/props/C14.py. *)
From Coq Require Import ZArith List Bool Lia PrimFloat.
Require Import GV.Model.Temp GV.Proofs.TempP GV.Proofs.TempOrderP.
Import ListNotations.

(* Writing any temperature the device can represent reads back exactly: ALL raw words, both units. *)
Theorem c14_roundtrip_all_words : forall u r, (0 <= r < 65536)%Z -> set_temp u (get_temp u r) = Some r.
Proof. exact roundtrip. Qed.

(* Presentation raw/18 C, (raw+320)/10 F is strictly increasing in the stored word (complete: all adjacent words). *)
Theorem c14_presentation_strictly_increasing : forall u r, (0 <= r < 65535)%Z ->
  (get_temp u r <? get_temp u (r + 1))%float = true.
Proof.
  intros u r H. assert (Hin : In r (upto (Z.to_nat 65535) 0%Z)) by (apply upto_In; lia).
  pose proof (proj1 (forallb_forall _ _) get_monotone_sweep r Hin) as G. apply andb_prop in G. destruct G as [A B].
  destruct u; assumption.
Qed.

(* ... hence in ANY two stored words: the order of the presented values is the order of the words.  This is the one theorem of the
   development that is not closed: transitivity of '<' on finite binary64 values comes from the standard library's specification of
   the primitive floats (Coq.Floats.FloatAxioms) and Flocq's real-number semantics (the axioms of Coq.Reals). *)
Theorem c14_presentation_preserves_order : forall u r1 r2, (0 <= r1)%Z -> (r1 < r2)%Z -> (r2 < 65536)%Z ->
  (get_temp u r1 <? get_temp u r2)%float = true.
Proof.
  intros u r1 r2 H0 H1 H2. pose proof (get_order u (Z.to_nat (r2 - r1 - 1)) r1 H0) as G.
  replace (r1 + Z.of_nat (S (Z.to_nat (r2 - r1 - 1))))%Z with r2 in G by lia. apply G. exact H2.
Qed.

(* Any decimal temperature k/100 with 0 <= k <= 20000 (0.00 .. 200.00, in and far around the allowed range),
   both units: the written word is within one device step of the exact value ... *)
Theorem c14_set_within_one_step : forall u k, (0 <= k <= 20000)%Z -> within_step u k = true.
Proof.
  intros u k H. assert (Hin : In k grid) by (apply upto_In; lia).
  pose proof (proj1 (forallb_forall _ _) grid_sweep _ Hin) as G.
  repeat (apply andb_prop in G; destruct G as [G ?]). destruct u; assumption.
Qed.
(* ... and ordering of values is preserved. *)
Theorem c14_set_monotone : forall u k1 k2 a b, (0 <= k1 <= k2)%Z -> (k2 <= 20001)%Z ->
  set_temp u (dec100 k1) = Some a -> set_temp u (dec100 k2) = Some b -> (a <= b)%Z.
Proof.
  intros u k1 k2 a b H1 H2 Ha Hb. apply (set_monotone u (Z.to_nat (k2 - k1)) k1 a b); try lia; auto.
  replace (k1 + Z.of_nat (Z.to_nat (k2 - k1)))%Z with k2 by lia. exact Hb.
Qed.

(* Limits follow the unit and denote the same two temperatures (15 C = 59 F, 40 C = 104 F), exactly on device steps. *)
Theorem c14_limits_follow_unit :
  limits UC = (15, 40)%Z /\ limits UF = (59, 104)%Z /\
  set_temp UC (fl 15) = Some 270%Z /\ set_temp UF (fl 59) = Some 270%Z /\
  set_temp UC (fl 40) = Some 720%Z /\ set_temp UF (fl 104) = Some 720%Z.
Proof. pose proof limits_consistent as [A [_ [B [_ [C D]]]]]. repeat split; auto. Qed.

(* Operation: with both flags present they decide; a single present flag that is on decides; otherwise current
   versus real target temperature decides, and exactly one of Heating / Cooling / Idle results. *)
Theorem c14_operation_flags : forall h c cur tgt,
  current_operation (Some h) (Some c) cur tgt = if h then Heating else if c then Cooling else Idle.
Proof. exact operation_flags. Qed.
Theorem c14_operation_by_temperature : forall heat cool cur tgt,
  (heat = None \/ cool = None) -> heat <> Some true -> cool <> Some true ->
  current_operation heat cool cur tgt =
    if (cur <? tgt)%float then Heating else if (tgt <? cur)%float then Cooling else Idle.
Proof. exact operation_by_temperature. Qed.

Example c14_nonvacuous : get_temp UC 702 = 39%float /\ get_temp UF 380 = 70%float /\ set_temp UC (dec100 3655) = Some 657%Z.
Proof. vm_compute. repeat split; reflexivity. Qed.
