(* C08 - Lifecycle follows the state table; facade-ready/teardown are well-bracketed.
   Rule table of the event switch, async_reset's shape, states, events and status texts: Gen/LifecycleRules.v, extracted
   from the AST of async_spa_manager.py on every run (fail-closed).  LTS: Model/Lifecycle.v (labels: pump poll, discovery
   outcome, handshake step outcome, events of the connection's own tasks, user reset, set-spa-info).  The reachable set
   (a few hundred states incl. monitors) is computed and shown CLOSED under every label, so each invariant below holds
   after ANY label sequence - no depth bound. *)
From Coq Require Import List Bool.
Require Import GV.Gen.LifecycleRules GV.Model.Lifecycle GV.Proofs.LifecycleP GV.Model.LifecycleI GV.Proofs.LifecycleIP.
Import ListNotations.

(* CONNECTED holds only with a live facade on a connected spa *)
Theorem c08_connected_implies_facade_and_spa : forall c ls s,
  runS (entered c) ls = Some s -> st s = CONNECTED -> fac s = true /\ spa s = true.
Proof. intros c ls s R H. pose proof (inv_all inv_connected all_inv_connected c ls s R) as I. unfold inv_connected in I.
  rewrite H in I. cbn in I. apply andb_prop in I. exact I. Qed.

(* facade-ready is announced exactly when CONNECTED is entered: (a) in the extracted rule table the only rule that sets
   CONNECTED is the one that announces CLIENT_FACADE_IS_READY, and it is guarded by the facade being present; (b) at every
   delivery of CLIENT_FACADE_IS_READY the state is CONNECTED with facade and spa present *)
Theorem c08_ready_iff_enter_connected :
  forallb (fun r => Bool.eqb (rule_sets_connected r) (rule_announces_ready r) &&
                    (negb (rule_sets_connected r) || match snd (fst r) with GFacade => true | _ => false end)) rules = true /\
  forall c ls s, runS (entered c) ls = Some s -> v_ready_not_connected s = false.
Proof. split; [exact ready_iff_connected_rule|]. intros c ls s R. pose proof (inv_all _ all_inv_ready c ls s R) as I.
  unfold inv_ready_at_connected in I. now apply negb_true_iff in I. Qed.

(* facade-teardown at most once per facade-ready *)
Theorem c08_teardown_le_ready : forall c ls s, runS (entered c) ls = Some s -> v_teardown_extra s = false.
Proof. intros c ls s R. pose proof (inv_all _ all_inv_teardown_le c ls s R) as I. unfold inv_teardown_le_ready in I. now apply negb_true_iff in I. Qed.

(* ... and only while a facade exists *)
Theorem c08_teardown_only_with_facade : forall c ls s, runS (entered c) ls = Some s -> v_teardown_nofacade s = false.
Proof. intros c ls s R. assert (A : forallb inv_teardown_with_facade reach = true) by (vm_compute; reflexivity).
  pose proof (inv_all _ A c ls s R) as I. unfold inv_teardown_with_facade in I. now apply negb_true_iff in I. Qed.

(* at every delivery the status sensor has recorded the manager's state (its text is state_text of that state) *)
Theorem c08_sensor_matches_state : forall c ls s, runS (entered c) ls = Some s -> v_sensor_stale s = false.
Proof. intros c ls s R. pose proof (inv_all _ all_inv_sensor c ls s R) as I. unfold inv_sensor in I. now apply negb_true_iff in I. Qed.

(* a reset from ANY reachable state lands in IDLE with no facade, spa or descriptors *)
Theorem c08_reset_lands_idle_empty : forall c ls s, runS (entered c) ls = Some s ->
  inv_reset s = true.
Proof. intros c ls s R. exact (inv_all _ all_inv_reset c ls s R). Qed.

(* every started locate / connect phase is closed by its finished event, also when the phase raises: whenever the pump is
   between phases (or has died on the exception) no STARTED event is left without its FINISHED event *)
Theorem c08_phase_always_closed : forall c ls s, runS (entered c) ls = Some s -> inv_phase_closed s = true.
Proof. intros c ls s R. assert (A : forallb inv_phase_closed reach = true) by (vm_compute; reflexivity). exact (inv_all _ A c ls s R). Qed.

(* the nested-event recursion never runs out of fuel (the model's own well-definedness) *)
Theorem c08_no_fuel_exhaustion : forall c ls s, runS (entered c) ls = Some s -> v_fuel s = false.
Proof. intros c ls s R. pose proof (inv_all _ all_inv_fuel c ls s R) as I. unfold inv_fuel in I. now apply negb_true_iff in I. Qed.

(* interleavings inside a handler (a client handler suspended while another task raises an event): every rule that announces
   CLIENT_FACADE_TEARDOWN first - before any await - assigns a state outside the guard of every such rule *)
Theorem c08_teardown_rules_exclude_each_other_across_awaits :
  forallb (fun r1 => forallb (fun r2 => match first_set r1, guard_states r2 with
                                        | Some x, Some g => negb (existsb (sstate_eqb x) g)
                                        | _, _ => false end) teardown_rules) teardown_rules = true /\
  Nat.leb 3 (List.length teardown_rules) = true.
Proof. exact teardown_rules_exclude_each_other. Qed.

(* ---------- events raised concurrently from different tasks while a client handler is suspended (Model/LifecycleI.v) ----------
   Small-step machine: the sequence pump, one task of the connection and one user task may be inside the manager at once; each
   runs from one delivery to its next (the client's handler may stay suspended at EVERY delivery for as long as the schedule likes)
   and any other task may run in between; spa.disconnect() cancels the connection's tasks.  [irun] is any schedule. *)
(* the big-step LTS above is the schedule 'resume the task that was started until it is done' - on every reachable state, for every label *)
Theorem c08_big_step_is_one_of_the_schedules :
  forallb (fun s => forallb (refines_at s) (Ext SPA_MAN_ENTER :: all_labels)) reach = true.
Proof. exact big_step_refines. Qed.
Theorem c08_interleaved_connected_implies_facade_and_spa : forall c ls s,
  irun (ientered c) ls = Some s -> st (gs s) = CONNECTED -> fac (gs s) = true /\ spa (gs s) = true.
Proof. intros c ls s R H. pose proof (iinv_all ii_connected all_ii_connected c ls s R) as I. unfold ii_connected in I.
  rewrite H in I. cbn in I. apply andb_prop in I. exact I. Qed.
Theorem c08_interleaved_ready_only_when_connected : forall c ls s, irun (ientered c) ls = Some s -> v_ready_not_connected (gs s) = false.
Proof. intros c ls s R. pose proof (iinv_all ii_ready all_ii_ready c ls s R) as I. unfold ii_ready in I. now apply negb_true_iff in I. Qed.
Theorem c08_interleaved_teardown_le_ready : forall c ls s, irun (ientered c) ls = Some s -> v_teardown_extra (gs s) = false.
Proof. intros c ls s R. pose proof (iinv_all ii_teardown_le all_ii_teardown_le c ls s R) as I. unfold ii_teardown_le in I. now apply negb_true_iff in I. Qed.
Theorem c08_interleaved_teardown_only_with_facade : forall c ls s, irun (ientered c) ls = Some s -> v_teardown_nofacade (gs s) = false.
Proof. intros c ls s R. pose proof (iinv_all ii_teardown_fac all_ii_teardown_fac c ls s R) as I. unfold ii_teardown_fac in I. now apply negb_true_iff in I. Qed.
Theorem c08_interleaved_sensor_matches_state : forall c ls s, irun (ientered c) ls = Some s -> v_sensor_stale (gs s) = false.
Proof. intros c ls s R. pose proof (iinv_all ii_sensor all_ii_sensor c ls s R) as I. unfold ii_sensor in I. now apply negb_true_iff in I. Qed.
(* whenever the pump is between phases every STARTED event has had its FINISHED event; no task ever dies inside the manager *)
Theorem c08_interleaved_phase_always_closed : forall c ls s, irun (ientered c) ls = Some s -> ii_phase_closed s = true.
Proof. intros c ls s R. exact (iinv_all ii_phase_closed all_ii_phase_closed c ls s R). Qed.
Theorem c08_interleaved_no_task_dies : forall c ls s, irun (ientered c) ls = Some s -> ii_alive s = true /\ v_fuel (gs s) = false.
Proof. intros c ls s R. split; [exact (iinv_all ii_alive all_ii_alive c ls s R)|].
  pose proof (iinv_all ii_fuel all_ii_fuel c ls s R) as I. unfold ii_fuel in I. now apply negb_true_iff in I. Qed.
(* a reset lands in IDLE with no facade, spa or descriptors also when handlers are suspended: whenever an async_reset returns, under
   ANY schedule, no spa and no descriptors are in place (finding K10 - a user reset suspended in its RUNNING_SPA_DISCONNECTED delivery
   while the pump's own reset completed and the pump discovered again used to return with the new descriptors in place, IDLE with
   descriptors present, which no branch of the pump leaves - was repaired in /repo: async_reset clears the descriptors again when it
   finishes; the extractor reads that line, reset_clears_descriptors_last) *)
Theorem c08_interleaved_reset_lands_idle_empty : forall c ls s, irun (ientered c) ls = Some s -> v_reset_dirty s = false.
Proof. intros c ls s R. pose proof (iinv_all ii_reset_clean all_ii_reset_clean c ls s R) as I. unfold ii_reset_clean in I. now apply negb_true_iff in I. Qed.
(* ... and the manager is never left in IDLE with descriptors in place and nothing going on (the stuck state of K10); the schedule of
   K10 itself now ends clean *)
Theorem c08_interleaved_never_stuck_in_idle : forall c ls s, irun (ientered c) ls = Some s -> stuck_idle s = false.
Proof. intros c ls s R. pose proof (iinv_all _ no_stuck_idle c ls s R) as I. now apply negb_true_iff in I. Qed.
Theorem c08_k10_schedule_ends_clean :
  option_map (fun s => (v_reset_dirty s, stuck_idle s, desc (gs s))) (irun (ientered true) w_k10) = Some (false, false, false).
Proof. exact k10_schedule_now_clean. Qed.
Example c08_interleaved_nonvacuous : Nat.ltb 2000 (List.length ireach) = true.
Proof. exact ireach_size. Qed.

Example c08_nonvacuous : existsb (fun s => sstate_eqb (st s) CONNECTED) reach = true /\
  existsb (fun s => sstate_eqb (st s) ERROR_RF_FAULT) reach = true /\ Nat.ltb 100 (List.length reach) = true.
Proof. vm_compute. repeat split; reflexivity. Qed.
