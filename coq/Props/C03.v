(* C03 - Change notifications fire exactly once, iff the decoded value changed.
   Model: Model/Notify.v (replace_status_block_segment, status_block_changed, Observable),
   tied to both structure classes by the history correspondence of tools/props/C03.py. *)
From Coq Require Import ZArith List Bool String.
Require Import GV.Lib.Bytes GV.Model.Accessor GV.Model.AccessorChk GV.Model.Notify GV.Model.TableWf
               GV.Proofs.AccessorP GV.Proofs.NotifyP GV.Proofs.ShippedP.
Import ListNotations.
Open Scope Z_scope.

(* The byte-range filter is sound: an item whose bytes the patch does not touch decodes to the same value. *)
Theorem c03_range_miss_value_same : forall a blk off seg,
  0 <= off -> 0 <= a_pos a -> 0 < a_len a ->
  (Z.to_nat off + List.length seg <= List.length blk)%nat ->
  intersects off (Z.of_nat (List.length seg)) a = false ->
  get_value a (splice blk (Z.to_nat off) seg) = get_value a blk.
Proof. exact range_miss_value_same. Qed.

(* For any block, any patch inside it (also one that straddles or touches one byte of a 2-byte item),
   any set of watched items: observer ob of item i (registered once) is called exactly once with
   (old, new) iff the decoded value changed, and not at all otherwise - even if other bits of the
   item's bytes changed; every callback for (i, ob) carries exactly these decoded values. *)
Theorem c03_exactly_once_iff_changed : forall blk off seg ws i w ob,
  nth_error ws i = Some w -> NoDup (w_obs w) -> In ob (w_obs w) ->
  0 <= off -> 0 <= a_pos (w_acc w) -> 0 < a_len (w_acc w) ->
  (Z.to_nat off + List.length seg <= List.length blk)%nat ->
  forall o n, get_value (w_acc w) blk = Some o ->
              get_value (w_acc w) (fst (update blk off seg ws)) = Some n ->
  let cbs := snd (update blk off seg ws) in
  (o <> n -> cb_count i ob cbs = 1%nat /\ In (i, ob, o, n) cbs) /\
  (o = n -> cb_count i ob cbs = 0%nat) /\
  (forall o' n', In (i, ob, o', n') cbs -> o' = o /\ n' = n).
Proof. exact update_exactly_once. Qed.

(* Callbacks go to registered observers only, and each is told the value the INSTALLED block decodes to
   (the swap happens before any notification). *)
Theorem c03_only_registered : forall blk off seg ws i ob o n,
  In (i, ob, o, n) (snd (update blk off seg ws)) -> exists w, nth_error ws i = Some w /\ In ob (w_obs w).
Proof. exact callbacks_only_registered. Qed.
Theorem c03_callbacks_see_new_block : forall blk off seg ws i ob o n,
  In (i, ob, o, n) (snd (update blk off seg ws)) ->
  exists w, nth_error ws i = Some w /\ get_value (w_acc w) (fst (update blk off seg ws)) = Some n /\
            get_value (w_acc w) blk = Some o.
Proof. exact callbacks_see_new_block. Qed.

(* Over any history of watch / unwatch / unwatch_all / update operations every observer list stays
   duplicate-free (so "registered twice" = registered once), ... *)
Theorem c03_registry_inv : forall ops s, Inv s -> Inv (fst (run s ops)).
Proof. exact registry_inv. Qed.
Theorem c03_watch_twice_is_once : forall ob obs, NoDup obs -> occ ob (watch ob (watch ob obs)) = 1%nat.
Proof. intros ob obs H. apply watch_once. apply watch_nodup. exact H. Qed.
(* ... and removed observers are gone. *)
Theorem c03_unwatch_removes : forall s i ob w,
  Inv s -> nth_error (items (fst (step s (Unwatch i ob)))) i = Some w -> ~ In ob (w_obs w).
Proof. exact unwatch_removes. Qed.
Theorem c03_unwatch_all_removes : forall s i w,
  nth_error (items (fst (step s (UnwatchAll i)))) i = Some w -> w_obs w = [].
Proof. exact unwatch_all_removes. Qed.

(* Shipped items meet the hypotheses: well-formed, reading is total on every 1024-byte block. *)
Theorem c03_shipped_items_total : forall m t blk,
  shipped m t -> good_block blk ->
  0 <= a_pos (acc_of (t_decl t)) /\ 0 < a_len (acc_of (t_decl t)) /\ exists v, get_value (acc_of (t_decl t)) blk = Some v.
Proof.
  intros m t blk Hs Hg. pose proof (shipped_wf m t blk Hs Hg) as W. split; [apply (wf_pos _ _ W)|]. split.
  - rewrite (wf_len _ _ W). destruct (a_two _); reflexivity.
  - apply get_value_total. exact W.
Qed.

(* non-vacuity: a patch that touches one byte of a 2-byte item and changes its value notifies once *)
Example c03_nonvacuous :
  let a := mkAcc TWord 3 None 2 true None [] true in
  snd (update [0;0;0;1;2;0] 4 [9] [mkW a [7]]) = [(0%nat, 7, VInt 258, VInt 265)].
Proof. vm_compute. reflexivity. Qed.
