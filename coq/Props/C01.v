(* C01 - Status-block transfer installs the spa's bytes or nothing, under any faults.
   Model: Model/Transfer.v (simulator chain, async get loop, threaded handler + engine retry). *)
From Coq Require Import ZArith List Bool.
Require Import GV.Lib.Bytes GV.Model.Transfer GV.Proofs.TransferP.
Import ListNotations.
Open Scope Z_scope.

(* The bundled simulator's chain for any request with 0 < length is well formed: indices 0..n-1, each next the
   successor, the last next 0 ... *)
Theorem c01_sim_chain_wf : forall blk start len, 0 < len -> wf_chain (sim_chain blk start len).
Proof. exact sim_chain_wf. Qed.
(* ... and its data is the spa's bytes from start over ceil(len/39) segments, clipped at the block end. *)
Theorem c01_sim_chain_concat : forall blk start len, 0 <= start -> 0 < len ->
  concat (map dat (sim_chain blk start len)) =
  slice blk (Z.to_nat start) (Z.to_nat (Z.min (SEG * seg_count len) (Z.of_nat (List.length blk) - start))).
Proof. exact sim_chain_concat. Qed.

(* Async client, ANY event list drawn from a well-formed chain and timeouts (= any pattern of lost, duplicated,
   re-ordered, delayed segments and any number of copies of the request): at most `retries` requests are sent;
   the block is either untouched or exactly b0 with the whole chain spliced in at start - never a partial,
   duplicated or mis-ordered set of segments. *)
Theorem c01_async_all_or_nothing : forall chain b0 start retries es,
  wf_chain chain -> Forall (from_chain chain) es ->
  let r := run start (init retries b0) es in
  (sends r <= retries)%nat /\
  (st r = Installed -> blk r = splice b0 start (concat (map dat chain))) /\
  (st r <> Installed -> blk r = b0).
Proof. intros chain b0 start retries es W. exact (all_or_nothing chain b0 start retries W es). Qed.

(* Threaded client: same, with one initial transmission plus at most `retries` retransmissions. *)
Theorem c01_sync_all_or_nothing : forall chain b0 start retries es,
  wf_chain chain -> Forall (from_chain chain) es ->
  let r := sync_run start (sync_init retries b0) es in
  (sends r <= S retries)%nat /\
  (st r = Installed -> blk r = splice b0 start (concat (map dat chain))) /\
  (st r <> Installed -> blk r = b0).
Proof. intros chain b0 start retries es W. exact (sync_all_or_nothing chain b0 start retries W es). Qed.

(* Fault-free network: the transfer succeeds with a single request. *)
Theorem c01_fault_free_succeeds : forall chain b0 start retries,
  wf_chain chain -> (0 < retries)%nat ->
  let r := run start (init retries b0) (map Seg chain) in
  st r = Installed /\ blk r = splice b0 start (concat (map dat chain)) /\ sends r = 1%nat.
Proof. intros chain b0 start retries W. exact (fault_free_succeeds chain b0 start retries W). Qed.

(* What "installed" means byte by byte, with the simulator as peer: every requested byte equals the spa's,
   every other byte is either untouched or the spa's; the length is unchanged. *)
Theorem c01_installed_bytes : forall spa b0 start len,
  List.length spa = List.length b0 -> 0 <= start -> 0 < len -> start + len <= Z.of_nat (List.length spa) ->
  let target := splice b0 (Z.to_nat start) (concat (map dat (sim_chain spa start len))) in
  List.length target = List.length b0 /\
  forall i, (i < List.length b0)%nat ->
    (start <= Z.of_nat i < start + len -> nth i target 0 = nth i spa 0) /\
    (nth i target 0 = nth i b0 0 \/ nth i target 0 = nth i spa 0).
Proof. exact installed_bytes. Qed.

(* non-vacuity: length a multiple of 39 (the case that used to hang), 2 segments, duplicated + re-ordered delivery *)
Example c01_nonvacuous :
  let spa := map Z.of_nat (seq 0 100) in let b0 := repeat 7 100 in
  let chain := sim_chain spa 0 78 in
  List.length chain = 2%nat /\
  st (run 0 (init 10 b0) (map Seg (nth 1 chain (mkSeg 0 0 []) :: chain ++ chain))) = Installed.
Proof. vm_compute. split; reflexivity. Qed.
