(* C06 - Request engine: bounded retries, one request in flight, every caller completes; gates.
   Model: Model/Request.v - a timed acceptor of the observable events of GeckoAsyncUdpProtocol.get / GeckoAsyncStructure.get
   (lock queue, attempts, polls of wait_for_response, pauses, returns, cancellations) and of the gate in front of commands
   and queries.  Every statement is about EVERY accepted label list: any number of callers arriving at any time, any pattern
   of lost / late replies (the choice between LHit and LTimeout), any wake-up order, cancellation anywhere.
   The tie to the code is trace acceptance: the real engine's event stream must be accepted (tools/props/C06.py). *)
From Coq Require Import ZArith List Bool.
Require Import GV.Model.Request GV.Proofs.RequestP GV.Model.RequestW GV.Proofs.RequestWP.
Import ListNotations.
Open Scope Z_scope.

(* never two requests outstanding: the trace's own count of lock holders (grants minus returns / cancellations) is at most one *)
Theorem c06_at_most_one_in_flight : forall c ls s, run c init ls = Some s -> (List.length (holders_of ls) <= 1)%nat.
Proof. exact at_most_one_in_flight. Qed.

(* a datagram of a request is only ever sent by the one caller that holds the lock, and each attempt is a freshly built request *)
Theorem c06_send_only_by_holder_and_fresh : forall c ls i t f s, run c init (ls ++ [LSend i t f]) = Some s -> holders_of ls = [i] /\ f = true.
Proof. exact send_only_by_holder_and_fresh. Qed.

(* transmitted at most the configured retry count *)
Theorem c06_attempts_bounded : forall c ls s, run c init ls = Some s -> forall k, In (LCall k) ls -> sends_of (c_id k) ls <= c_retries k.
Proof. exact attempts_bounded. Qed.

(* a reply is returned only if one was delivered to this call; failure is reported only when every attempt has been used *)
Theorem c06_reply_only_if_delivered : forall c ls i t s, run c init (ls ++ [LRelease i t true]) = Some s -> 0 < hits_of i ls.
Proof. exact reply_only_if_delivered. Qed.
Theorem c06_failure_only_when_exhausted : forall c ls i t s, run c init (ls ++ [LRelease i t false]) = Some s ->
  exists k, In (LCall k) ls /\ c_id k = i /\ sends_of i ls = c_retries k.
Proof. exact failure_only_when_exhausted. Qed.

(* a simple call holds the lock no longer than retry-count x (timeout + pause), up to the scheduling slots (three per attempt,
   one to return) and the clock granularity *)
Theorem c06_duration_bounded : forall c ls s, cfg_ok c -> run c init ls = Some s ->
  forall f, In f (finished s) -> c_kind (f_call f) = Simple -> f_dur f <= c_retries (f_call f) * (cT c + cE c + cP c + 3 * cJ c) + cJ c.
Proof. exact duration_bounded. Qed.

(* served in arrival order: the queue on the lock is the arrival order of the calls not yet served or cancelled, and the lock
   is granted to its head, only when nobody holds it *)
Theorem c06_lock_queue_is_arrival_order : forall c ls s, run c init ls = Some s -> pending ls = map c_id (waiters s).
Proof. exact lock_queue_is_arrival_order. Qed.
Theorem c06_grant_goes_to_longest_waiting : forall c ls i t s, run c init (ls ++ [LAcquire i t]) = Some s ->
  exists rest, pending ls = i :: rest /\ holders_of ls = [].
Proof. exact grant_goes_to_longest_waiting. Qed.

(* all complete: when nobody holds or waits for the lock, every call that ever arrived has returned (or was cancelled) *)
Theorem c06_all_complete : forall c ls s, run c init ls = Some s -> holders_of ls = [] -> pending ls = [] ->
  forall k, In (LCall k) ls -> In (c_id k) (releases_of ls) \/ In (c_id k) (cancels_of ls).
Proof. exact all_complete. Qed.

(* the gate: a call site that checks the gate enters the engine only while the spa is connected and answering pings ... *)
Theorem c06_gated_call_sees_open_gate : forall c ls k s, run c init (ls ++ [LCall k]) = Some s -> c_gated k = true -> gate_of ls = true.
Proof. exact gated_call_sees_open_gate. Qed.
(* ... but 'no command or query datagram is sent while the gate is closed' is FALSE of the engine (findings K6a-c): the first attempt of a
   caller that queued on the lock behind a dying exchange, the retries of an attempt begun in time, and a query whose call site
   has no check are all sent with the gate closed *)
Theorem c06_no_query_while_gate_closed_refuted :
  option_map stale_sends (run CFG init w_stale_first) = Some 1 /\
  option_map stale_retries (run CFG init w_stale_retry) = Some 1 /\
  option_map unguarded_sends (run CFG init w_unguarded) = Some 1.
Proof. exact no_query_while_gate_closed_refuted. Qed.

(* ---------- all complete, with times (Model/RequestW.v: the same events with the clock read at every call and cancellation;
   accepted only when the clock never runs backwards, a holder never goes silent for longer than its next allowed moment, a
   structure download holds the lock at most cS, and the lock is handed over within one scheduling slot) ---------- *)
(* whatever the timed layer accepts the engine acceptor accepts: every theorem above holds for its event stream *)
Theorem c06_timed_layer_refines_engine : forall c cS ws s g s' g', wrun c cS (s, g) ws = Some (s', g') -> run c s (inner ws) = Some s'.
Proof. exact inner_accepted. Qed.
(* a caller that arrives when the clock shows [clock g] is promised the lock by: the later of its arrival and the moment the lock
   must be free of its present holder, plus - for every caller queued ahead - one scheduling slot and that caller's own time bound
   (retry-count x (timeout + pause + slots) for a simple call), plus one slot *)
Theorem c06_promise_bounded : forall c cS ws k s' g', cfg_ok c -> 0 <= cS -> wrun c cS (init, ginit) (ws ++ [WL (LCall k)]) = Some (s', g') ->
  exists s g e, wrun c cS (init, ginit) ws = Some (s, g) /\ wq g' = wq g ++ [e] /\ we_call e = k /\ we_arr e = clock g /\
    we_prom e <= Z.max (free_by c cS s g) (clock g) + load c cS (wq g) + cJ c.
Proof. exact promise_bounded. Qed.
(* the promise stays attached to the caller unchanged until it is served or cancelled ... *)
Theorem c06_promise_not_rewritten : forall c cS s g w s' g', wstep c cS (s, g) w = Some (s', g') ->
  forall e, In e (wq g') -> In e (wq g) \/ exists k, w = WL (LCall k) /\ we_call e = k /\ we_arr e = clock g.
Proof. exact entries_persist. Qed.
(* ... and every grant of the lock keeps it, for any number of callers, arrival times, losses, cancellations of waiters or holders *)
Theorem c06_grant_keeps_promise : forall c cS ws i t x, cfg_ok c -> 0 <= cS ->
  wrun c cS (init, ginit) (ws ++ [WL (LAcquire i t)]) = Some x ->
  exists s g w r, wrun c cS (init, ginit) ws = Some (s, g) /\ wq g = w :: r /\ c_id (we_call w) = i /\ we_arr w <= t <= we_prom w.
Proof. exact grant_keeps_promise. Qed.
