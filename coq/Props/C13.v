(* C13 - Facade commands emit exactly the intended device write and are idempotent.
   Model: Model/Commands.v (command -> datagrams given the current block), composed from the C02 accessor model,
   the C14 temperature model, the C04 wire model and the AST-translated C16 counters. *)
From Coq Require Import ZArith List Bool String PrimFloat.
Require Import GV.Lib.Bytes GV.Model.Accessor GV.Model.Wire GV.Model.Temp GV.Model.Commands GV.Gen.Counter
               GV.Proofs.AccessorP GV.Proofs.CommandsP.
Import ListNotations.
Open Scope Z_scope.

(* Pump mode: exactly one SPACK set-value with the connected pack's type and versions and a command-range number;
   applied by the spa it makes the demand item read the requested mode and changes no byte outside the item. *)
Theorem c13_set_mode_effect : forall c blk ctr a mode,
  wf a blk -> a_type a = TEnum -> a_rw a = true -> In mode (a_items a) -> ctr_ok ctr ->
  (match a_bitpos a, a_mask a with
   | Some _, Some m => Z.of_nat (List.length (a_items a)) <= m + 1
   | _, _ => Z.of_nat (List.length (a_items a)) <= 2 ^ (8 * a_len a) end) ->
  exists seq pos len v blk',
    fst (exec c blk ctr (SetMode a mode)) = [SpackSet seq (c_pack c) (c_cfg c) (c_log c) pos len v] /\
    192 <= seq <= 255 /\ spa_apply blk (SpackSet seq (c_pack c) (c_cfg c) (c_log c) pos len v) = Some blk' /\
    get_value a blk' = Some (VStr mode) /\
    (forall i, (Z.of_nat i < a_pos a \/ a_pos a + a_len a <= Z.of_nat i) -> nth i blk' 0 = nth i blk 0).
Proof. exact set_mode_effect. Qed.

(* On/off devices: nothing is sent when the device is already in the requested state (for EVERY current state) ... *)
Theorem c13_switch_idempotent : forall c blk ctr s on,
  is_on (sw_state s) blk = Some on -> exec c blk ctr (Turn s on) = ([], ctr).
Proof. exact switch_idempotent. Qed.
(* ... otherwise exactly one key press with the device's keypad code, or (eco mode, keypad 0) one direct write. *)
Theorem c13_switch_keypad_one : forall c blk ctr s on,
  is_on (sw_state s) blk = Some (negb on) -> sw_keypad s <> 0 -> ctr_ok ctr ->
  exists seq, fst (exec c blk ctr (Turn s on)) = [SpackKey seq (c_pack c) (sw_keypad s)] /\ 192 <= seq <= 255.
Proof. exact switch_keypad_one. Qed.
Theorem c13_switch_direct_one : forall c blk ctr s on,
  is_on (sw_state s) blk = Some (negb on) -> sw_keypad s = 0 ->
  wf (sw_state s) blk -> a_type (sw_state s) = TBool -> a_rw (sw_state s) = true -> ctr_ok ctr ->
  exists seq pos len v blk', fst (exec c blk ctr (Turn s on)) = [SpackSet seq (c_pack c) (c_cfg c) (c_log c) pos len v] /\
    192 <= seq <= 255 /\ spa_apply blk (SpackSet seq (c_pack c) (c_cfg c) (c_log c) pos len v) = Some blk' /\
    is_on (sw_state s) blk' = Some on.
Proof. exact switch_direct_one. Qed.

(* Target temperature: every temperature the device can represent is written as exactly its word and reads back. *)
Theorem c13_set_target_representable : forall c blk ctr a u r,
  wf a blk -> a_type a = TWord -> a_rw a = true -> a_bitpos a = None -> a_two a = true -> 0 <= r < 65536 -> ctr_ok ctr ->
  exists seq blk', fst (exec c blk ctr (SetTarget a u (get_temp u r))) = [SpackSet seq (c_pack c) (c_cfg c) (c_log c) (a_pos a) (a_len a) r] /\
    192 <= seq <= 255 /\ spa_apply blk (SpackSet seq (c_pack c) (c_cfg c) (c_log c) (a_pos a) (a_len a) r) = Some blk' /\
    get_value a blk' = Some (VInt r).
Proof. exact set_target_representable. Qed.

(* For ANY sequence of commands on any blocks: each command emits at most one datagram; every pack command carries the
   connected pack's type (and versions) and a number in 192..255, watercare a number in 1..191. *)
Theorem c13_all_sequences : forall c ks ctr, ctr_ok ctr ->
  let '(mss, ctr') := exec_all c ctr ks in
  ctr_ok ctr' /\ Forall (fun ms => (List.length ms <= 1)%nat /\ Forall (msg_ok c) ms) mss.
Proof. exact exec_all_ok. Qed.
