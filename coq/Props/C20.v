(* C20 - Threaded engine: FIFO paced sends, first-match dispatch, bounded handler life.
   Model: Model/Threaded.v - one iteration of GeckoUdpSocket._thread_func as a function of (state, now, datagram),
   handlers abstract (accepts / effect of handle()).  All theorems hold for EVERY schedule of iterations. *)
From Coq Require Import ZArith List Bool.
Require Import GV.Model.Threaded GV.Model.ThreadedChk GV.Proofs.ThreadedP.
Import ListNotations.
Open Scope Z_scope.

Section C20.
  Variable dg : Type.
  Variable accepts : nat -> dg -> bool.
  Variable eff : nat -> dg -> effect.

  (* queued sends leave the queue in FIFO order: taken ++ still queued = enqueue order, after any run; the transmissions
     are the taken entries that had a destination, in the same order *)
  Theorem c20_sends_fifo : forall evs e, Fifo e -> Fifo (run dg accepts eff e evs).
  Proof. intros evs e. exact (sends_fifo dg accepts eff evs e). Qed.
  (* ... no faster than the throttle rate: consecutive transmissions are at least 20 ms apart *)
  Theorem c20_send_gap : forall evs e, Paced e -> Paced (run dg accepts eff e evs).
  Proof. intros evs e. exact (send_gap dg accepts eff evs e). Qed.

  (* each received datagram goes to the FIRST registered handler that accepts it, and only to it *)
  Theorem c20_first_match : forall l1 h l2 now d,
    Forall (fun x => accepts (hid x) d = false) l1 -> accepts (hid h) d = true ->
    dispatch dg accepts eff (l1 ++ h :: l2) now d =
      l1 ++ match eff (hid h) d with
            | Raise => h | Keep => mkH (hid h) now (tmo h) (left h) (rm h) (dest h) | Remove => mkH (hid h) now (tmo h) (left h) true (dest h) end :: l2.
  Proof. exact (first_match dg accepts eff). Qed.
  Theorem c20_unclaimed_is_inert : forall l now d, Forall (fun x => accepts (hid x) d = false) l -> dispatch dg accepts eff l now d = l.
  Proof. exact (nobody_accepts dg accepts eff). Qed.
  (* a handler exception never stops the engine: the handler list is unchanged and the iteration goes on *)
  Theorem c20_exception_isolated : forall l1 h l2 now d,
    Forall (fun x => accepts (hid x) d = false) l1 -> accepts (hid h) d = true -> eff (hid h) d = Raise ->
    dispatch dg accepts eff (l1 ++ h :: l2) now d = l1 ++ h :: l2.
  Proof. exact (exception_isolated dg accepts eff). Qed.

  (* a request with N retries: transmissions queued so far + retries left = 1 + N for as long as it is registered,
     under every schedule - hence never more than 1 + N transmissions, and exactly N retransmissions when the engine
     removes it for lack of retries *)
  Theorem c20_bounded_retransmissions : forall x n evs e, Budget x n e -> Budget x n (run dg accepts eff e evs).
  Proof. intros x n evs e. exact (bounded_retransmissions dg accepts eff x n evs e). Qed.
  (* once removed it is never transmitted again *)
  Theorem c20_removed_never_requeued : forall e ev x, ~ In x (map hid (hs e)) ->
    count x (enq (iter dg accepts eff e ev)) = count x (enq e).
  Proof. exact (removed_never_requeued dg accepts eff). Qed.
  (* an answered request is removed in the iteration that delivers the answer *)
  Theorem c20_answered_removed : forall e now d l1 h l2,
    hs (do_send e now) = l1 ++ h :: l2 -> NoDup (map hid (hs e)) ->
    Forall (fun x => accepts (hid x) d = false) l1 -> accepts (hid h) d = true -> eff (hid h) d = Remove ->
    ~ In (hid h) (map hid (hs (iter dg accepts eff e (now, Some d)))).
  Proof. exact (answered_removed dg accepts eff). Qed.
End C20.

(* non-vacuity: a request with timeout 100 ms and 2 retries, never answered, iterated every 51 ms: transmitted at
   t = 0, then exactly twice more, then removed *)
Example c20_nonvacuous :
  let e0 := queue_send (add_handler (mkE [] [] (-1000) [] []) (mkH 7 0 100 2 false false)) 7 in
  let e := run unit (fun _ _ => false) (fun _ _ => Keep) e0 (map (fun k => (51 * Z.of_nat k, None)) (seq 0 12)) in
  map snd (sent e) = [7%nat; 7%nat; 7%nat] /\ hs e = [].
Proof. vm_compute. split; reflexivity. Qed.

(* K8 (known finding): a request whose timeout expires before its FIRST transmission (its send still waits in the paced
   queue behind another one) is re-queued by retry() with last_destination = None; that entry is consumed without being
   transmitted, so the request goes on the wire fewer than 1 + N times although its retries are used up.
   Witness: request 7 (timeout 100 ms, 2 retries) queued behind request 8, first engine iteration after 150 ms. *)
Theorem c20_exactly_n_retransmissions_refuted :
  let e0 := queue_send (queue_send (add_handler (add_handler (mkE [] [] (-1000) [] []) (mkH 8 0 0 0 false false)) (mkH 7 0 100 2 false false)) 8) 7 in
  let e := run unit (fun _ _ => false) (fun _ _ => Keep) e0 (map (fun k => (150 + 51 * Z.of_nat k, None)) (seq 0 14)) in
  ~ In 7%nat (map hid (hs e)) /\ count 7 (map snd (sent e)) = 2%nat /\ count 7 (enq e) = 3%nat.
Proof. vm_compute. repeat split; try reflexivity. intros [H|[]]; discriminate. Qed.

(* K9 (known finding): 'removed without further transmission once answered' is false of the engine when a retry of the request
   was already waiting in the paced send queue (behind another request's datagram) at the moment the answer arrived: the request
   is removed from the handlers, but the queued retry still goes on the wire.
   Witness (found by the correspondence run on the real engine): requests 1 and 2 (timeout 100 ms) queued together at 1638;
   1 is transmitted at 2688, times out and queues a retry behind 2's first transmission; the answer for 1 arrives in the
   iteration at 3123 - and 1 is transmitted again at 3549. *)
Theorem c20_no_transmission_after_answer_refuted :
  let t := [(1%nat, 68, Remove)] in
  let ops := [OAdd 1 1638 100 5; OSend 1; OAdd 2 1638 100 4; OSend 2; OIter 2688 None; OIter 2703 None; OIter 3123 (Some 68)] in
  let e1 := fold_left (apply_op t) ops (mkE [] [] (-1000000) [] []) in
  let e2 := fold_left (apply_op t) [OIter 3129 None; OIter 3549 None] e1 in
  ~ In 1%nat (map hid (hs e1)) /\ In (3549, 1%nat) (sent e2).
Proof. vm_compute. split; [intros [H|[]]; discriminate|]. repeat (first [left; reflexivity | right]). Qed.
