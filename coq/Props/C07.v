(* C07 - Dispatch: each datagram consumed once, only by a capable, addressed consumer.
   Model: Model/Dispatch.v - the peekable queue with its mark flag, the unhandled consumer's mark-sleep-pop, consumers and
   waiters that pop what their class accepts, the packet consumer's unwrap-and-requeue guarded by the identifier pair.
   All statements are over ARBITRARY label lists: any arrival sequence and any interleaving / wake-up order of the tasks,
   any number of consumers and waiters, unbounded queue. *)
From Coq Require Import List Bool Arith.
Require Import GV.Gen.DispatchFacts GV.Model.Dispatch GV.Proofs.DispatchP.
Import ListNotations.

(* every datagram ever queued is still queued or has been popped, never both, never twice *)
Theorem c07_pop_exactly_once : forall ls, let s := run init ls in
  NoDup (map fst (q s) ++ map (fun p => fst (fst p)) (popped s)) /\
  forall i, i < nextid s <-> In i (map fst (q s)) \/ In i (map (fun p => fst (fst p)) (popped s)).
Proof. exact pop_exactly_once. Qed.

(* taken by a consumer that accepts it, or discarded by the unhandled consumer - never by one that does not accept it *)
Theorem c07_pop_only_by_acceptor_or_unhandled : forall ls i d c,
  In (i, d, c) (popped (run init ls)) -> c = Unh \/ exists k, c = K k /\ accepts k d = true.
Proof. exact pop_only_by_acceptor. Qed.

Theorem c07_never_both : forall ls i d1 c1 d2 c2, let s := run init ls in
  In (i, d1, c1) (popped s) -> In (i, d2, c2) (popped s) -> (i, d1, c1) = (i, d2, c2) \/ False.
Proof. exact never_both. Qed.

(* a framed packet whose identifier pair is not this connection's is removed and has no other effect; a correctly addressed
   one puts exactly its content at the tail of the queue *)
Theorem c07_misaddressed_is_inert : forall s i inner r, q s = (i, Packet false inner) :: r ->
  step s (Poll (K PACKET_CLASS)) = mk r false (uph s) ((i, Packet false inner, K PACKET_CLASS) :: popped s) (nextid s).
Proof. exact misaddressed_is_inert. Qed.
Theorem c07_addressed_requeues : forall s i inner r, q s = (i, Packet true inner) :: r ->
  q (step s (Poll (K PACKET_CLASS))) = r ++ [(nextid s, Plain inner)].
Proof. exact addressed_requeues. Qed.

(* no datagram stays at the head for more than patience + 2 polls of the unhandled consumer (a few polling intervals; the
   patience - 3 intervals in the current code - is read from the AST), whatever arrives meanwhile and even if no other
   consumer ever polls: unknown or unsolicited traffic cannot block later datagrams *)
Theorem c07_head_leaves_within_a_few_polls : forall s x r ls,
  Inv s -> InvU s -> q s = x :: r -> forallb quiet_label ls = true -> unhandled_patience + 2 <= unh_polls ls ->
  ~ In (fst x) (map fst (q (run s ls))).
Proof. exact head_leaves_within_patience_plus_two_polls. Qed.
Theorem c07_phase_counter_bounded : forall ls, InvU (run init ls).
Proof. exact reachable_InvU. Qed.
Theorem c07_invariant_everywhere : forall ls, Inv (run init ls).
Proof. exact dispatch_safe. Qed.

Example c07_nonvacuous :
  let s := run init ([Put (Plain [7]); Put (Packet true [3]); Poll (K 3)] ++ repeat (Poll Unh) (S unhandled_patience) ++ [Poll (K 1); Poll Unh; Poll (K 1); Poll (K 3)]) in
  map (fun p => (fst (fst p), snd p)) (popped s) = [(2, K 3); (1, K 1); (0, Unh)] /\ q s = [].
Proof. vm_compute. split; reflexivity. Qed.
