(* C15 - Discovery lists each spa once, honours the filter, and terminates on time.
   Model: Model/Discovery.v - GeckoAsyncLocator.discover as an LTS over arrivals of hello replies, the hello consumer's pops
   and the main loop's polls; every theorem holds for ANY label list (any number, timing, duplication and order of replies,
   any interleaving of the two tasks). *)
From Coq Require Import ZArith List Bool.
Require Import GV.Model.Discovery GV.Proofs.DiscoveryP.
Import ListNotations.
Open Scope Z_scope.

(* each listed spa exactly once; identifier, name and address are those of a reply that arrived; only the requested
   identifier when one is given *)
Theorem c15_each_once_fields_intact_filter : forall c ls,
  let s := run c init ls in
  NoDup (map r_id (spas s)) /\ (forall r, In r (spas s) -> In r (arrived ls)) /\
  (forall want, f_id c = Some want -> forall r, In r (spas s) -> r_id r = want).
Proof. exact discovery_safe. Qed.

(* every reply that is consumed, is new and passes the filter IS listed *)
Theorem c15_consumed_is_listed : forall c s r q, finished s = None -> queue s = r :: q -> ~ In (r_id r) (seen s) ->
  (forall want, f_id c = Some want -> want = r_id r) -> In r (spas (step c s Consume)).
Proof. exact consumed_is_listed. Qed.

(* the main loop's poll returns exactly when: the timeout has passed, or the initial wait has passed and some spa is
   listed, or a specifically requested spa has answered *)
Theorem c15_poll_exit_conditions : forall c s age, finished s = None ->
  finished (step c s (MainPoll age)) =
    if negb (age <? t_timeout c) || ((t_initial c <? age) && negb (Nat.eqb (List.length (spas s)) 0)) || found s then Some age else None.
Proof. exact main_poll_exits. Qed.

(* returns as soon as a specifically requested spa has answered: the first poll after the reply was consumed and the client's own handler
   for LOCATING_DISCOVERED_SPA has returned (the library sets its flag behind that call: a client that stays suspended in its handler
   delays the return by exactly that long - and by nothing else, c15_only_the_handler_delays) *)
Theorem c15_returns_asap_when_found : forall c s r q, finished s = None -> queue s = r :: q -> ~ In (r_id r) (seen s) ->
  (f_addr c = true \/ f_id c = Some (r_id r)) -> (forall want, f_id c = Some want -> want = r_id r) ->
  forall age, finished (step c (step c (step c s Consume) HandlerDone) (MainPoll age)) = Some age.
Proof. exact found_when_requested. Qed.
Theorem c15_only_the_handler_delays : forall c s, finished s = None -> found s = false -> found (step c s Consume) = false.
Proof. exact not_found_before_handler_returns. Qed.

(* in all cases within the discovery timeout: the first poll at or after it returns *)
Theorem c15_returns_by_timeout : forall c s age, finished s = None -> t_timeout c <= age -> finished (step c s (MainPoll age)) = Some age.
Proof. intros c s age Hf Ht. rewrite (main_poll_exits c s age Hf).
  replace (age <? t_timeout c) with false by (symmetry; apply Z.ltb_ge; exact Ht). reflexivity. Qed.

(* after the return (endpoint closed, helper tasks cancelled) nothing has any effect *)
Theorem c15_finished_is_final : forall c s l t, finished s = Some t -> step c s l = s.
Proof. exact finished_is_final. Qed.

(* completeness has a ceiling: whatever arrives, the list never holds more spas than the consumer has taken datagrams from the receive queue - and
   the real consumer takes one per 0.1 s poll, so a discovery that returns at the initial wait lists at most t_initial / 0.1 s spas (finding K14) *)
Theorem c15_listed_never_exceeds_consumed : forall c ls, (List.length (spas (run c init ls)) <= consumes ls)%nat.
Proof. exact listed_le_consumed. Qed.
(* the shape of K14: three spas answer at once, one datagram has been taken when the initial wait is over - discover() returns with one spa
   listed and the two other replies still queued *)
Example c15_k14_shape :
  let s := run (mkCfg None false 4000 10000) init [Arrive (mkR 1 1 1); Arrive (mkR 2 2 2); Arrive (mkR 3 3 3); Consume; MainPoll 4001] in
  finished s = Some 4001 /\ List.length (spas s) = 1%nat /\ map r_id (queue s) = [2; 3].
Proof. exact k14_shape. Qed.

Example c15_nonvacuous :
  let c := mkCfg None false 4000 10000 in
  map r_id (spas (run c init [Arrive (mkR 1 1 1); Arrive (mkR 2 2 2); Arrive (mkR 1 1 1); Consume; Consume; MainPoll 300; Consume; MainPoll 4100])) = [1; 2] /\
  finished (run c init [Arrive (mkR 1 1 1); Consume; MainPoll 300; MainPoll 4100]) = Some 4100.
Proof. vm_compute. split; reflexivity. Qed.
