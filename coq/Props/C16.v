(* C16 - Sequence numbers: requests cycle 1..191, commands 192..255, never 0.
   Statements only; proofs are in Proofs/CounterP.v; the functions async_next /
   sync_next are regenerated from the Python AST on every run (Gen/Counter.v),
   the call-site table from every get_and_increment_sequence_counter call (Gen/SeqSites.v). *)
From Coq Require Import ZArith List Bool String.
Require Import GV.Gen.Counter GV.Gen.SeqSites GV.Proofs.CounterP.
Import ListNotations.
Open Scope Z_scope.

(* For every interleaving of protocol (false) and command (true) requests, the
   i-th value handed out is the k-th of its own cycle, k = number of requests of
   that kind so far: 1..191 cyclic, resp. 192..255 cyclic - independent of the other kind. *)
Theorem c16_kth_async : forall calls i b v,
  nth_error (snd (run async_next async_init calls)) i = Some (b, v) ->
  nth_error calls i = Some b /\
  let k := count b (firstn (S i) calls) in
  1 <= k /\ v = if b then 192 + (k - 1) mod 64 else (k - 1) mod 191 + 1.
Proof. exact async_kth. Qed.

Theorem c16_kth_sync : forall calls i b v,
  nth_error (snd (run sync_next sync_init calls)) i = Some (b, v) ->
  nth_error calls i = Some b /\
  let k := count b (firstn (S i) calls) in
  1 <= k /\ v = if b then 192 + (k - 1) mod 64 else (k - 1) mod 191 + 1.
Proof. exact sync_kth. Qed.

Theorem c16_ranges_never_zero : forall calls i b v,
  (nth_error (snd (run async_next async_init calls)) i = Some (b, v) \/
   nth_error (snd (run sync_next sync_init calls)) i = Some (b, v)) ->
  if b then 192 <= v <= 255 else 1 <= v <= 191.
Proof. intros calls i b v [H|H]; [exact (ranges _ _ async_kth calls i b v H) | exact (ranges _ _ sync_kth calls i b v H)]. Qed.

Theorem c16_both_classes_equal : forall calls,
  snd (run async_next async_init calls) = snd (run sync_next sync_init calls).
Proof. exact both_equal. Qed.

(* the threaded counter's body is one `with self._lock` block (AST fact) *)
Theorem c16_threaded_counter_locked : sync_locked = true.
Proof. reflexivity. Qed.

(* every call site passes command=True exactly when it feeds a pack-command factory *)
Definition site_ok (s : string * string * string * bool * bool) : bool :=
  let '(_, _, _, flag, is_cmd) := s in Bool.eqb flag is_cmd.
Theorem c16_sites_use_right_range : forallb site_ok seq_sites = true.
Proof. vm_compute. reflexivity. Qed.

(* non-vacuity: a concrete interleaving that wraps both counters *)
Example c16_wraps :
  let calls := (repeat false 192 ++ repeat true 65)%list in
  nth_error (snd (run async_next async_init calls)) 191 = Some (false, 1) /\
  nth_error (snd (run async_next async_init calls)) 256 = Some (true, 192).
Proof. vm_compute. split; reflexivity. Qed.
