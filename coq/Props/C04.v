(* C04 - Wire format: every message round-trips and is claimed by exactly its verb.
   Model: Model/Wire.v (hand-written; encoders, decoders, can_handle matrix, hello, framing), tied to the
   real constructors / handle() / can_handle() by tools/props/C04.py. *)
From Coq Require Import ZArith List Bool.
Require Import GV.Lib.Bytes GV.Model.Wire GV.Model.WireChk GV.Proofs.WireP GV.Proofs.WireFilesP.
Import ListNotations.
Open Scope Z_scope.

(* Fixed-size kinds (ping, version, channel, config-file request, status request, STATQ, key-press, PACKS,
   watercare get, reminders request, firmware, RF-error): for ALL field values the constructor accepts. *)
Theorem c04_roundtrip_simple : forall m b, simple m -> encode m = Some b -> decode b = Some m.
Proof. exact roundtrip_simple. Qed.
Theorem c04_roundtrip_set_value : forall s p c l pos len v b,
  encode (SpackSet s p c l pos len v) = Some b -> decode b = Some (SpackSet s p c l pos len v).
Proof. exact roundtrip_spackset. Qed.
(* STATV: any segment of 0..255 ARBITRARY bytes (newlines, tag-like text, NUL). *)
Theorem c04_roundtrip_status_segment : forall i n d b, encode (Statv i n d) = Some b -> decode b = Some (Statv i n d).
Proof. exact roundtrip_statv. Qed.
(* STATP: any number of (position, 2-byte word) records; and the single 1-byte change the simulator emits. *)
Theorem c04_roundtrip_partial : forall cs b,
  Forall (fun ch => List.length (snd ch) = 2%nat) cs -> encode (Statp cs) = Some b -> decode b = Some (Statp cs).
Proof. exact roundtrip_statp. Qed.
Theorem c04_roundtrip_partial_single_byte : forall p x b,
  encode (Statp [(p, [x])]) = Some b -> decode b = Some (Statp [(p, [x])]).
Proof. exact roundtrip_statp_single_byte. Qed.
(* Reminders: any list, types 0..6, signed days -32768..32767. *)
Theorem c04_roundtrip_reminders : forall rs b,
  Forall (fun r => 0 <= fst r <= 6) rs -> encode (Rmreq rs) = Some b -> decode b = Some (Rmreq rs).
Proof. exact roundtrip_rmreq. Qed.
(* Config-file reply: every shipped platform name (regenerated tables) x every version 0..255 of each
   coordinate (finite, complete per coordinate), incl. the "MrSt" -> "MrSteam" mapping. *)
Theorem c04_roundtrip_files_shipped : forall p, In p platform_names -> files_sweep p = true.
Proof. intros p H. pose proof files_roundtrip_all as A. rewrite forallb_forall in A. auto. Qed.
Theorem c04_roundtrip_files_mrst : files_sweep T_MRST = true.
Proof. exact files_mrst. Qed.

(* Each message the library builds is accepted by exactly the handler class of its verb (14 standard classes). *)
Theorem c04_verb_exclusive : forall m b h, encode m = Some b ->
  accepts h b = match owner m with Some h' => handler_eqb h h' | None => false end.
Proof. exact verb_exclusive. Qed.
(* ... the full statement "every built message has an owner" is false: SETWC and WCREQ (K4). *)
Theorem c04_every_message_claimed_refuted :
  exists m b, encode m = Some b /\ forall h, accepts h b = false.
Proof. exists (Setwc 1 2). eexists. split; [reflexivity|]. intros h; destruct h; reflexivity. Qed.

(* Packet framing: identifiers without '<', payload ARBITRARY bytes; a reply is addressed back with the
   identifiers swapped. *)
Theorem c04_packet_roundtrip : forall src dst payload, no_lt src -> no_lt dst ->
  unframe (frame src dst payload) = Some (src, dst, payload).
Proof. exact unframe_frame. Qed.
Theorem c04_reply_swaps_ids : forall src dst payload reply, no_lt src -> no_lt dst ->
  unframe (frame src dst payload) = Some (src, dst, payload) /\
  unframe (send_with_parms src dst reply) = Some (dst, src, reply).
Proof. exact reply_swaps_ids. Qed.

(* Discovery hello: identifier without '|', name ARBITRARY (incl. '|'). *)
Theorem c04_hello_response : forall id name,
  Forall (fun x => x <> 124) id ->
  let c := id ++ [124] ++ name in
  bytes_eqb c [49] = false -> starts_with T_IOS c || starts_with T_AND c = false ->
  dec_hello (enc_hello (HResponse id name)) = Some (HResponse id name).
Proof. exact hello_roundtrip_response. Qed.
Theorem c04_hello_client : forall id,
  bytes_eqb id [49] = false -> starts_with T_IOS id || starts_with T_AND id = true ->
  dec_hello (enc_hello (HClient id)) = Some (HClient id).
Proof. exact hello_roundtrip_client. Qed.
Theorem c04_hello_broadcast : dec_hello (enc_hello HBroadcast) = Some HBroadcast.
Proof. exact hello_roundtrip_broadcast. Qed.

(* non-vacuity: a payload made of tag text survives framing; a name with separators survives hello *)
Example c04_nonvacuous :
  unframe (frame [83;80;65] [73;79;83] (D1 ++ [120] ++ D2 ++ DATAS_C)) = Some ([83;80;65], [73;79;83], D1 ++ [120] ++ D2 ++ DATAS_C) /\
  dec_hello (enc_hello (HResponse [83;80;65] [124;65;124])) = Some (HResponse [83;80;65] [124;65;124]).
Proof. split; vm_compute; reflexivity. Qed.
