(* C09 - Self-healing: the manager returns to CONNECTED once the spa is reachable again.
   LTS: Model/Lifecycle.v (event switch, async_reset and the sequence pump's shape extracted from async_spa_manager.py on
   every run).  Faults are labels: discovery finds nothing / raises, a handshake step exceeds its retries or raises, missed
   pings, RF errors, protocol retries exceeded, user resets and set-spa-info - between ANY two steps, also in the middle of
   a connection attempt.  'The network is healthy again' is the schedule of Model/Heal.v.  The fault-reachable set is
   computed and shown closed, so the statements hold after ANY finite fault history - no bound on its length. *)
From Coq Require Import List Bool ZArith.
Require Import GV.Gen.LifecycleRules GV.Model.Lifecycle GV.Proofs.LifecycleP GV.Model.Heal GV.Proofs.HealP GV.Model.LifecycleI GV.Proofs.LifecycleIP GV.Proofs.HealIP.
Require GV.Model.Request.
Import ListNotations.

(* after any finite history of faults, resets and set-spa-info calls, the healthy schedule reaches CONNECTED with a facade on a
   connected spa, within 420 virtual seconds of the idle configuration (per step: poll 1 s, discovery 11 s, one request
   exchange 64 s - at least C06's proved bound for ten attempts, see c09_costs_cover_the_request_bound -, next ping of a still-pinging
   connection 71 s) *)
Theorem c09_heals_after_any_fault_history : forall ls s,
  Forall (fun l => fault_label l = true) ls -> runS (entered true) ls = Some s ->
  exists t, heal idle_costs FUELH s 0 = Some t /\ (t <= 420)%Z.
Proof. exact heals_after_any_faults. Qed.

Theorem c09_costs_cover_the_request_bound :
  (Request.bound (Request.Build_cfg 4000000 2000000 100000 5) (Request.mkc 0 Request.Simple 10 false false) <= k_request idle_costs * 1000000)%Z /\
  (60000000 + Request.bound (Request.Build_cfg 4000000 2000000 100000 5) (Request.mkc 0 Request.Simple 1 false false) <= k_ping idle_costs * 1000000)%Z.
Proof. exact request_cost_covers_c06_bound. Qed.

(* the background sequence that drives reconnection never dies - after ANY label list, faults or not *)
Theorem c09_pump_never_dies : forall c ls s, runS (entered c) ls = Some s -> ppc s <> PDead.
Proof. exact pump_never_dies. Qed.

(* an unreachable spa is reported: in every reachable CONNECTED state the ping loop's no-response event leaves CONNECTED *)
Theorem c09_unreachable_is_reported : forall c ls s, runS (entered c) ls = Some s -> st s = CONNECTED ->
  exists s', stepS s (Ext RUNNING_PING_NO_RESPONSE) = Some s' /\ st s' <> CONNECTED.
Proof. exact unreachable_is_reported. Qed.

(* the same under INTERLEAVINGS (Model/LifecycleI.v: the pump, one task of the connection and one user task inside the manager at
   once, the client's handler suspended at every delivery for as long as the schedule likes): after ANY schedule of fault labels and
   task resumptions, once the tasks inside the manager have been resumed to their end the healthy schedule reaches CONNECTED within
   the same 420 virtual seconds (before the repair of finding K10 - async_reset now clears the descriptors again when it finishes -
   the states 'IDLE, nothing connected, descriptors present' were the exception: no branch of the pump leaves them) *)
Theorem c09_heals_after_any_interleaved_fault_schedule : forall ls s,
  all_fault ls = true -> irun (ientered true) ls = Some s -> heals_within 420 s = true.
Proof. exact interleaved_heal. Qed.
Example c09_interleaved_nonvacuous :
  Nat.ltb 1500 (List.length ireach9) = true /\ existsb (fun s => suspended s SU && suspended s SP) ireach9 = true /\ List.length (filter k10_shape ireach9) = O.
Proof. exact heal_nonvacuous. Qed.

(* non-vacuity: the fault-reachable set contains every error state and the middle of a connection attempt after a reset *)
Example c09_nonvacuous :
  forallb (fun x => existsb (fun s => sstate_eqb (st s) x) reach9)
          [CONNECTED; ERROR_PING_MISSED; ERROR_RF_FAULT; ERROR_NEEDS_ATTENTION; ERROR_SPA_NOT_FOUND; CONNECTING; LOCATING_SPAS] = true /\
  existsb (fun s => match ppc s with PConn _ => negb (spa s) | _ => false end) reach9 = true /\
  existsb (fun s => pc_eqb (ppc s) PNotFound) reach9 = true.
Proof. vm_compute. repeat split; reflexivity. Qed.
