(* C18 - Pack tables are well-formed, consistent, and published layouts never change.
   All tables are regenerated from /repo on every run (Gen/Tables, 164 modules); the pinned
   layouts (Pinned/, committed) were generated once from the audited commit 236b7b1. *)
From Coq Require Import ZArith List Bool String.
Require Import GV.Lib.Bytes GV.Model.Accessor GV.Model.TableWf GV.Proofs.TableP GV.Proofs.ShippedP GV.Proofs.C18P
               GV.Proofs.WireFilesP
               GV.Gen.AllTables GV.Gen.PinCheck.
Import ListNotations.
Open Scope Z_scope.

(* Every item of every shipped table is addressable: derived shape = model derivation, bytes inside
   the 1024-byte block, bit field inside its bytes, every label representable.  Exceptions are exactly
   TableWf.known_bad (K1, K2). *)
Theorem c18_items_addressable : forall m t,
  In m all_tables -> In t (m_items m) -> is_known_bad (m_file m) (d_tag (t_decl t)) = false -> item_facts t.
Proof. intros m t Hm Ht Hk. apply item_ok_facts. apply (shipped_item_ok m t). repeat split; auto. Qed.

(* The full statement (no exceptions) is false on the audited tree: witnesses. *)
Theorem c18_all_items_addressable_refuted :
  exists m t, In m all_tables /\ In t (m_items m) /\ item_ok t = false.
Proof.
  assert (H : existsb (fun m => existsb (fun t => negb (item_ok t)) (m_items m)) all_tables = true) by (vm_compute; reflexivity).
  apply existsb_exists in H. destruct H as [m [Hm H]]. apply existsb_exists in H. destruct H as [t [Ht H]].
  exists m, t. repeat split; auto. now apply negb_true_iff in H.
Qed.

(* Every advertised key (outputs, user demands, error keys) names an item; tags are unique per module. *)
Theorem c18_keys_resolve : forall m, In m all_tables -> keys_resolve m = true /\ nodup_str (tags m) = true.
Proof. exact keys_and_tags. Qed.

(* Module file names agree with the platform and the version they declare; no two modules share a name. *)
Theorem c18_module_names_agree : names_ok all_tables = true.
Proof. vm_compute. reflexivity. Qed.

(* The layout of every published (pinned) module is unchanged in the current tree. *)
Theorem c18_pinned_layout_unchanged : forall p, In p pinned_tables ->
  exists c, In c all_tables /\ m_file c = m_file p /\ layout_eqb p c = true.
Proof. exact pinned_unchanged. Qed.

(* Module names agree with the config-file naming a spa reports: for every shipped platform x config x log
   combination (895), the FILES reply built from the pack's name and the declared versions decodes (C04 codec)
   to a platform key and versions whose module names are exactly the shipped modules'. *)
Theorem c18_files_reply_resolves : combos_resolve = true /\ ncombos = 895%nat.
Proof. split; [exact files_reply_resolves | exact ncombos_895]. Qed.

Example c18_nonvacuous : List.length all_tables = 164%nat /\ List.length pinned_tables = 164%nat.
Proof. split; vm_compute; reflexivity. Qed.
