(* C02 - Pack-table items: write-then-read returns the value, no other bit changes.
   Statements only.  Model: Model/Accessor.v (hand-written, tied by the correspondence of
   tools/props/C02.py); tables: Gen/Tables (regenerated from /repo on every run). *)
From Coq Require Import ZArith List Bool String.
Require Import GV.Lib.Bytes GV.Lib.Bits GV.Model.Accessor GV.Model.TableWf
               GV.Proofs.AccessorP GV.Proofs.TableP GV.Proofs.ShippedP GV.Gen.AllTables.
Import ListNotations.
Open Scope Z_scope.

(* General: any block, any field geometry (wf), any value the encoder accepts. The device
   write exists, applies, keeps the block length, and the item reads back the value
   (masked to its field when it is a bit field). *)
Theorem c02_write_then_read_raw : forall a blk v nv,
  wf a blk -> a_rw a = true -> encode_value a v = Some nv ->
  (a_bitpos a = None -> 0 <= nv < 2 ^ (8 * a_len a)) ->
  exists w blk', write a blk v = Some w /\ apply_write blk w = Some blk' /\
    List.length blk' = List.length blk /\
    raw_get a blk' = Some (match a_bitpos a, a_mask a with Some _, Some m => Z.land nv m | _, _ => nv end).
Proof. intros a blk v nv W. exact (write_then_read_raw a blk W v nv). Qed.

(* No bit outside the item's own field changes: bytes outside the item's bytes ... *)
Theorem c02_isolated_bytes : forall a blk v w blk' i,
  wf a blk -> write a blk v = Some w -> apply_write blk w = Some blk' ->
  (Z.of_nat i < a_pos a \/ a_pos a + a_len a <= Z.of_nat i) -> nth i blk' 0 = nth i blk 0.
Proof. intros a blk v w blk' i W. exact (write_isolated_bytes a blk W v w blk' i). Qed.

(* ... and, inside its bytes, every bit of the big-endian word outside [bitpos, bitpos+width). *)
Theorem c02_isolated_bits : forall a blk v w blk' bp wd j ex ex',
  wf a blk -> write a blk v = Some w -> apply_write blk w = Some blk' ->
  a_bitpos a = Some bp -> a_mask a = Some (Z.ones wd) ->
  be_decode (a_two a) (field a blk) = Some ex -> be_decode (a_two a) (field a blk') = Some ex' ->
  0 <= j -> (j < bp \/ bp + wd <= j) -> Z.testbit ex' j = Z.testbit ex j.
Proof. intros a blk v w blk' bp wd j ex ex' W. exact (write_isolated_bits a blk W v w blk' bp wd j ex ex'). Qed.

(* Decoded value round-trips per type. *)
Theorem c02_enum_roundtrip : forall a blk l,
  wf a blk -> a_type a = TEnum -> a_rw a = true -> In l (a_items a) ->
  (match a_bitpos a, a_mask a with
   | Some _, Some m => Z.of_nat (List.length (a_items a)) <= m + 1
   | _, _ => Z.of_nat (List.length (a_items a)) <= 2 ^ (8 * a_len a) end) ->
  exists w blk', write a blk (VStr l) = Some w /\ apply_write blk w = Some blk' /\ get_value a blk' = Some (VStr l).
Proof. exact enum_roundtrip. Qed.

Theorem c02_bool_roundtrip : forall a blk b,
  wf a blk -> a_type a = TBool -> a_rw a = true ->
  exists w blk', write a blk (VBool b) = Some w /\ apply_write blk w = Some blk' /\ get_value a blk' = Some (VBool b).
Proof. exact bool_roundtrip. Qed.

Theorem c02_int_roundtrip : forall a blk z,
  wf a blk -> (a_type a = TByte \/ a_type a = TWord) -> a_rw a = true -> a_bitpos a = None ->
  0 <= z < 2 ^ (8 * a_len a) ->
  exists w blk', write a blk (VInt z) = Some w /\ apply_write blk w = Some blk' /\ get_value a blk' = Some (VInt z).
Proof. exact int_roundtrip. Qed.

Theorem c02_time_roundtrip : forall a blk h m,
  wf a blk -> a_type a = TTime -> a_rw a = true -> a_bitpos a = None -> a_two a = true ->
  0 <= h < 256 -> 0 <= m < 256 ->
  exists w blk', write a blk (VTime h m) = Some w /\ apply_write blk w = Some blk' /\ get_value a blk' = Some (VTime h m).
Proof. exact time_roundtrip. Qed.

(* Items without write permission refuse writes. *)
Theorem c02_write_refused : forall a blk v, a_rw a = false -> write a blk v = None.
Proof. exact write_refused. Qed.

(* String forms of booleans / numbers produce the same device write. *)
Theorem c02_bool_string_same : forall a blk s b,
  a_type a = TBool -> String.eqb (lower s) "true" = b -> write a blk (VStr s) = write a blk (VBool b).
Proof. exact bool_string_same. Qed.
Theorem c02_int_string_same : forall a blk s z,
  (a_type a = TByte \/ a_type a = TWord) -> parse_dec s = Some z -> write a blk (VStr s) = write a blk (VInt z).
Proof. exact int_string_same. Qed.

(* Every shipped item (all regenerated modules; exceptions = TableWf.known_bad) satisfies the
   geometric hypotheses for every 1024-byte block, with the shape the REAL constructor derived
   equal to the model's derivation ... *)
Theorem c02_shipped_items_wf : forall m t blk,
  shipped m t -> good_block blk -> wf (acc_of (t_decl t)) blk /\ derive (t_decl t) = t_shape t.
Proof. intros m t blk Hs Hg. split; [eapply shipped_wf; eauto|].
  destruct (item_ok_facts t (shipped_item_ok m t Hs)); assumption. Qed.

(* ... hence, for every shipped writable enum item and every label, and every shipped writable bool: *)
Theorem c02_shipped_enum : forall m t blk l,
  shipped m t -> good_block blk -> d_type (t_decl t) = TEnum -> d_rw (t_decl t) = true ->
  In l (a_items (acc_of (t_decl t))) ->
  exists w blk', write (acc_of (t_decl t)) blk (VStr l) = Some w /\ apply_write blk w = Some blk' /\
                 get_value (acc_of (t_decl t)) blk' = Some (VStr l).
Proof. exact shipped_enum. Qed.
Theorem c02_shipped_bool : forall m t blk b,
  shipped m t -> good_block blk -> d_type (t_decl t) = TBool -> d_rw (t_decl t) = true ->
  exists w blk', write (acc_of (t_decl t)) blk (VBool b) = Some w /\ apply_write blk w = Some blk' /\
                 get_value (acc_of (t_decl t)) blk' = Some (VBool b).
Proof. exact shipped_bool. Qed.
Theorem c02_shipped_isolated_bytes : forall m t blk v w blk' i,
  shipped m t -> good_block blk ->
  write (acc_of (t_decl t)) blk v = Some w -> apply_write blk w = Some blk' ->
  (Z.of_nat i < d_pos (t_decl t) \/ d_pos (t_decl t) + s_len (t_shape t) <= Z.of_nat i) ->
  nth i blk' 0 = nth i blk 0.
Proof. exact shipped_isolated_bytes. Qed.

(* The full statement "every label of every shipped enum reads back" is FALSE for the known-bad
   items (K2): witness, 61 labels on a 1-bit field - label #2 is written as 0 and reads back label #0. *)
Definition k2_item : acc :=
  mkAcc TEnum 0 (Some 0) 1 false (Some 1) ["a"; "b"; "c"]%string true.
Theorem c02_enum_roundtrip_refuted_when_labels_exceed_field :
  exists a blk l, In l (a_items a) /\
    match write a blk (VStr l) with
    | Some w => match apply_write blk w with Some blk' => get_value a blk' <> Some (VStr l) | None => True end
    | None => True end.
Proof. exists k2_item, [0], "c"%string. split; [cbn; auto|]. vm_compute. discriminate. Qed.

(* non-vacuity: shipped two-byte bit-field items exist and meet the hypotheses *)
Definition two_byte_bitfield (m : tmodule) (t : titem) : bool :=
  negb (is_known_bad (m_file m) (d_tag (t_decl t))) &&
  (match d_bitpos (t_decl t) with Some _ => true | None => false end) && s_two (t_shape t).
Example c02_nonvacuous : exists m t, shipped m t /\ d_bitpos (t_decl t) <> None /\ s_two (t_shape t) = true.
Proof.
  assert (H : existsb (fun m => existsb (two_byte_bitfield m) (m_items m)) all_tables = true) by (vm_compute; reflexivity).
  apply existsb_exists in H. destruct H as [m [Hm H]]. apply existsb_exists in H. destruct H as [t [Ht H]].
  unfold two_byte_bitfield in H. apply andb_prop in H. destruct H as [H H3]. apply andb_prop in H. destruct H as [H1 H2].
  exists m, t. repeat split; auto.
  - now apply negb_true_iff in H1.
  - destruct (d_bitpos (t_decl t)); [discriminate|discriminate].
Qed.
