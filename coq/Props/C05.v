(* C05 - Partial updates are applied exactly once, in arrival order, and acknowledged.
   Model: Model/Partial.v (both long-lived handlers with their pending-change lists; datagrams decoded by
   the C04 codec; acknowledgement numbers from the AST-translated counters of C16). *)
From Coq Require Import ZArith List Bool.
Require Import GV.Lib.Bytes GV.Model.Wire GV.Model.Partial GV.Gen.Counter GV.Proofs.WireP GV.Proofs.CounterP GV.Proofs.PartialP.
Import ListNotations.
Open Scope Z_scope.

(* For ANY interleaving `us` of full refreshes and well-formed partial-update messages (any number of
   (position, word) records, any positions/values, repeated positions; or the simulator's single 1-byte
   change), delivered as datagrams `es` to the async (true) or threaded (false) client: the client's block is
   the left fold of the updates - each applied once, in arrival order, nothing replayed from an earlier
   message - and each partial message is answered by exactly one STATQ with a sequence number in 1..191. *)
Theorem c05_history_is_fold : forall async us es s,
  Forall wf_upd us -> Forall2 (fun u e => ev_of u = Some e) us es ->
  ctr_ok (p_ctr s) -> (async = false -> p_changes s = []) ->
  let '(s', ackss, blks) := Partial.run async s es in
  p_blk s' = fold_left apply_upd us (p_blk s) /\
  List.length ackss = List.length us /\
  Forall2 (fun u acks => match u with
                         | URefresh _ _ => acks = []
                         | UPartial _ => exists seq, acks = [V_STATQ ++ [seq]] /\ 1 <= seq <= 191 end) us ackss.
Proof. exact history_is_fold. Qed.

(* consecutive partial messages are acknowledged with consecutive protocol-range numbers (191 wraps to 1) *)
Theorem c05_acks_consecutive : forall async s u1 e1 u2 e2 cs1 cs2,
  u1 = UPartial cs1 -> u2 = UPartial cs2 -> wf_upd u1 -> wf_upd u2 -> ev_of u1 = Some e1 -> ev_of u2 = Some e2 ->
  ctr_ok (p_ctr s) -> (async = false -> p_changes s = []) ->
  let '(s1, a1) := Partial.step async s e1 in let '(s2, a2) := Partial.step async s1 e2 in
  exists q1 q2, a1 = [V_STATQ ++ [q1]] /\ a2 = [V_STATQ ++ [q2]] /\ q2 = (if q1 =? 191 then 1 else q1 + 1).
Proof. exact acks_consecutive. Qed.

(* the constructors' initial state meets the hypotheses *)
Theorem c05_initial_state_ok : ctr_ok async_init /\ ctr_ok sync_init.
Proof. split; exists 0, 0; repeat split; try reflexivity; apply Z.le_refl. Qed.

(* non-vacuity: two messages touching the same position, the second wins, nothing of the first is replayed *)
Example c05_nonvacuous :
  let us := [UPartial [(1, [7; 8])]; URefresh 0 [0; 0; 0; 0]; UPartial [(1, [9; 9]); (2, [5; 5])]] in
  match ev_of (nth 0 us (URefresh 0 [])), ev_of (nth 1 us (URefresh 0 [])), ev_of (nth 2 us (URefresh 0 [])) with
  | Some e0, Some e1, Some e2 =>
      p_blk (fst (fst (Partial.run false (mkP [1; 1; 1; 1] [] sync_init) [e0; e1; e2]))) = [0; 9; 5; 5]
  | _, _, _ => False end.
Proof. vm_compute. reflexivity. Qed.
