(* C11 - Every shipped pack table yields a facade whose read-only API is total.
   Model: Model/Facade.v - the items both facades read unconditionally while being constructed (combo_ready),
   tied to the real constructors on ALL 895 combinations by tools/props/C11.py; tables regenerated every run. *)
From Coq Require Import ZArith List Bool String.
Require Import GV.Lib.Bytes GV.Model.Accessor GV.Model.TableWf GV.Model.Inventory GV.Model.Facade
               GV.Proofs.FacadeP GV.Gen.InventoryTables GV.Gen.AllTables.
Import ListNotations.
Open Scope string_scope.

(* all 895 platform x config x log combinations of the shipped tables; each is ready for the facade, except
   exactly the 18 listed in FacadeP.known_bad_combos (K3) *)
Theorem c11_all_combinations_ready : List.length combos = 895%nat /\
  forall c, In c combos -> combo_ready devices_table (fst c) (snd c) = true \/ is_bad_combo c = true.
Proof. split; [exact combos_count|]. intros c H. pose proof combos_ready as A. rewrite forallb_forall in A.
  specialize (A c H). apply orb_prop in A. exact A. Qed.
(* the full statement (no exceptions) is false on the audited tree: the listed combinations are not ready *)
Theorem c11_every_combination_ready_refuted : exists c, In c combos /\ combo_ready devices_table (fst c) (snd c) = false.
Proof.
  assert (H : existsb (fun c => negb (combo_ready devices_table (fst c) (snd c))) combos = true) by (vm_compute; reflexivity).
  apply existsb_exists in H. destruct H as [c [Hc H]]. exists c. split; auto. now apply negb_true_iff in H. Qed.

(* on a ready combination, for ANY 1024-byte block, every item the facade reads (temperature items, outputs, error
   keys, user demands, state items of every exposable device, eco mode) exists and decodes without raising *)
Theorem c11_ready_reads_total : forall cfg log k blk,
  combo_ready devices_table cfg log = true -> In k (read_keys devices_table cfg log) ->
  List.length blk = 1024%nat -> bytes_ok blk = true ->
  exists t v, lookup_item cfg log k = Some t /\ get_value (acc_of (t_decl t)) blk = Some v.
Proof. exact ready_reads_total. Qed.
(* stored values outside a label list read as "Unknown" *)
Theorem c11_enum_out_of_range_unknown : forall a raw,
  a_type a = TEnum -> (Z.of_nat (List.length (a_items a)) <= raw)%Z -> decode a raw = VStr "Unknown".
Proof. exact enum_out_of_range_unknown. Qed.
(* any watercare mode a spa can report (any integer, or none yet) renders without raising *)
Theorem c11_watercare_str_total : forall m, watercare_str m <> None.
Proof. exact watercare_str_total. Qed.
(* any reminder list: the active reminders all have a proper description *)
Theorem c11_reminders_total : forall rs, Forall (fun r => (0 <= fst r <= 6)%Z) rs ->
  Forall (fun r => (1 <= fst r <= 6)%Z /\ reminder_desc (fst r) <> "Unhandled" /\ reminder_desc (fst r) <> "Invalid") (active_reminders rs).
Proof. exact active_reminders_valid. Qed.
