(* C19 - Snapshot capture/replay round-trip and loadability of shipped snapshots.
   Model: Model/Snapshot.v (writer: do_snapshot / version_strings text; parser: the regex table as extraction
   functions over byte strings).  Shipped snapshots: Gen/Snapshots.v, regenerated through the REAL parser. *)
From Coq Require Import ZArith List Bool String.
Require Import GV.Lib.Bytes GV.Lib.Digits GV.Model.Wire GV.Model.Snapshot GV.Model.Transfer
               GV.Proofs.SnapshotP GV.Proofs.ShippedSnapP GV.Gen.Snapshots.
Import ListNotations.
Open Scope Z_scope.

(* The block dump parses back to exactly the same bytes: ANY non-empty byte list, any log prefix without '['. *)
Theorem c19_block_roundtrip : forall prefix blk,
  blk <> [] -> Forall (fun b => 0 <= b < 256) blk -> Forall (fun c => c <> 91) prefix ->
  parse_data_line (prefix ++ render_block blk) = Some blk.
Proof. exact data_line_roundtrip. Qed.

(* Firmware version lines (EN and CO), config and log version lines: any naturals below 10^24. *)
Theorem c19_firmware_roundtrip : forall lit a b c, 0 <= a < 10 ^ 24 -> 0 <= b < 10 ^ 24 -> 0 <= c < 10 ^ 24 ->
  parse_ver3 lit (render_ver3 lit a b c) = Some (a, b, c).
Proof. exact ver3_roundtrip. Qed.
Theorem c19_version_number_roundtrip : forall lit n, 0 <= n < 10 ^ 24 -> parse_num lit (lit ++ dec_text n) = Some n.
Proof. exact num_roundtrip. Qed.

(* A raw traffic log reassembles to the transferred block: ANY segmentation into STATV datagrams whose last
   segment (and, by the caller's hypothesis on well-formed chains, only it) carries next = 0. *)
Theorem c19_traffic_log_reassembles : forall segs es,
  Forall2 (fun s e => encode (Statv (fst (fst s)) (snd (fst s)) (snd s)) = Some e) segs es ->
  segs <> [] -> snd (fst (last segs (0, 0, []))) = 0 ->
  Forall (fun s => snd (fst s) <> 0) (removelast segs) ->
  reassemble es = List.concat (map snd segs).
Proof. intros segs es H2 Hne Hl _. unfold reassemble. exact (reassemble_chain segs es [] [] H2 Hne Hl). Qed.

(* Every shipped snapshot (as the real parser reads it) has a 1024-byte block of bytes and names modules that exist ... *)
Theorem c19_shipped_loadable : forall s, In s shipped_snapshots -> snap_ok s = true.
Proof. intros s H. pose proof shipped_ok as A. rewrite forallb_forall in A. auto. Qed.
(* ... and a client fetching the whole block from the simulator on a fault-free network receives it unchanged
   with a single request (C01's theorems instantiated). *)
Theorem c19_served_unchanged : forall b b0, List.length b = 1024%nat -> List.length b0 = 1024%nat ->
  let r := run 0 (init 10 b0) (map Seg (sim_chain b 0 1024)) in
  st r = Installed /\ blk r = b /\ sends r = 1%nat.
Proof. exact served_unchanged. Qed.

Example c19_nonvacuous :
  parse_data_line ([73; 78; 70; 79; 32] ++ render_block [4; 0; 255; 16]) = Some [4; 0; 255; 16] /\
  render_block [4; 255] = [91; 39; 48; 120; 52; 39; 44; 32; 39; 48; 120; 102; 102; 39; 93] /\
  Nat.ltb 0 (List.length shipped_snapshots) = true.
Proof. vm_compute. repeat split; reflexivity. Qed.
