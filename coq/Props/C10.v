(* C10 - Reset or exit at any point leaks no endpoint / task and has no late effects.
   Ledger LTS: Model/Ledger.v over the lifecycle LTS; the clean-up facts (who closes the transport, who cancels which task
   group, what __aexit__ does) are re-read from the ASTs on every run (Gen/LedgerFacts.v).  UserReset, SetSpaInfo and Exit
   are labels like any other, so they hit EVERY reachable state: idle, mid-discovery, each handshake step, steady state,
   every error state - the reachable set of (lifecycle state, ledger) pairs is computed and proved closed, so the
   statements hold after ANY label list, i.e. any number of consecutive reconnect cycles. *)
From Coq Require Import List Bool Arith.
Require Import GV.Gen.LifecycleRules GV.Model.Lifecycle GV.Proofs.LifecycleP GV.Model.Ledger GV.Proofs.LedgerP.
Require GV.Model.LifecycleI GV.Proofs.LifecycleIP.
Import ListNotations.

(* every open endpoint and every live task group belongs to the discovery in progress, the manager's current spa object or its
   current facade - nothing is left for an abandoned connection; once the context has been left nothing is open or alive *)
Theorem c10_every_resource_is_accounted_for : forall c ls y, runL (entered c, r0) ls = Some y -> accounted y = true.
Proof. exact ledger_accounted. Qed.

(* repeated reconnect cycles: at most two endpoints and three task groups, whatever the history *)
Theorem c10_resources_bounded : forall c ls y, runL (entered c, r0) ls = Some y -> bounded y = true.
Proof. exact ledger_bounded. Qed.

(* a reset at ANY reachable point - idle, mid-discovery, each handshake step, steady state, every error state - leaves no spa,
   no facade, no connection endpoint and no SPA / FACADE task group; a discovery in progress keeps its own endpoint *)
Theorem c10_reset_releases_the_connection : forall c ls x, runL (entered c, r0) ls = Some x -> reset_releases x = true.
Proof. exact reset_releases_everywhere. Qed.

(* leaving the context at ANY reachable point leaves no endpoint open and no task alive *)
Theorem c10_exit_releases_everything : forall c ls x, runL (entered c, r0) ls = Some x -> exit_releases x = true.
Proof. exact exit_releases_everywhere. Qed.

(* events of a connection reach the client only while that connection is the manager's current spa: the LTS offers no Ext label
   without a spa object (the harness checks the real stack for late events of an abandoned connection) *)
Theorem c10_no_event_without_connection : forall s e, spa s = false -> stepS s (Ext e) = None.
Proof. exact no_ext_without_spa. Qed.

(* late datagrams / timers of an abandoned connection: whatever event is raised on its behalf (a handshake step reported by the
   orphaned connect coroutine, its exhausted retries, a ping answer ...) in whatever reachable state, neither the lifecycle
   state nor the ledger changes and nothing is delivered - because a disconnected spa stays silent (AST fact
   spa_silent_after_disconnect); without that fact the event goes through the switch and this theorem fails *)
Theorem c10_late_events_are_inert : forall c ls x, runL (entered c, r0) ls = Some x -> late_inert x = true.
Proof. exact late_events_inert. Qed.

(* ---------- resets injected at the await points INSIDE another handler (Model/LifecycleI.v: the pump, one task of the connection
   and one user task inside the manager at once, the client's handler suspended at every delivery) ---------- *)
(* as long as a task that was started is resumed to its end before anything else happens - i.e. on the big-step LTS above - no spa
   object is ever dropped without being disconnected: for every reachable state and every label *)
Theorem c10_sequential_never_drops_a_spa :
  forallb (fun s => forallb (fun l => match LifecycleIP.to_completion (LifecycleIP.embed s) l with Some (i, _) => negb (LifecycleI.v_leak i) | None => true end)
                            (Ext SPA_MAN_ENTER :: all_labels)) reach = true.
Proof. exact LifecycleIP.big_step_never_drops_a_spa. Qed.
(* under every schedule: whenever nothing is inside the manager and no object has been dropped, the endpoint of the connection is open
   exactly when the manager references a spa *)
Theorem c10_interleaved_ledger_accounted : forall c ls s, LifecycleIP.irun (LifecycleI.ientered c) ls = Some s -> LifecycleIP.ii_ledger s = true.
Proof. intros c ls s R. exact (LifecycleIP.iinv_all LifecycleIP.ii_ledger LifecycleIP.all_ii_ledger c ls s R). Qed.
(* but 'every endpoint of the abandoned connection is closed' is FALSE when a reset lands inside another handler (finding K11): two
   machine-checked schedules after which a spa object with an open endpoint has been dropped (self._spa cleared / overwritten) without
   disconnect() ever being called on it - each minimal: one step earlier nothing has been dropped *)
Theorem c10_every_endpoint_closed_refuted_under_interleaving :
  option_map LifecycleI.v_leak (LifecycleIP.irun (LifecycleI.ientered true) LifecycleIP.w_k11_stale_reset) = Some true /\
  option_map LifecycleI.v_leak (LifecycleIP.irun (LifecycleI.ientered true) (removelast LifecycleIP.w_k11_stale_reset)) = Some false /\
  option_map LifecycleI.v_leak (LifecycleIP.irun (LifecycleI.ientered true) LifecycleIP.w_k11_overwrite) = Some true /\
  option_map LifecycleI.v_leak (LifecycleIP.irun (LifecycleI.ientered true) (removelast LifecycleIP.w_k11_overwrite)) = Some false.
Proof. exact LifecycleIP.k11_witnesses. Qed.

(* the FACADE tasks under every schedule: no facade whose tasks are alive is ever dropped (self._facade cleared or overwritten) without
   disconnect() - in particular not when a reset is suspended in its RUNNING_SPA_DISCONNECTED handler while the connection completes and the
   pump creates the facade (K13, repaired: the extracted fact reset_disconnects_facade_last; without it this theorem fails) - and the tasks
   of a facade are alive only while the manager references it *)
Theorem c10_interleaved_no_facade_dropped_alive :
  forall c ls s, LifecycleIP.irun (LifecycleI.ientered c) ls = Some s ->
    LifecycleI.v_fleak s = false /\ (LifecycleI.fac_live s = true -> fac (LifecycleI.gs s) = true).
Proof. exact LifecycleIP.no_facade_dropped_alive. Qed.
(* non-vacuity: the K13 schedule is a schedule of the machine; before its last step the manager is CONNECTED with a live facade that was
   created after the reset began, after it the manager is IDLE, nothing is alive and nothing was dropped *)
Example c10_k13_schedule :
  option_map (fun s => (LifecycleI.fac_live s, LifecycleI.v_fleak s, fac (LifecycleI.gs s), sstate_eqb (st (LifecycleI.gs s)) IDLE))
             (LifecycleIP.irun (LifecycleI.ientered true) LifecycleIP.w_k13) = Some (false, false, false, true) /\
  option_map (fun s => (LifecycleI.fac_live s, fac (LifecycleI.gs s), sstate_eqb (st (LifecycleI.gs s)) CONNECTED))
             (LifecycleIP.irun (LifecycleI.ientered true) (removelast LifecycleIP.w_k13)) = Some (true, true, true).
Proof. exact LifecycleIP.k13_schedule_runs_and_is_clean. Qed.

Example c10_nonvacuous :
  existsb (fun x => match ppc (fst x) with PConn 2 => true | _ => false end) reachL = true /\
  existsb (fun x => in_loc (fst x) && Nat.eqb (eps (snd x)) 1) reachL = true /\
  existsb (fun x => exited (snd x)) reachL = true /\ Nat.ltb 200 (List.length reachL) = true.
Proof. vm_compute. repeat split; reflexivity. Qed.
