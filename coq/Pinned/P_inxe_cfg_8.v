(* GENERATED from /repo (geckolib/driver/packs/inxe-cfg-8.py) by tools/gen_tables.py - do not edit *)
From Coq Require Import ZArith List String Bool.
Require Import GV.Model.Accessor GV.Model.TableWf GV.Pinned.PLabels.
Import ListNotations.
Open Scope string_scope. Open Scope Z_scope.
Definition items : list titem := [
  mkT (mkDecl "ConfigNumber" TByte 0 None None None None true false) (mkShape 1 false None);
  mkT (mkDecl "OutHtRCur" TByte 27 None None None None true false) (mkShape 1 false None);
  mkT (mkDecl "DirectCur" TByte 26 None None None None true false) (mkShape 1 false None);
  mkT (mkDecl "PumpTimeOut" TByte 31 None None None None true false) (mkShape 1 false None);
  mkT (mkDecl "LightTimeOut" TByte 32 None None None None true false) (mkShape 1 false None);
  mkT (mkDecl "FiltInterface" TEnum 17 None (Some lbl_60) None None true false) (mkShape 1 false None);
  mkT (mkDecl "OTActSetpointG" TWord 33 None None None None true true) (mkShape 2 true None);
  mkT (mkDecl "OTTriggerG" TByte 35 None None None None true false) (mkShape 1 false None);
  mkT (mkDecl "CPOTMaxOnTime" TWord 36 None None None None true false) (mkShape 2 true None);
  mkT (mkDecl "CPOTMaxOffTime" TWord 38 None None None None true false) (mkShape 2 true None);
  mkT (mkDecl "FiltOTDuration24H" TWord 40 None None None None true false) (mkShape 2 true None);
  mkT (mkDecl "FiltSuspendTime" TByte 42 None None None None true false) (mkShape 1 false None);
  mkT (mkDecl "O3Pump" TEnum 14 None (Some lbl_11) None None true false) (mkShape 1 false None);
  mkT (mkDecl "O3Type" TEnum 15 None (Some lbl_12) None None true false) (mkShape 1 false None);
  mkT (mkDecl "O3SuspendTime" TByte 43 None None None None true false) (mkShape 1 false None);
  mkT (mkDecl "SetpointG" TWord 1 None None None None true true) (mkShape 2 true None);
  mkT (mkDecl "HeaterPump" TEnum 16 None (Some lbl_11) None None true false) (mkShape 1 false None);
  mkT (mkDecl "TempUnits" TEnum 18 None (Some lbl_13) None None true false) (mkShape 1 false None);
  mkT (mkDecl "MinSetpointG" TWord 46 None None None None true true) (mkShape 2 true None);
  mkT (mkDecl "MaxSetpointG" TWord 48 None None None None true true) (mkShape 2 true None);
  mkT (mkDecl "EconType" TEnum 50 None (Some lbl_14) None None true false) (mkShape 1 false None);
  mkT (mkDecl "NbPhases" TByte 29 None None None None true false) (mkShape 1 false None);
  mkT (mkDecl "InputCurrent" TByte 30 None None None None true false) (mkShape 1 false None);
  mkT (mkDecl "FiltFreq" TByte 4 None None None None true false) (mkShape 1 false None);
  mkT (mkDecl "FiltStart" TTime 5 None None None None true false) (mkShape 2 true None);
  mkT (mkDecl "FiltDur" TTime 3 None None None None true false) (mkShape 2 true None);
  mkT (mkDecl "EconStart" TTime 7 None None None None true false) (mkShape 2 true None);
  mkT (mkDecl "EconDur" TTime 8 None None None None true false) (mkShape 2 true None);
  mkT (mkDecl "EconProgAvailable" TEnum 51 None (Some lbl_61) None None true false) (mkShape 1 false None);
  mkT (mkDecl "SoakOnCustomKey" TBool 52 (Some 0) None None None true false) (mkShape 1 false (Some 1));
  mkT (mkDecl "OffOnCustomKey" TBool 52 (Some 1) None None None true false) (mkShape 1 false (Some 1));
  mkT (mkDecl "EconControlableManually" TBool 52 (Some 2) None None None true false) (mkShape 1 false (Some 1));
  mkT (mkDecl "TimeFormat" TEnum 19 None (Some lbl_22) None None true false) (mkShape 1 false None);
  mkT (mkDecl "AmbiantOHTrigADC" TWord 44 None None None None true false) (mkShape 2 true None)
].
Definition table : tmodule := mkM "inxe-cfg-8" KCfg 8 "" 0 "" 0 0 [] [] [] [] items.
