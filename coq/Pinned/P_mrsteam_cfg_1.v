(* GENERATED from /repo (geckolib/driver/packs/mrsteam-cfg-1.py) by tools/gen_tables.py - do not edit *)
From Coq Require Import ZArith List String Bool.
Require Import GV.Model.Accessor GV.Model.TableWf GV.Pinned.PLabels.
Import ListNotations.
Open Scope string_scope. Open Scope Z_scope.
Definition items : list titem := [
  mkT (mkDecl "Prog1Setpoint" TByte 0 None None None None true false) (mkShape 1 false None);
  mkT (mkDecl "Prog1Runtime" TWord 1 None None None None true false) (mkShape 2 true None);
  mkT (mkDecl "Prog1Aroma" TEnum 3 None (Some lbl_38) None None true false) (mkShape 1 false None);
  mkT (mkDecl "Prog2Setpoint" TByte 4 None None None None true false) (mkShape 1 false None);
  mkT (mkDecl "Prog2Runtime" TWord 5 None None None None true false) (mkShape 2 true None);
  mkT (mkDecl "Prog2Aroma" TEnum 7 None (Some lbl_38) None None true false) (mkShape 1 false None);
  mkT (mkDecl "TempUnits" TEnum 8 None (Some lbl_13) None None true false) (mkShape 1 false None)
].
Definition table : tmodule := mkM "mrsteam-cfg-1" KCfg 1 "" 0 "" 0 0 [] [] [] [] items.
