(* GENERATED from /repo (geckolib/driver/packs/mas-ibc-32k-log-1.py) by tools/gen_tables.py - do not edit *)
From Coq Require Import ZArith List String Bool.
Require Import GV.Model.Accessor GV.Model.TableWf GV.Pinned.PLabels.
Import ListNotations.
Open Scope string_scope. Open Scope Z_scope.
Definition items : list titem := [
  mkT (mkDecl "UserBlowerIntensity" TByte 256 None None None None true false) (mkShape 1 false None);
  mkT (mkDecl "UserChroma" TEnum 257 None (Some lbl_165) None None true false) (mkShape 1 false None);
  mkT (mkDecl "UserBathTime" TByte 258 None None None None true false) (mkShape 1 false None);
  mkT (mkDecl "UserHeater1" TEnum 259 None (Some lbl_166) None None true false) (mkShape 1 false None);
  mkT (mkDecl "UserHeater2" TEnum 260 None (Some lbl_166) None None true false) (mkShape 1 false None);
  mkT (mkDecl "UserGeysair" TEnum 261 None (Some lbl_38) None None false false) (mkShape 1 false None);
  mkT (mkDecl "UserDryingCycle" TEnum 262 (Some 0) (Some lbl_167) None (Some 2) true false) (mkShape 1 false (Some 1));
  mkT (mkDecl "UserDryingHour" TByte 263 None None None None true false) (mkShape 1 false None);
  mkT (mkDecl "UserDryingMinute" TByte 264 None None None None true false) (mkShape 1 false None);
  mkT (mkDecl "UserDryingSecond" TByte 265 None None None None true false) (mkShape 1 false None);
  mkT (mkDecl "UserDryingDelay" TEnum 266 (Some 0) (Some lbl_168) None (Some 63) true false) (mkShape 1 false (Some 15));
  mkT (mkDecl "KeypadID" TWord 267 None None None None false false) (mkShape 2 true None);
  mkT (mkDecl "KeypadRev" TWord 269 None None None None false false) (mkShape 2 true None);
  mkT (mkDecl "BlowerState" TEnum 271 None (Some lbl_169) None None false false) (mkShape 1 false None);
  mkT (mkDecl "PurgeStart" TEnum 262 (Some 1) (Some lbl_164) None None false false) (mkShape 1 false (Some 1));
  mkT (mkDecl "PurgeDelayTimer" TEnum 262 (Some 2) (Some lbl_170) None None false false) (mkShape 1 false (Some 1));
  mkT (mkDecl "PurgeStandby" TEnum 266 (Some 6) (Some lbl_171) None None false false) (mkShape 1 false (Some 1));
  mkT (mkDecl "PowerState" TEnum 283 None (Some lbl_38) None None false false) (mkShape 1 false None);
  mkT (mkDecl "KeypadLock" TEnum 284 None (Some lbl_38) None None false false) (mkShape 1 false None);
  mkT (mkDecl "BootID" TWord 272 None None None None false false) (mkShape 2 true None);
  mkT (mkDecl "BootRev" TWord 274 None None None None false false) (mkShape 2 true None);
  mkT (mkDecl "PackCoreID" TWord 276 None None None None false false) (mkShape 2 true None);
  mkT (mkDecl "PackCoreRev" TWord 278 None None None None false false) (mkShape 2 true None);
  mkT (mkDecl "PackCoreRel" TByte 280 None None None None false false) (mkShape 1 false None);
  mkT (mkDecl "PackType" TEnum 281 None (Some lbl_47) None None false false) (mkShape 1 false None);
  mkT (mkDecl "PackMemRange" TEnum 282 (Some 0) (Some lbl_48) None (Some 4) false false) (mkShape 1 false (Some 3))
].
Definition table : tmodule := mkM "mas-ibc-32k-log-1" KLog 1 "" 0 "" 256 285 [] ["KeypadID"; "KeypadRev"; "BlowerState"; "PurgeStart"; "PurgeDelayTimer"; "PurgeStandby"; "PowerState"; "KeypadLock"; "LI"] [] [] items.
