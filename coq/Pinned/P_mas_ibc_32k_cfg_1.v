(* GENERATED from /repo (geckolib/driver/packs/mas-ibc-32k-cfg-1.py) by tools/gen_tables.py - do not edit *)
From Coq Require Import ZArith List String Bool.
Require Import GV.Model.Accessor GV.Model.TableWf GV.Pinned.PLabels.
Import ListNotations.
Open Scope string_scope. Open Scope Z_scope.
Definition items : list titem := [
  mkT (mkDecl "LL_Backrest" TEnum 0 None (Some lbl_158) None None false false) (mkShape 1 false None);
  mkT (mkDecl "LL_Heater_1" TEnum 1 None (Some lbl_159) None None false false) (mkShape 1 false None);
  mkT (mkDecl "LL_Heater_2" TEnum 2 None (Some lbl_159) None None false false) (mkShape 1 false None);
  mkT (mkDecl "LL_Blower" TEnum 3 None (Some lbl_160) None None false false) (mkShape 1 false None);
  mkT (mkDecl "LL_Chromo" TEnum 4 None (Some lbl_161) None None false false) (mkShape 1 false None);
  mkT (mkDecl "LL_Audio" TEnum 5 None (Some lbl_162) None None false false) (mkShape 1 false None);
  mkT (mkDecl "LL_Menu" TEnum 6 None (Some lbl_163) None None false false) (mkShape 1 false None);
  mkT (mkDecl "LL_ComfortJet" TEnum 7 None (Some lbl_164) None None false false) (mkShape 1 false None);
  mkT (mkDecl "LL_Aromacloud" TEnum 8 None (Some lbl_164) None None false false) (mkShape 1 false None)
].
Definition table : tmodule := mkM "mas-ibc-32k-cfg-1" KCfg 1 "" 0 "" 0 0 [] [] [] [] items.
