(* GENERATED from /repo (geckolib/driver/packs/mrsteam-log-1.py) by tools/gen_tables.py - do not edit *)
From Coq Require Import ZArith List String Bool.
Require Import GV.Model.Accessor GV.Model.TableWf GV.Pinned.PLabels.
Import ListNotations.
Open Scope string_scope. Open Scope Z_scope.
Definition items : list titem := [
  mkT (mkDecl "Mode" TEnum 257 (Some 0) (Some lbl_38) None (Some 2) true false) (mkShape 1 false (Some 1));
  mkT (mkDecl "Pause" TBool 257 (Some 1) None None None true false) (mkShape 1 false (Some 1));
  mkT (mkDecl "Diagnostic" TBool 257 (Some 2) None None None true false) (mkShape 1 false (Some 1));
  mkT (mkDecl "ChromaState" TEnum 257 (Some 3) (Some lbl_38) None (Some 2) true false) (mkShape 1 false (Some 1));
  mkT (mkDecl "SelectedProg" TEnum 261 None (Some lbl_173) None None true false) (mkShape 1 false None);
  mkT (mkDecl "UserSetpoint" TByte 262 None None None None true false) (mkShape 1 false None);
  mkT (mkDecl "UserRuntime" TWord 263 None None None None true false) (mkShape 2 true None);
  mkT (mkDecl "UserAroma" TEnum 265 None (Some lbl_38) None None true false) (mkShape 1 false None);
  mkT (mkDecl "Hours" TByte 256 None None None None false false) (mkShape 1 false None);
  mkT (mkDecl "ExternalProbe" TBool 258 (Some 0) None None None false false) (mkShape 1 false (Some 1));
  mkT (mkDecl "WaterDetected" TBool 2658 (Some 1) None None None false false) (mkShape 1 false (Some 1));
  mkT (mkDecl "NoKeypad" TBool 258 (Some 2) None None None false false) (mkShape 1 false (Some 1));
  mkT (mkDecl "NoRegulation" TBool 258 (Some 3) None None None false false) (mkShape 1 false (Some 1));
  mkT (mkDecl "ExpressCycle" TBool 258 (Some 5) None None None false false) (mkShape 1 false (Some 1));
  mkT (mkDecl "SlaveMode" TEnum 259 (Some 1) (Some lbl_38) None (Some 2) false false) (mkShape 1 false (Some 1));
  mkT (mkDecl "SlaveHeaterState" TEnum 259 (Some 3) (Some lbl_38) None (Some 2) false false) (mkShape 1 false (Some 1));
  mkT (mkDecl "PowerFailErr" TBool 260 (Some 0) None None None false false) (mkShape 1 false (Some 1));
  mkT (mkDecl "Prr2Err" TBool 260 (Some 1) None None None false false) (mkShape 1 false (Some 1));
  mkT (mkDecl "Prr1Err" TBool 260 (Some 2) None None None false false) (mkShape 1 false (Some 1));
  mkT (mkDecl "H2O2Err" TBool 260 (Some 3) None None None false false) (mkShape 1 false (Some 1));
  mkT (mkDecl "SlaveH2O2Err" TBool 260 (Some 4) None None None false false) (mkShape 1 false (Some 1));
  mkT (mkDecl "KeyStuckErr" TBool 260 (Some 5) None None None false false) (mkShape 1 false (Some 1));
  mkT (mkDecl "Jumper9" TBool 266 (Some 0) None None None false false) (mkShape 1 false (Some 1));
  mkT (mkDecl "Jumper2" TBool 266 (Some 1) None None None false false) (mkShape 1 false (Some 1));
  mkT (mkDecl "Jumper3" TBool 266 (Some 2) None None None false false) (mkShape 1 false (Some 1));
  mkT (mkDecl "Jumper4" TBool 266 (Some 3) None None None false false) (mkShape 1 false (Some 1));
  mkT (mkDecl "Jumper5" TBool 266 (Some 4) None None None false false) (mkShape 1 false (Some 1));
  mkT (mkDecl "Jumper6" TBool 266 (Some 5) None None None false false) (mkShape 1 false (Some 1));
  mkT (mkDecl "Jumper7" TBool 266 (Some 6) None None None false false) (mkShape 1 false (Some 1));
  mkT (mkDecl "Jumper8" TBool 266 (Some 7) None None None false false) (mkShape 1 false (Some 1));
  mkT (mkDecl "MaxRuntime" TWord 267 None None None None false false) (mkShape 2 true None);
  mkT (mkDecl "PackBootID" TWord 269 None None None None false false) (mkShape 2 true None);
  mkT (mkDecl "PackBootRev" TByte 271 None None None None false false) (mkShape 1 false None);
  mkT (mkDecl "PackBootRel" TByte 272 None None None None false false) (mkShape 1 false None);
  mkT (mkDecl "PackType" TEnum 273 None (Some lbl_174) None None false false) (mkShape 1 false None);
  mkT (mkDecl "PackMemRange" TEnum 274 (Some 0) (Some lbl_48) None (Some 4) false false) (mkShape 1 false (Some 3));
  mkT (mkDecl "PackCoreID" TWord 275 None None None None false false) (mkShape 2 true None);
  mkT (mkDecl "PackCoreRev" TByte 277 None None None None false false) (mkShape 1 false None);
  mkT (mkDecl "PackCoreRel" TByte 278 None None None None false false) (mkShape 1 false None);
  mkT (mkDecl "PackConfigLib" TByte 279 None None None None false false) (mkShape 1 false None);
  mkT (mkDecl "PackStatusLib" TByte 280 None None None None false false) (mkShape 1 false None)
].
Definition table : tmodule := mkM "mrsteam-log-1" KLog 1 "" 0 "" 256 280 [] ["LI"] [] ["PowerFailErr"; "Prr2Err"; "SlaveH2O2Err"; "KeyStuckErr"; "Prr1Err"; "H2O2Err"] items.
