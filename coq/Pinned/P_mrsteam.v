(* GENERATED from /repo (geckolib/driver/packs/mrsteam.py) by tools/gen_tables.py - do not edit *)
From Coq Require Import ZArith List String Bool.
Require Import GV.Model.Accessor GV.Model.TableWf GV.Pinned.PLabels.
Import ListNotations.
Open Scope string_scope. Open Scope Z_scope.
Definition items : list titem := [

].
Definition table : tmodule := mkM "mrsteam" KPack 0 "MrSteam" 13 "39.0" 0 0 [] [] [] [] items.
