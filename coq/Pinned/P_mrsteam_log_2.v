(* GENERATED from /repo (geckolib/driver/packs/mrsteam-log-2.py) by tools/gen_tables.py - do not edit *)
From Coq Require Import ZArith List String Bool.
Require Import GV.Model.Accessor GV.Model.TableWf GV.Pinned.PLabels.
Import ListNotations.
Open Scope string_scope. Open Scope Z_scope.
Definition items : list titem := [
  mkT (mkDecl "UserMode" TEnum 256 None (Some lbl_175) None None true false) (mkShape 1 false None);
  mkT (mkDecl "UserPause" TBool 257 (Some 1) None None None true false) (mkShape 1 false (Some 1));
  mkT (mkDecl "UserAroma" TEnum 258 None (Some lbl_38) None None true false) (mkShape 1 false None);
  mkT (mkDecl "UserChroma" TEnum 259 None (Some lbl_38) None None true false) (mkShape 1 false None);
  mkT (mkDecl "UserSetpointG" TWord 264 None None None None true true) (mkShape 2 true None);
  mkT (mkDecl "UserRuntime" TWord 261 None None None None true false) (mkShape 2 true None);
  mkT (mkDecl "UserProg" TEnum 263 None (Some lbl_173) None None true false) (mkShape 1 false None);
  mkT (mkDecl "Hours" TByte 268 None None None None false false) (mkShape 1 false None);
  mkT (mkDecl "ModeState" TEnum 269 (Some 0) (Some lbl_38) None (Some 2) false false) (mkShape 1 false (Some 1));
  mkT (mkDecl "PauseState" TBool 269 (Some 1) None None None false false) (mkShape 1 false (Some 1));
  mkT (mkDecl "DiagnosticState" TEnum 269 (Some 2) (Some lbl_38) None (Some 2) false false) (mkShape 1 false (Some 1));
  mkT (mkDecl "ExternalProbe" TBool 269 (Some 3) None None None false false) (mkShape 1 false (Some 1));
  mkT (mkDecl "WaterDetected" TBool 269 (Some 4) None None None false false) (mkShape 1 false (Some 1));
  mkT (mkDecl "NoRegulation" TBool 269 (Some 5) None None None false false) (mkShape 1 false (Some 1));
  mkT (mkDecl "MasterSlave" TEnum 269 (Some 6) (Some lbl_176) None (Some 2) false false) (mkShape 1 false (Some 1));
  mkT (mkDecl "KeypadProbe" TBool 270 (Some 0) None None None false false) (mkShape 1 false (Some 1));
  mkT (mkDecl "ExpressCycle" TBool 270 (Some 1) None None None false false) (mkShape 1 false (Some 1));
  mkT (mkDecl "SlaveOnState" TBool 271 (Some 1) None None None false false) (mkShape 1 false (Some 1));
  mkT (mkDecl "SlaveHeaterState" TEnum 271 (Some 3) (Some lbl_38) None (Some 2) false false) (mkShape 1 false (Some 1));
  mkT (mkDecl "PowerFailErr" TBool 272 (Some 0) None None None false false) (mkShape 1 false (Some 1));
  mkT (mkDecl "Prr2Err" TBool 272 (Some 1) None None None false false) (mkShape 1 false (Some 1));
  mkT (mkDecl "Prr1Err" TBool 272 (Some 2) None None None false false) (mkShape 1 false (Some 1));
  mkT (mkDecl "H2O2Err" TBool 272 (Some 3) None None None false false) (mkShape 1 false (Some 1));
  mkT (mkDecl "SlaveH2O2Err" TBool 272 (Some 4) None None None false false) (mkShape 1 false (Some 1));
  mkT (mkDecl "KeyStuckErr" TBool 272 (Some 5) None None None false false) (mkShape 1 false (Some 1));
  mkT (mkDecl "FlashErr" TBool 272 (Some 6) None None None false false) (mkShape 1 false (Some 1));
  mkT (mkDecl "Prr3Err" TBool 272 (Some 7) None None None false false) (mkShape 1 false (Some 1));
  mkT (mkDecl "Prr4Err" TBool 273 (Some 0) None None None false false) (mkShape 1 false (Some 1));
  mkT (mkDecl "Jumper9" TBool 274 (Some 0) None None None false false) (mkShape 1 false (Some 1));
  mkT (mkDecl "Jumper2" TBool 274 (Some 1) None None None false false) (mkShape 1 false (Some 1));
  mkT (mkDecl "Jumper3" TBool 274 (Some 2) None None None false false) (mkShape 1 false (Some 1));
  mkT (mkDecl "Jumper4" TBool 274 (Some 3) None None None false false) (mkShape 1 false (Some 1));
  mkT (mkDecl "Jumper5" TBool 274 (Some 4) None None None false false) (mkShape 1 false (Some 1));
  mkT (mkDecl "Jumper6" TBool 274 (Some 5) None None None false false) (mkShape 1 false (Some 1));
  mkT (mkDecl "Jumper7" TBool 274 (Some 6) None None None false false) (mkShape 1 false (Some 1));
  mkT (mkDecl "Jumper8" TBool 274 (Some 7) None None None false false) (mkShape 1 false (Some 1));
  mkT (mkDecl "MaxRuntime" TWord 275 None None None None false false) (mkShape 2 true None);
  mkT (mkDecl "KeypadType" TEnum 277 None (Some lbl_177) None None false false) (mkShape 1 false None);
  mkT (mkDecl "KeypadID" TWord 298 None None None None false false) (mkShape 2 true None);
  mkT (mkDecl "KeypadRev" TByte 300 None None None None false false) (mkShape 1 false None);
  mkT (mkDecl "KeypadRel" TByte 301 None None None None false false) (mkShape 1 false None);
  mkT (mkDecl "RoomTempG" TWord 278 None None None None false true) (mkShape 2 true None);
  mkT (mkDecl "K1000TempG" TWord 296 None None None None true true) (mkShape 2 true None);
  mkT (mkDecl "RemainingRuntime" TWord 293 None None None None false false) (mkShape 2 true None);
  mkT (mkDecl "DrainValveOutput" TBool 295 (Some 0) None None None false false) (mkShape 1 false (Some 1));
  mkT (mkDecl "AromaOutput" TBool 295 (Some 1) None None None false false) (mkShape 1 false (Some 1));
  mkT (mkDecl "HeaterOutput" TBool 295 (Some 2) None None None false false) (mkShape 1 false (Some 1));
  mkT (mkDecl "WaterValveOutput" TBool 295 (Some 3) None None None false false) (mkShape 1 false (Some 1));
  mkT (mkDecl "ChromaOutput" TBool 295 (Some 4) None None None false false) (mkShape 1 false (Some 1));
  mkT (mkDecl "PackBootID" TWord 281 None None None None false false) (mkShape 2 true None);
  mkT (mkDecl "PackBootRev" TByte 283 None None None None false false) (mkShape 1 false None);
  mkT (mkDecl "PackBootRel" TByte 284 None None None None false false) (mkShape 1 false None);
  mkT (mkDecl "PackType" TEnum 285 None (Some lbl_174) None None false false) (mkShape 1 false None);
  mkT (mkDecl "PackMemRange" TEnum 286 (Some 0) (Some lbl_48) None (Some 4) false false) (mkShape 1 false (Some 3));
  mkT (mkDecl "PackCoreID" TWord 287 None None None None false false) (mkShape 2 true None);
  mkT (mkDecl "PackCoreRev" TByte 289 None None None None false false) (mkShape 1 false None);
  mkT (mkDecl "PackCoreRel" TByte 290 None None None None false false) (mkShape 1 false None);
  mkT (mkDecl "PackConfigLib" TByte 291 None None None None false false) (mkShape 1 false None);
  mkT (mkDecl "PackStatusLib" TByte 292 None None None None false false) (mkShape 1 false None)
].
Definition table : tmodule := mkM "mrsteam-log-2" KLog 2 "" 0 "" 256 301 [] ["LI"] [] ["PowerFailErr"; "Prr2Err"; "SlaveH2O2Err"; "KeyStuckErr"; "Prr3Err"; "Prr1Err"; "Prr4Err"; "H2O2Err"; "FlashErr"] items.
