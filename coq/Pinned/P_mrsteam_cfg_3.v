(* GENERATED from /repo (geckolib/driver/packs/mrsteam-cfg-3.py) by tools/gen_tables.py - do not edit *)
From Coq Require Import ZArith List String Bool.
Require Import GV.Model.Accessor GV.Model.TableWf GV.Pinned.PLabels.
Import ListNotations.
Open Scope string_scope. Open Scope Z_scope.
Definition items : list titem := [
  mkT (mkDecl "Prog1SetpointG" TWord 0 None None None None true true) (mkShape 2 true None);
  mkT (mkDecl "Prog1Runtime" TWord 2 None None None None true false) (mkShape 2 true None);
  mkT (mkDecl "Prog1Aroma" TEnum 4 None (Some lbl_38) None None true false) (mkShape 1 false None);
  mkT (mkDecl "Prog2SetpointG" TWord 5 None None None None true true) (mkShape 2 true None);
  mkT (mkDecl "Prog2Runtime" TWord 7 None None None None true false) (mkShape 2 true None);
  mkT (mkDecl "Prog2Aroma" TEnum 9 None (Some lbl_38) None None true false) (mkShape 1 false None);
  mkT (mkDecl "TempUnits" TEnum 10 None (Some lbl_13) None None true false) (mkShape 1 false None);
  mkT (mkDecl "MinSetpointG" TWord 11 None None None None true true) (mkShape 2 true None);
  mkT (mkDecl "MaxSetpointG" TWord 13 None None None None true true) (mkShape 2 true None);
  mkT (mkDecl "ValveOut1Type" TEnum 15 None (Some lbl_172) None None true false) (mkShape 1 false None);
  mkT (mkDecl "ValveOut2Type" TEnum 16 None (Some lbl_172) None None true false) (mkShape 1 false None);
  mkT (mkDecl "ValveOut3Type" TEnum 17 None (Some lbl_172) None None true false) (mkShape 1 false None)
].
Definition table : tmodule := mkM "mrsteam-cfg-3" KCfg 3 "" 0 "" 0 0 [] [] [] [] items.
