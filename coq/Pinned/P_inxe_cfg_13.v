(* GENERATED from /repo (geckolib/driver/packs/inxe-cfg-13.py) by tools/gen_tables.py - do not edit *)
From Coq Require Import ZArith List String Bool.
Require Import GV.Model.Accessor GV.Model.TableWf GV.Pinned.PLabels.
Import ListNotations.
Open Scope string_scope. Open Scope Z_scope.
Definition items : list titem := [
  mkT (mkDecl "ConfigNumber" TByte 0 None None None None true false) (mkShape 1 false None);
  mkT (mkDecl "Out1" TEnum 9 None (Some lbl_59) None None true false) (mkShape 1 false None);
  mkT (mkDecl "Out2" TEnum 10 None (Some lbl_59) None None true false) (mkShape 1 false None);
  mkT (mkDecl "Out3" TEnum 11 None (Some lbl_59) None None true false) (mkShape 1 false None);
  mkT (mkDecl "Out4" TEnum 12 None (Some lbl_59) None None true false) (mkShape 1 false None);
  mkT (mkDecl "Out5" TEnum 13 None (Some lbl_59) None None true false) (mkShape 1 false None);
  mkT (mkDecl "OutHtr" TEnum 14 None (Some lbl_1) None None true false) (mkShape 1 false None);
  mkT (mkDecl "Out1Cur" TByte 25 None None None None true false) (mkShape 1 false None);
  mkT (mkDecl "Out2Cur" TByte 26 None None None None true false) (mkShape 1 false None);
  mkT (mkDecl "Out3Cur" TByte 27 None None None None true false) (mkShape 1 false None);
  mkT (mkDecl "Out4Cur" TByte 28 None None None None true false) (mkShape 1 false None);
  mkT (mkDecl "Out5Cur" TByte 29 None None None None true false) (mkShape 1 false None);
  mkT (mkDecl "OutHtRCur" TByte 30 None None None None true false) (mkShape 1 false None);
  mkT (mkDecl "Direct" TEnum 15 None (Some lbl_2) None None true false) (mkShape 1 false None);
  mkT (mkDecl "DirectCur" TByte 31 None None None None true false) (mkShape 1 false None);
  mkT (mkDecl "PumpTimeOut" TByte 35 None None None None true false) (mkShape 1 false None);
  mkT (mkDecl "LightTimeOut" TByte 36 None None None None true false) (mkShape 1 false None);
  mkT (mkDecl "L120TimeOut" TByte 37 None None None None true false) (mkShape 1 false None);
  mkT (mkDecl "FiltInterface" TEnum 21 None (Some lbl_60) None None true false) (mkShape 1 false None);
  mkT (mkDecl "CPAlwaysON" TBool 16 (Some 0) None None None true false) (mkShape 1 false (Some 1));
  mkT (mkDecl "OTActSetpointG" TWord 38 None None None None true true) (mkShape 2 true None);
  mkT (mkDecl "OTTriggerG" TByte 40 None None None None true false) (mkShape 1 false None);
  mkT (mkDecl "CPOTMaxOnTime" TWord 41 None None None None true false) (mkShape 2 true None);
  mkT (mkDecl "CPOTMaxOffTime" TWord 43 None None None None true false) (mkShape 2 true None);
  mkT (mkDecl "FiltOTDuration24H" TWord 45 None None None None true false) (mkShape 2 true None);
  mkT (mkDecl "FiltSuspendTime" TByte 47 None None None None true false) (mkShape 1 false None);
  mkT (mkDecl "DrainMode" TEnum 63 None (Some lbl_9) None None true false) (mkShape 1 false None);
  mkT (mkDecl "O3Usage" TEnum 17 None (Some lbl_10) None None true false) (mkShape 1 false None);
  mkT (mkDecl "O3Pump" TEnum 18 None (Some lbl_11) None None true false) (mkShape 1 false None);
  mkT (mkDecl "O3Type" TEnum 19 None (Some lbl_12) None None true false) (mkShape 1 false None);
  mkT (mkDecl "O3SuspendTime" TByte 48 None None None None true false) (mkShape 1 false None);
  mkT (mkDecl "SetpointG" TWord 1 None None None None true true) (mkShape 2 true None);
  mkT (mkDecl "HeaterPump" TEnum 20 None (Some lbl_11) None None true false) (mkShape 1 false None);
  mkT (mkDecl "TempUnits" TEnum 22 None (Some lbl_13) None None true false) (mkShape 1 false None);
  mkT (mkDecl "CooldownTime" TByte 24 None None None None true false) (mkShape 1 false None);
  mkT (mkDecl "MinSetpointG" TWord 51 None None None None true true) (mkShape 2 true None);
  mkT (mkDecl "MaxSetpointG" TWord 53 None None None None true true) (mkShape 2 true None);
  mkT (mkDecl "EconType" TEnum 55 None (Some lbl_14) None None true false) (mkShape 1 false None);
  mkT (mkDecl "NoHeatPeriod" TByte 62 None None None None true false) (mkShape 1 false None);
  mkT (mkDecl "NbPhases" TByte 33 None None None None true false) (mkShape 1 false None);
  mkT (mkDecl "InputCurrent" TByte 34 None None None None true false) (mkShape 1 false None);
  mkT (mkDecl "InputMenu" TEnum 59 None (Some lbl_16) None None true false) (mkShape 1 false None);
  mkT (mkDecl "FiltFreq" TByte 4 None None None None true false) (mkShape 1 false None);
  mkT (mkDecl "FiltStart" TTime 5 None None None None true false) (mkShape 2 true None);
  mkT (mkDecl "FiltDur" TTime 3 None None None None true false) (mkShape 2 true None);
  mkT (mkDecl "EconStart" TTime 7 None None None None true false) (mkShape 2 true None);
  mkT (mkDecl "EconDur" TTime 8 None None None None true false) (mkShape 2 true None);
  mkT (mkDecl "EconProgAvailable" TEnum 56 None (Some lbl_61) None None true false) (mkShape 1 false None);
  mkT (mkDecl "SoakOnCustomKey" TBool 57 (Some 0) None None None true false) (mkShape 1 false (Some 1));
  mkT (mkDecl "OffOnCustomKey" TBool 57 (Some 1) None None None true false) (mkShape 1 false (Some 1));
  mkT (mkDecl "EconControlableManually" TBool 57 (Some 2) None None None true false) (mkShape 1 false (Some 1));
  mkT (mkDecl "MasterSlave" TEnum 58 None (Some lbl_62) None None true false) (mkShape 1 false None);
  mkT (mkDecl "SlaveConfig" TByte 60 None None None None true false) (mkShape 1 false None);
  mkT (mkDecl "MultiKeyOption" TEnum 61 None (Some lbl_20) None None true false) (mkShape 1 false None);
  mkT (mkDecl "TimeFormat" TEnum 23 None (Some lbl_22) None None true false) (mkShape 1 false None);
  mkT (mkDecl "AmbiantOHTrigADC" TWord 49 None None None None true false) (mkShape 2 true None)
].
Definition table : tmodule := mkM "inxe-cfg-13" KCfg 13 "" 0 "" 0 0 ["Out1"; "Out2"; "Out3"; "Out4"; "Out5"; "OutHtr"; "Direct"] [] [] [] items.
