(* GENERATED from /repo (geckolib/driver/packs/inxe-cfg-11.py) by tools/gen_tables.py - do not edit *)
From Coq Require Import ZArith List String Bool.
Require Import GV.Model.Accessor GV.Model.TableWf GV.Pinned.PLabels.
Import ListNotations.
Open Scope string_scope. Open Scope Z_scope.
Definition items : list titem := [
  mkT (mkDecl "ConfigNumber" TByte 0 None None None None true false) (mkShape 1 false None);
  mkT (mkDecl "Out1" TEnum 9 None (Some lbl_59) None None true false) (mkShape 1 false None);
  mkT (mkDecl "Out2" TEnum 10 None (Some lbl_59) None None true false) (mkShape 1 false None);
  mkT (mkDecl "Out3" TEnum 11 None (Some lbl_59) None None true false) (mkShape 1 false None);
  mkT (mkDecl "Out4" TEnum 12 None (Some lbl_59) None None true false) (mkShape 1 false None);
  mkT (mkDecl "Out5" TEnum 13 None (Some lbl_59) None None true false) (mkShape 1 false None);
  mkT (mkDecl "OutHtr" TEnum 14 None (Some lbl_1) None None true false) (mkShape 1 false None);
  mkT (mkDecl "Out1Cur" TByte 24 None None None None true false) (mkShape 1 false None);
  mkT (mkDecl "Out2Cur" TByte 25 None None None None true false) (mkShape 1 false None);
  mkT (mkDecl "Out3Cur" TByte 26 None None None None true false) (mkShape 1 false None);
  mkT (mkDecl "Out4Cur" TByte 27 None None None None true false) (mkShape 1 false None);
  mkT (mkDecl "Out5Cur" TByte 28 None None None None true false) (mkShape 1 false None);
  mkT (mkDecl "OutHtRCur" TByte 29 None None None None true false) (mkShape 1 false None);
  mkT (mkDecl "DirectCur" TByte 30 None None None None true false) (mkShape 1 false None);
  mkT (mkDecl "PumpTimeOut" TByte 34 None None None None true false) (mkShape 1 false None);
  mkT (mkDecl "LightTimeOut" TByte 35 None None None None true false) (mkShape 1 false None);
  mkT (mkDecl "L120TimeOut" TByte 36 None None None None true false) (mkShape 1 false None);
  mkT (mkDecl "FiltInterface" TEnum 20 None (Some lbl_60) None None true false) (mkShape 1 false None);
  mkT (mkDecl "CPAlwaysON" TBool 15 (Some 0) None None None true false) (mkShape 1 false (Some 1));
  mkT (mkDecl "OTActSetpointG" TWord 37 None None None None true true) (mkShape 2 true None);
  mkT (mkDecl "OTTriggerG" TByte 39 None None None None true false) (mkShape 1 false None);
  mkT (mkDecl "CPOTMaxOnTime" TWord 40 None None None None true false) (mkShape 2 true None);
  mkT (mkDecl "CPOTMaxOffTime" TWord 42 None None None None true false) (mkShape 2 true None);
  mkT (mkDecl "FiltOTDuration24H" TWord 44 None None None None true false) (mkShape 2 true None);
  mkT (mkDecl "FiltSuspendTime" TByte 46 None None None None true false) (mkShape 1 false None);
  mkT (mkDecl "O3Usage" TEnum 16 None (Some lbl_10) None None true false) (mkShape 1 false None);
  mkT (mkDecl "O3Pump" TEnum 17 None (Some lbl_11) None None true false) (mkShape 1 false None);
  mkT (mkDecl "O3Type" TEnum 18 None (Some lbl_12) None None true false) (mkShape 1 false None);
  mkT (mkDecl "O3SuspendTime" TByte 47 None None None None true false) (mkShape 1 false None);
  mkT (mkDecl "SetpointG" TWord 1 None None None None true true) (mkShape 2 true None);
  mkT (mkDecl "HeaterPump" TEnum 19 None (Some lbl_11) None None true false) (mkShape 1 false None);
  mkT (mkDecl "TempUnits" TEnum 21 None (Some lbl_13) None None true false) (mkShape 1 false None);
  mkT (mkDecl "CooldownTime" TByte 23 None None None None true false) (mkShape 1 false None);
  mkT (mkDecl "MinSetpointG" TWord 50 None None None None true true) (mkShape 2 true None);
  mkT (mkDecl "MaxSetpointG" TWord 52 None None None None true true) (mkShape 2 true None);
  mkT (mkDecl "EconType" TEnum 54 None (Some lbl_14) None None true false) (mkShape 1 false None);
  mkT (mkDecl "NoHeatPeriod" TByte 61 None None None None true false) (mkShape 1 false None);
  mkT (mkDecl "NbPhases" TByte 32 None None None None true false) (mkShape 1 false None);
  mkT (mkDecl "InputCurrent" TByte 33 None None None None true false) (mkShape 1 false None);
  mkT (mkDecl "InputMenu" TEnum 58 None (Some lbl_16) None None true false) (mkShape 1 false None);
  mkT (mkDecl "FiltFreq" TByte 4 None None None None true false) (mkShape 1 false None);
  mkT (mkDecl "FiltStart" TTime 5 None None None None true false) (mkShape 2 true None);
  mkT (mkDecl "FiltDur" TTime 3 None None None None true false) (mkShape 2 true None);
  mkT (mkDecl "EconStart" TTime 7 None None None None true false) (mkShape 2 true None);
  mkT (mkDecl "EconDur" TTime 8 None None None None true false) (mkShape 2 true None);
  mkT (mkDecl "EconProgAvailable" TEnum 55 None (Some lbl_61) None None true false) (mkShape 1 false None);
  mkT (mkDecl "SoakOnCustomKey" TBool 56 (Some 0) None None None true false) (mkShape 1 false (Some 1));
  mkT (mkDecl "OffOnCustomKey" TBool 56 (Some 1) None None None true false) (mkShape 1 false (Some 1));
  mkT (mkDecl "EconControlableManually" TBool 56 (Some 2) None None None true false) (mkShape 1 false (Some 1));
  mkT (mkDecl "MasterSlave" TEnum 57 None (Some lbl_62) None None true false) (mkShape 1 false None);
  mkT (mkDecl "SlaveConfig" TByte 59 None None None None true false) (mkShape 1 false None);
  mkT (mkDecl "MultiKeyOption" TEnum 60 None (Some lbl_20) None None true false) (mkShape 1 false None);
  mkT (mkDecl "TimeFormat" TEnum 22 None (Some lbl_22) None None true false) (mkShape 1 false None);
  mkT (mkDecl "AmbiantOHTrigADC" TWord 48 None None None None true false) (mkShape 2 true None)
].
Definition table : tmodule := mkM "inxe-cfg-11" KCfg 11 "" 0 "" 0 0 ["Out1"; "Out2"; "Out3"; "Out4"; "Out5"; "OutHtr"] [] [] [] items.
