(* GENERATED from /repo (geckolib/driver/packs/inyj-cfg-58.py) by tools/gen_tables.py - do not edit *)
From Coq Require Import ZArith List String Bool.
Require Import GV.Model.Accessor GV.Model.TableWf GV.Pinned.PLabels.
Import ListNotations.
Open Scope string_scope. Open Scope Z_scope.
Definition items : list titem := [
  mkT (mkDecl "ConfigNumber" TByte 0 None None None None true false) (mkShape 1 false None);
  mkT (mkDecl "Out1" TEnum 12 None (Some lbl_142) None None true false) (mkShape 1 false None);
  mkT (mkDecl "Out2" TEnum 13 None (Some lbl_142) None None true false) (mkShape 1 false None);
  mkT (mkDecl "Out3" TEnum 14 None (Some lbl_142) None None true false) (mkShape 1 false None);
  mkT (mkDecl "OutHtr" TEnum 16 None (Some lbl_140) None None true false) (mkShape 1 false None);
  mkT (mkDecl "Out1Cur" TByte 36 None None None None true false) (mkShape 1 false None);
  mkT (mkDecl "Out2Cur" TByte 37 None None None None true false) (mkShape 1 false None);
  mkT (mkDecl "Out3Cur" TByte 38 None None None None true false) (mkShape 1 false None);
  mkT (mkDecl "OutHtRCur" TByte 40 None None None None true false) (mkShape 1 false None);
  mkT (mkDecl "Direct" TEnum 15 None (Some lbl_2) None None true false) (mkShape 1 false None);
  mkT (mkDecl "DirectCur" TByte 39 None None None None true false) (mkShape 1 false None);
  mkT (mkDecl "OutLi" TEnum 79 None (Some lbl_3) None None false false) (mkShape 1 false None);
  mkT (mkDecl "LightInts" TByte 80 None None None None false false) (mkShape 1 false None);
  mkT (mkDecl "PumpTimeOut" TByte 54 None None None None true false) (mkShape 1 false None);
  mkT (mkDecl "LightTimeOut" TByte 55 None None None None true false) (mkShape 1 false None);
  mkT (mkDecl "L120TimeOut" TByte 56 None None None None true false) (mkShape 1 false None);
  mkT (mkDecl "L120Timer" TEnum 81 (Some 0) (Some lbl_4) None (Some 2) true false) (mkShape 1 false (Some 1));
  mkT (mkDecl "AuxTimeOut" TByte 48 None None None None true false) (mkShape 1 false None);
  mkT (mkDecl "FiltInterface" TEnum 32 None (Some lbl_5) None None true false) (mkShape 1 false None);
  mkT (mkDecl "CpUsage" TEnum 27 None (Some lbl_6) None None true false) (mkShape 1 false None);
  mkT (mkDecl "OtOption" TEnum 57 None (Some lbl_7) None None true false) (mkShape 1 false None);
  mkT (mkDecl "PurgeSpeed" TEnum 81 (Some 2) (Some lbl_8) None (Some 2) true false) (mkShape 1 false (Some 1));
  mkT (mkDecl "OTTriggerG" TByte 58 None None None None true false) (mkShape 1 false None);
  mkT (mkDecl "CpOnTimeDuringOT" TByte 59 None None None None true false) (mkShape 1 false None);
  mkT (mkDecl "CpOffTimeDuringOT" TByte 60 None None None None true false) (mkShape 1 false None);
  mkT (mkDecl "FiltOnTimeDuringOT" TByte 61 None None None None true false) (mkShape 1 false None);
  mkT (mkDecl "FiltSuspendTime" TByte 62 None None None None true false) (mkShape 1 false None);
  mkT (mkDecl "DrainMode" TEnum 78 None (Some lbl_9) None None true false) (mkShape 1 false None);
  mkT (mkDecl "O3Usage" TEnum 28 None (Some lbl_10) None None true false) (mkShape 1 false None);
  mkT (mkDecl "O3Pump" TEnum 29 None (Some lbl_11) None None true false) (mkShape 1 false None);
  mkT (mkDecl "O3Type" TEnum 30 None (Some lbl_12) None None true false) (mkShape 1 false None);
  mkT (mkDecl "O3SuspendTime" TByte 63 None None None None true false) (mkShape 1 false None);
  mkT (mkDecl "SetpointG" TWord 1 None None None None true true) (mkShape 2 true None);
  mkT (mkDecl "TempUnits" TEnum 33 None (Some lbl_13) None None true false) (mkShape 1 false None);
  mkT (mkDecl "HeaterPump" TEnum 31 None (Some lbl_11) None None true false) (mkShape 1 false None);
  mkT (mkDecl "FlowDetector" TEnum 25 None (Some lbl_115) None None true false) (mkShape 1 false None);
  mkT (mkDecl "ProbeLocation" TEnum 81 (Some 3) (Some lbl_32) None (Some 2) true false) (mkShape 1 false (Some 1));
  mkT (mkDecl "CooldownTime" TByte 35 None None None None true false) (mkShape 1 false None);
  mkT (mkDecl "MinSetpointG" TWord 66 None None None None true true) (mkShape 2 true None);
  mkT (mkDecl "MaxSetpointG" TWord 68 None None None None true true) (mkShape 2 true None);
  mkT (mkDecl "EconType" TEnum 70 None (Some lbl_14) None None true false) (mkShape 1 false None);
  mkT (mkDecl "NoHeatPeriod" TByte 77 None None None None true false) (mkShape 1 false None);
  mkT (mkDecl "MaxNumberOfPhases" TByte 26 None None None None true false) (mkShape 1 false None);
  mkT (mkDecl "UL_CE" TEnum 51 None (Some lbl_15) None None true false) (mkShape 1 false None);
  mkT (mkDecl "NbPhases" TByte 52 None None None None true false) (mkShape 1 false None);
  mkT (mkDecl "InputCurrent" TByte 53 None None None None true false) (mkShape 1 false None);
  mkT (mkDecl "InputMenu" TEnum 74 None (Some lbl_16) None None true false) (mkShape 1 false None);
  mkT (mkDecl "Out1Fuse" TEnum 83 None (Some lbl_17) None None true false) (mkShape 1 false None);
  mkT (mkDecl "Out2Fuse" TEnum 84 None (Some lbl_17) None None true false) (mkShape 1 false None);
  mkT (mkDecl "Out3Fuse" TEnum 85 None (Some lbl_17) None None true false) (mkShape 1 false None);
  mkT (mkDecl "Direct1Fuse" TEnum 86 None (Some lbl_17) None None true false) (mkShape 1 false None);
  mkT (mkDecl "OutHtrFuse" TEnum 87 None (Some lbl_17) None None true false) (mkShape 1 false None);
  mkT (mkDecl "F1Current" TByte 98 None None None None true false) (mkShape 1 false None);
  mkT (mkDecl "F2Current" TByte 99 None None None None true false) (mkShape 1 false None);
  mkT (mkDecl "F3Current" TByte 100 None None None None true false) (mkShape 1 false None);
  mkT (mkDecl "F1Line" TEnum 104 None (Some lbl_18) None None true false) (mkShape 1 false None);
  mkT (mkDecl "F2Line" TEnum 105 None (Some lbl_18) None None true false) (mkShape 1 false None);
  mkT (mkDecl "F3Line" TEnum 106 None (Some lbl_18) None None true false) (mkShape 1 false None);
  mkT (mkDecl "FiltFreq" TByte 3 None None None None true false) (mkShape 1 false None);
  mkT (mkDecl "FiltStart" TTime 4 None None None None true false) (mkShape 2 true None);
  mkT (mkDecl "FiltDur" TTime 6 None None None None true false) (mkShape 2 true None);
  mkT (mkDecl "FiltDur2" TTime 23 None None None None true false) (mkShape 2 true None);
  mkT (mkDecl "EconStart" TTime 8 None None None None true false) (mkShape 2 true None);
  mkT (mkDecl "EconDur" TTime 10 None None None None true false) (mkShape 2 true None);
  mkT (mkDecl "EconProgAvailable" TEnum 71 None (Some lbl_19) None None true false) (mkShape 1 false None);
  mkT (mkDecl "UDProgEcon" TBool 82 (Some 0) None None None true false) (mkShape 1 false (Some 1));
  mkT (mkDecl "EconControlableManually" TBool 72 (Some 2) None None None true false) (mkShape 1 false (Some 1));
  mkT (mkDecl "SoakOnCustomKey" TBool 72 (Some 0) None None None true false) (mkShape 1 false (Some 1));
  mkT (mkDecl "OffOnCustomKey" TBool 72 (Some 1) None None None true false) (mkShape 1 false (Some 1));
  mkT (mkDecl "CleanupOnCustomKey" TBool 72 (Some 3) None None None true false) (mkShape 1 false (Some 1));
  mkT (mkDecl "MultiKeyOption" TEnum 76 None (Some lbl_20) None None true false) (mkShape 1 false None);
  mkT (mkDecl "MasterSlave" TEnum 73 None (Some lbl_21) None None true false) (mkShape 1 false None);
  mkT (mkDecl "SlaveConfig" TByte 75 None None None None true false) (mkShape 1 false None);
  mkT (mkDecl "TimeFormat" TEnum 34 None (Some lbl_22) None None true false) (mkShape 1 false None);
  mkT (mkDecl "AmbiantOHTrigADC" TWord 64 None None None None true false) (mkShape 2 true None);
  mkT (mkDecl "Pump1UserAccess" TEnum 81 (Some 1) (Some lbl_23) None (Some 2) true false) (mkShape 1 false (Some 1));
  mkT (mkDecl "SelfCleanMsg" TBool 81 (Some 4) None None None true false) (mkShape 1 false (Some 1));
  mkT (mkDecl "BlowerKeyOption" TEnum 81 (Some 5) (Some lbl_24) None (Some 2) true false) (mkShape 1 false (Some 1));
  mkT (mkDecl "HeaterSoftStart" TBool 81 (Some 6) None None None true false) (mkShape 1 false (Some 1));
  mkT (mkDecl "HeaterSoftStop" TBool 81 (Some 7) None None None true false) (mkShape 1 false (Some 1));
  mkT (mkDecl "KeypadTherapySupport" TBool 43 (Some 0) None None None true false) (mkShape 1 false (Some 1));
  mkT (mkDecl "CustomKeyEnabled" TBool 43 (Some 1) None None None true false) (mkShape 1 false (Some 1));
  mkT (mkDecl "ConfigChange" TEnum 43 (Some 2) (Some lbl_25) None (Some 2) true false) (mkShape 1 false (Some 1));
  mkT (mkDecl "BreakerChange" TEnum 43 (Some 3) (Some lbl_25) None (Some 2) true false) (mkShape 1 false (Some 1));
  mkT (mkDecl "KeypadBacklightColor" TEnum 43 (Some 4) (Some lbl_26) None (Some 8) true false) (mkShape 1 false (Some 7));
  mkT (mkDecl "KeypadBacklightEdit" TEnum 43 (Some 7) (Some lbl_27) None (Some 2) true false) (mkShape 1 false (Some 1));
  mkT (mkDecl "QuickOffKeyEnable" TBool 45 (Some 0) None None None true false) (mkShape 1 false (Some 1));
  mkT (mkDecl "InfoMsgConfig" TEnum 45 (Some 2) (Some lbl_28) None (Some 4) true false) (mkShape 1 false (Some 3));
  mkT (mkDecl "KeypadOptions4" TByte 46 None None None None true false) (mkShape 1 false None);
  mkT (mkDecl "DealerLockSupport" TBool 47 (Some 0) None None None true false) (mkShape 1 false (Some 1))
].
Definition table : tmodule := mkM "inyj-cfg-58" KCfg 58 "" 0 "" 0 0 ["Out1"; "Out2"; "Out3"; "OutHtr"; "Direct"; "OutLi"] [] [] [] items.
