(* C19: every shipped snapshot is loadable and is served to a client unchanged. *)
From Coq Require Import ZArith List Bool String Lia.
Require Import GV.Lib.Bytes GV.Lib.Dec GV.Model.Accessor GV.Model.TableWf GV.Model.Transfer GV.Proofs.TransferP
               GV.Gen.AllTables GV.Gen.Snapshots.
Import ListNotations.
Open Scope Z_scope.

Definition has_module (f : string) : bool := existsb (fun m => String.eqb (m_file m) f) all_tables.
Definition snap_ok (s : string * string * Z * Z * list Z) : bool :=
  let '(file, pack, cfg, log, b) := s in
  Nat.eqb (List.length b) 1024 && bytes_ok b && has_module pack &&
  has_module (pack ++ "-cfg-" ++ dec_of_Z cfg)%string && has_module (pack ++ "-log-" ++ dec_of_Z log)%string.
Lemma shipped_ok : forallb snap_ok shipped_snapshots = true.
Proof. vm_compute. reflexivity. Qed.

Lemma splice_whole (b0 b : list Z) : List.length b0 = List.length b -> splice b0 0 b = b.
Proof. intros H. unfold splice. cbn [firstn app Nat.add]. rewrite <- H, skipn_all. apply app_nil_r. Qed.

Theorem served_unchanged b b0 : List.length b = 1024%nat -> List.length b0 = 1024%nat ->
  let r := run 0 (init 10 b0) (map Seg (sim_chain b 0 1024)) in
  st r = Installed /\ blk r = b /\ sends r = 1%nat.
Proof.
  intros Hb Hb0 r.
  pose proof (fault_free_succeeds (sim_chain b 0 1024) b0 0 10 (sim_chain_wf b 0 1024 ltac:(lia)) ltac:(lia)) as [A [B C]].
  fold r in A, B, C. repeat split; auto. rewrite B.
  rewrite (sim_chain_concat b 0 1024 ltac:(lia) ltac:(lia)).
  replace (Z.to_nat (Z.min (SEG * seg_count 1024) (Z.of_nat (List.length b) - 0))) with 1024%nat
    by (rewrite Hb; vm_compute; reflexivity).
  unfold slice. cbn [Z.to_nat skipn]. rewrite <- Hb, firstn_all. apply splice_whole. lia.
Qed.
