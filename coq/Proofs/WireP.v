(* C04: encode/decode round trips, verb exclusivity, framing. *)
From Coq Require Import ZArith List Bool Lia.
Require Import GV.Lib.Bytes GV.Model.Wire.
Import ListNotations.
Open Scope Z_scope.

Lemma u8_some v l : u8 v = Some l -> l = [v] /\ 0 <= v < 256.
Proof. unfold u8. destruct ((0 <=? v) && (v <? 256)) eqn:E; [|discriminate]. intros H; inversion H.
  apply andb_prop in E. destruct E as [A B]. apply Z.leb_le in A. apply Z.ltb_lt in B. auto. Qed.
Lemma u16_some v l : u16 v = Some l -> l = [v / 256; v mod 256] /\ 0 <= v < 65536 /\ (v / 256) * 256 + v mod 256 = v.
Proof. unfold u16. destruct ((0 <=? v) && (v <? 65536)) eqn:E; [|discriminate]. intros H; inversion H.
  apply andb_prop in E. destruct E as [A B]. apply Z.leb_le in A. apply Z.ltb_lt in B.
  pose proof (Z.div_mod v 256 ltac:(lia)). repeat split; auto; lia. Qed.

Lemma ocat_cons x r l : ocat (x :: r) = Some l -> exists a b, x = Some a /\ ocat r = Some b /\ l = a ++ b.
Proof. cbn. destruct x as [a|]; [|discriminate]. destruct (ocat r) as [b|]; [|discriminate]. intros H; inversion H. eauto. Qed.

Ltac ocat_inv H :=
  repeat match type of H with
  | ocat (_ :: _) = Some _ =>
      let a := fresh "a" in let b := fresh "b" in let Ha := fresh "Ha" in let Hb := fresh "Hb" in let El := fresh "El" in
      destruct (ocat_cons _ _ _ H) as [a [b [Ha [Hb El]]]]; clear H; rename Hb into H; subst
  | ocat [] = Some _ => cbn in H; inversion H; clear H; subst
  end.
Ltac fields :=
  repeat match goal with
  | H : Some _ = Some _ |- _ => inversion H; clear H; subst
  | H : u8 _ = Some _ |- _ => apply u8_some in H; destruct H as [? ?]; subst
  | H : u16 _ = Some _ |- _ => apply u16_some in H; destruct H as [? [? ?]]; subst
  end.

(* the canonical form a message decodes to (MrSt is reported as MrSteam) *)
Definition canon (m : msg) : msg :=
  match m with Files p c l => Files (if bytes_eqb p T_MRST then T_MRSTEAM else p) c l | _ => m end.

(* --- fixed-size kinds --- *)
Definition simple (m : msg) : Prop :=
  match m with
  | Files _ _ _ | Statv _ _ _ | Statp _ | Rmreq _ | Setwc _ _ | Wcreq | SpackSet _ _ _ _ _ _ _ => False
  | _ => True end.

Lemma roundtrip_simple m b : simple m -> encode m = Some b -> decode b = Some m.
Proof.
  destruct m; cbn [simple]; intros S H; try contradiction; cbn [encode] in H;
    try (inversion H; subst; reflexivity);
    ocat_inv H; fields; cbn; try reflexivity; f_equal; f_equal; lia.
Qed.

Lemma roundtrip_spackset s p c l pos len v b :
  encode (SpackSet s p c l pos len v) = Some b -> decode b = Some (SpackSet s p c l pos len v).
Proof.
  cbn [encode]. unfold obind. destruct (len =? 1) eqn:E1.
  - apply Z.eqb_eq in E1. subst. destruct (u8 v) as [d|] eqn:Ed; [|discriminate]. intros H. ocat_inv H. fields.
    cbn. f_equal. f_equal; lia.
  - destruct (len =? 2) eqn:E2; [|discriminate]. apply Z.eqb_eq in E2. subst.
    destruct (u16 v) as [d|] eqn:Ed; [|discriminate]. intros H. ocat_inv H. fields.
    cbn. f_equal. f_equal; lia.
Qed.

Lemma roundtrip_statv i n d b : encode (Statv i n d) = Some b -> decode b = Some (Statv i n d).
Proof. cbn [encode]. intros H. ocat_inv H. fields. cbn. rewrite Nat2Z.id, app_nil_r, firstn_all. reflexivity. Qed.

(* --- STATP: every change carries the protocol's 2-byte word --- *)
Definition enc_change_body (c : Z * list Z) : list Z := [fst c / 256; fst c mod 256] ++ snd c.

Lemma skipn_app_exact {A} (a b : list A) n : n = List.length a -> skipn n (a ++ b) = b.
Proof. intros ->. rewrite skipn_app, Nat.sub_diag, skipn_all. reflexivity. Qed.

Lemma dec_changes_ok cs : forall c pre i,
  List.length pre = (4 * i)%nat ->
  Forall (fun ch => 0 <= fst ch < 65536 /\ List.length (snd ch) = 2%nat) cs ->
  dec_changes (List.length cs) i (c :: pre ++ concat (map enc_change_body cs)) = Some cs.
Proof.
  induction cs as [|[p d] r IH]; intros c pre i Hp HF; [reflexivity|].
  inversion HF as [|? ? [Hr Hd] HF']; subst. cbn [fst snd] in *.
  destruct d as [|d0 [|d1 [|? ?]]]; try discriminate Hd.
  cbn [List.length dec_changes map concat enc_change_body fst snd app].
  unfold slice at 1. replace (1 + 4 * i)%nat with (S (4 * i)) by lia. cbn [skipn].
  rewrite skipn_app_exact by lia. cbn [firstn].
  specialize (IH c (pre ++ [p / 256; p mod 256; d0; d1]) (S i)).
  rewrite <- app_assoc in IH. cbn [app] in IH. rewrite IH; [|rewrite app_length; cbn; lia|exact HF'].
  unfold slice. replace (3 + 4 * i)%nat with (S (4 * i + 2)) by lia. cbn [skipn].
  replace (pre ++ p / 256 :: p mod 256 :: d0 :: d1 :: concat (map enc_change_body r))
    with ((pre ++ [p / 256; p mod 256]) ++ d0 :: d1 :: concat (map enc_change_body r)) by (rewrite <- app_assoc; reflexivity).
  rewrite skipn_app_exact by (rewrite app_length; cbn; lia). cbn [firstn].
  f_equal. f_equal. f_equal. pose proof (Z.div_mod p 256 ltac:(lia)). lia.
Qed.

Lemma enc_change_some p d a : enc_change (p, d) = Some a -> a = [p / 256; p mod 256] ++ d /\ 0 <= p < 65536.
Proof. unfold enc_change. cbn [fst snd ocat]. destruct (u16 p) as [l|] eqn:E; [|discriminate].
  apply u16_some in E. destruct E as [-> [Hr _]]. intros H; inversion H. rewrite app_nil_r. auto. Qed.

Lemma ocat_changes cs l : ocat (map enc_change cs) = Some l ->
  l = concat (map enc_change_body cs) /\ Forall (fun ch => 0 <= fst ch < 65536) cs.
Proof.
  revert l. induction cs as [|[p d] r IH]; intros l H; [cbn in H; inversion H; split; [reflexivity|constructor]|].
  cbn [map] in H. apply ocat_cons in H. destruct H as [a [b [Ha [Hb ->]]]].
  destruct (enc_change_some _ _ _ Ha) as [-> Hp]. destruct (IH _ Hb) as [-> HF].
  split; [reflexivity|constructor; auto].
Qed.

Lemma roundtrip_statp cs b :
  Forall (fun ch => List.length (snd ch) = 2%nat) cs ->
  encode (Statp cs) = Some b -> decode b = Some (Statp cs).
Proof.
  intros HL H. cbn [encode] in H. apply ocat_cons in H. destruct H as [a [r [Ha [H ->]]]]. inversion Ha; subst a.
  apply ocat_cons in H. destruct H as [a [r' [Ha' [H ->]]]]. apply u8_some in Ha'. destruct Ha' as [-> Hc].
  destruct (ocat_changes _ _ H) as [-> HF].
  cbn [decode V_STATP app starts_with Z.eqb Pos.eqb andb skipn V_APING V_AVERS V_SVERS V_CURCH V_CHCUR V_SFILE V_FILES V_STATU V_STATV V_STATQ].
  rewrite Nat2Z.id. rewrite (dec_changes_ok cs _ [] 0); [reflexivity|reflexivity|].
  rewrite Forall_forall in *. intros x Hx. split; auto.
Qed.

(* the simulator's single change with a 1-byte value also decodes (its record is the last one) *)
Lemma roundtrip_statp_single_byte p x b :
  encode (Statp [(p, [x])]) = Some b -> decode b = Some (Statp [(p, [x])]).
Proof. cbn [encode map List.length Z.of_nat Pos.of_succ_nat]. unfold enc_change. cbn [fst snd ocat].
  destruct (u16 p) as [l|] eqn:E; [|cbn; discriminate]. apply u16_some in E. destruct E as [-> [Hr He]].
  cbn -[Z.div Z.modulo Z.mul Z.add]. intros H; inversion H; subst. cbn -[Z.div Z.modulo Z.mul Z.add].
  change (Pos.to_nat 1) with 1%nat. cbn [dec_changes slice skipn firstn Nat.add Nat.mul option_map].
  rewrite He. reflexivity. Qed.

(* --- RMREQ --- *)
Lemma s16le_roundtrip v l : s16le v = Some l -> exists lo hi, l = [lo; hi] /\ s16le_dec lo hi = v.
Proof.
  unfold s16le. destruct ((-32768 <=? v) && (v <? 32768)) eqn:E; [|discriminate]. intros H; inversion H.
  apply andb_prop in E. destruct E as [A B]. apply Z.leb_le in A. apply Z.ltb_lt in B.
  eexists; eexists; split; [reflexivity|]. unfold s16le_dec.
  pose proof (Z.mod_pos_bound v 65536 ltac:(lia)) as Hm.
  pose proof (Z.div_mod (v mod 65536) 256 ltac:(lia)) as Hd.
  replace (v mod 65536 / 256 * 256 + v mod 65536 mod 256) with (v mod 65536) by lia.
  destruct (v mod 65536 <? 32768) eqn:E2.
  - apply Z.ltb_lt in E2. destruct (Z.lt_ge_cases v 0).
    + assert (v mod 65536 = v + 65536) by (symmetry; apply Z.mod_unique with (-1); lia). lia.
    + apply Z.mod_small. lia.
  - apply Z.ltb_ge in E2. destruct (Z.lt_ge_cases v 0).
    + assert (v mod 65536 = v + 65536) by (symmetry; apply Z.mod_unique with (-1); lia). lia.
    + rewrite Z.mod_small in E2 by lia. lia.
Qed.

Lemma enc_rem_some t d a : enc_rem (t, d) = Some a ->
  exists lo hi, a = [t; lo; hi; 1] /\ s16le_dec lo hi = d /\ 0 <= t < 256.
Proof. unfold enc_rem. cbn [fst snd ocat]. destruct (u8 t) as [l1|] eqn:E1; [|discriminate].
  destruct (s16le d) as [l2|] eqn:E2; [|discriminate]. apply u8_some in E1. destruct E1 as [-> Ht].
  destruct (s16le_roundtrip _ _ E2) as [lo [hi [-> Hd]]]. intros H; inversion H. exists lo, hi. auto. Qed.

Lemma dec_rems_ok rs : forall l fuel, ocat (map enc_rem rs) = Some l -> (List.length rs <= fuel)%nat ->
  Forall (fun r => 0 <= fst r <= 6) rs -> dec_rems fuel l = Some rs.
Proof.
  induction rs as [|[t d] r IH]; intros l fuel H Hf HF.
  - cbn in H. inversion H. destruct fuel; reflexivity.
  - cbn [map] in H. apply ocat_cons in H. destruct H as [a [b [Ha [Hb ->]]]].
    destruct (enc_rem_some _ _ _ Ha) as [lo [hi [-> [Hd _]]]].
    inversion HF as [|? ? Ht HF']; subst. cbn [fst] in Ht.
    destruct fuel as [|fuel]; [cbn in Hf; lia|]. cbn [app dec_rems].
    rewrite (IH b fuel Hb ltac:(cbn in Hf; lia) HF').
    replace ((0 <=? t) && (t <=? 6)) with true by (symmetry; apply andb_true_intro; split; apply Z.leb_le; lia).
    reflexivity.
Qed.

Lemma ocat_rems_length rs l : ocat (map enc_rem rs) = Some l -> List.length l = (4 * List.length rs)%nat.
Proof. revert l. induction rs as [|[t d] r IH]; intros l H; [cbn in H; inversion H; reflexivity|].
  cbn [map] in H. apply ocat_cons in H. destruct H as [a [b [Ha [Hb ->]]]].
  destruct (enc_rem_some _ _ _ Ha) as [lo [hi [-> _]]].
  rewrite app_length, (IH _ Hb). cbn. lia. Qed.

Lemma roundtrip_rmreq rs b : Forall (fun r => 0 <= fst r <= 6) rs ->
  encode (Rmreq rs) = Some b -> decode b = Some (Rmreq rs).
Proof.
  intros HF H. cbn [encode] in H. apply ocat_cons in H. destruct H as [a [r [Ha [H ->]]]]. inversion Ha; subst a.
  cbn [decode V_RMREQ app starts_with Z.eqb Pos.eqb andb skipn V_APING V_AVERS V_SVERS V_CURCH V_CHCUR V_SFILE V_FILES V_STATU V_STATV V_STATQ V_STATP V_SPACK V_PACKS V_GETWC V_WCGET V_REQRM].
  rewrite (dec_rems_ok rs r _ H); [reflexivity| |exact HF].
  rewrite (ocat_rems_length _ _ H). lia.
Qed.

(* --- each message is claimed by exactly the handler of its verb --- *)
Definition handler_eqb (a b : handler) : bool :=
  match a, b with
  | HHello, HHello | HPacket, HPacket | HPing, HPing | HVersion, HVersion | HChannel, HChannel | HConfigFile, HConfigFile
  | HStatus, HStatus | HPartial, HPartial | HPackCmd, HPackCmd | HWatercare, HWatercare | HWcErr, HWcErr
  | HReminders, HReminders | HFirmware, HFirmware | HRfErr, HRfErr => true
  | _, _ => false end.

Definition verb_of (m : msg) : list Z :=
  match m with
  | Aping | ApingResp _ => V_APING | Avers _ => V_AVERS | Svers _ _ _ _ _ _ => V_SVERS | Curch _ => V_CURCH | Chcur _ _ => V_CHCUR
  | Sfile _ => V_SFILE | Files _ _ _ => V_FILES | Statu _ _ _ => V_STATU | Statv _ _ _ => V_STATV | Statp _ => V_STATP | Statq _ => V_STATQ
  | SpackKey _ _ _ | SpackSet _ _ _ _ _ _ _ => V_SPACK | Packs => V_PACKS | Getwc _ => V_GETWC | Wcget _ => V_WCGET | Setwc _ _ => V_SETWC
  | Wcreq => V_WCREQ | Reqrm _ => V_REQRM | Rmreq _ => V_RMREQ | Updts _ => V_UPDTS | Supdt => V_SUPDT | Rferr => V_RFERR
  end.

Lemma encode_prefix m b : encode m = Some b -> exists tail, b = verb_of m ++ tail.
Proof.
  destruct m; cbn [encode verb_of]; intros H;
    try (inversion H; subst; first [ exists (@nil Z); rewrite app_nil_r; reflexivity | eexists; reflexivity ]);
    try (apply ocat_cons in H; destruct H as [a [r [Ha [_ ->]]]]; inversion Ha; subst; eexists; reflexivity).
  (* SpackSet *)
  unfold obind in H. destruct (if len =? 1 then u8 value else if len =? 2 then u16 value else None); [|discriminate].
  apply ocat_cons in H. destruct H as [a [r [Ha [_ ->]]]]. inversion Ha; subst. eexists; reflexivity.
Qed.

Lemma verb_exclusive m b h : encode m = Some b ->
  accepts h b = match owner m with Some h' => handler_eqb h h' | None => false end.
Proof.
  intros H. destruct (encode_prefix m b H) as [tail ->]. destruct m, h; reflexivity.
Qed.

(* --- framing --- *)
Lemma starts_with_app p s : starts_with p (p ++ s) = true.
Proof. induction p as [|x p IH]; [reflexivity|]. cbn. now rewrite Z.eqb_refl, IH. Qed.

Lemma find_sub_here p s : find_sub p (p ++ s) = Some ([], s).
Proof. destruct (p ++ s) eqn:E.
  - destruct p; [|discriminate]. cbn in E. subst. reflexivity.
  - cbn [find_sub]. rewrite <- E, starts_with_app. rewrite skipn_app, skipn_all, Nat.sub_diag. reflexivity. Qed.

Lemma find_sub_skip' c p a t : Forall (fun x => x <> c) a -> starts_with (c :: p) t = true ->
  find_sub (c :: p) (a ++ t) = Some (a, skipn (List.length (c :: p)) t).
Proof.
  induction a as [|x a IH]; intros H Ht.
  - cbn [app]. destruct t as [|y t]; [discriminate|]. cbn [find_sub]. rewrite Ht. reflexivity.
  - inversion H as [|? ? Hx Ha]; subst. change ((x :: a) ++ t) with (x :: (a ++ t)). cbn [find_sub starts_with].
    replace (c =? x) with false by (symmetry; apply Z.eqb_neq; congruence). cbn [andb].
    rewrite (IH Ha Ht). reflexivity.
Qed.
Lemma find_sub_skip c p a s : Forall (fun x => x <> c) a ->
  find_sub (c :: p) (a ++ (c :: p) ++ s) = Some (a, s).
Proof. intros H. rewrite (find_sub_skip' c p a _ H (starts_with_app _ _)).
  rewrite skipn_app, skipn_all, Nat.sub_diag. reflexivity. Qed.

Lemma find_last_sub_end p x : find_last_sub p (x ++ p) = Some (x, []).
Proof. unfold find_last_sub. rewrite rev_app_distr, find_sub_here. cbn. now rewrite rev_involutive. Qed.

Lemma strip_mid a x c : List.length a = 7%nat -> List.length c = 8%nat -> strip 7 8 (a ++ x ++ c) = x.
Proof. intros Ha Hc. unfold strip.
  assert (Hn : (List.length (a ++ x ++ c) - 7 - 8 = List.length x)%nat) by (rewrite !app_length; lia).
  rewrite Hn. rewrite (skipn_app_exact a (x ++ c) 7 (eq_sym Ha)).
  rewrite firstn_app, firstn_all, Nat.sub_diag. cbn [firstn]. now rewrite app_nil_r. Qed.

Definition no_lt (l : list Z) : Prop := Forall (fun x => x <> 60) l.

Theorem unframe_frame src dst payload : no_lt src -> no_lt dst ->
  unframe (frame src dst payload) = Some (src, dst, payload).
Proof.
  intros Hs Hd. unfold unframe.
  assert (E : frame src dst payload = PACKT_O ++ (SRCCN_O ++ src ++ D1 ++ dst ++ D2 ++ payload ++ DATAS_C) ++ PACKT_C)
    by (unfold frame; repeat rewrite <- app_assoc; reflexivity).
  rewrite E. rewrite (strip_mid PACKT_O _ PACKT_C eq_refl eq_refl).
  rewrite find_sub_here.
  change D1 with (60 :: tl D1). rewrite (find_sub_skip 60 (tl D1) src _ Hs).
  change D2 with (60 :: tl D2). rewrite (find_sub_skip 60 (tl D2) dst _ Hd).
  rewrite find_last_sub_end. reflexivity.
Qed.

(* a reply built with the received parms = (ip, port, src, dst) goes back with the identifiers swapped *)
Theorem reply_swaps_ids src dst payload reply : no_lt src -> no_lt dst ->
  unframe (frame src dst payload) = Some (src, dst, payload) /\
  unframe (send_with_parms src dst reply) = Some (dst, src, reply).
Proof. intros Hs Hd. split; [apply unframe_frame; auto|]. unfold send_with_parms. apply unframe_frame; auto. Qed.

(* --- hello --- *)
Lemma strip_hello c : strip 7 8 (HELLO_O ++ c ++ HELLO_C) = c.
Proof. apply strip_mid; reflexivity. Qed.

Theorem hello_roundtrip_response id name :
  Forall (fun x => x <> 124) id ->
  let c := id ++ [124] ++ name in
  bytes_eqb c [49] = false -> starts_with T_IOS c || starts_with T_AND c = false ->
  dec_hello (enc_hello (HResponse id name)) = Some (HResponse id name).
Proof.
  intros Hid c H1 H2. unfold dec_hello, enc_hello. rewrite strip_hello. fold c. rewrite H1, H2.
  unfold c. rewrite (find_sub_skip 124 [] id name Hid). reflexivity.
Qed.
Theorem hello_roundtrip_client id :
  bytes_eqb id [49] = false -> starts_with T_IOS id || starts_with T_AND id = true ->
  dec_hello (enc_hello (HClient id)) = Some (HClient id).
Proof. intros H1 H2. unfold dec_hello, enc_hello. rewrite strip_hello, H1, H2. reflexivity. Qed.
Theorem hello_roundtrip_broadcast : dec_hello (enc_hello HBroadcast) = Some HBroadcast.
Proof. reflexivity. Qed.
