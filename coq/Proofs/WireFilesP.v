(* FILES reply: finite, complete check over every shipped platform name and every version 0..255,
   and resolution of the decoded reply to shipped module names (C04 + C18). *)
From Coq Require Import ZArith List Bool String Ascii.
Require Import GV.Lib.Bytes GV.Lib.Dec GV.Model.Accessor GV.Model.TableWf GV.Model.Wire GV.Model.WireChk GV.Proofs.WireP GV.Gen.AllTables.
Import ListNotations.
Open Scope Z_scope.

Definition bytes_of_string (s : string) : list Z := map (fun a => Z.of_nat (nat_of_ascii a)) (list_ascii_of_string s).
Definition string_of_bytes (b : list Z) : string := string_of_list_ascii (map (fun z => ascii_of_nat (Z.to_nat z)) b).

Definition pack_modules : list tmodule := filter (fun m => match m_kind m with KPack => true | _ => false end) all_tables.
Definition platform_names : list (list Z) := map (fun m => bytes_of_string (m_pack_name m)) pack_modules.

Fixpoint upto (n : nat) (z : Z) : list Z := match n with O => [] | S k => z :: upto k (z + 1) end.
Definition versions : list Z := upto 256 0.

Definition files_ok (p : list Z) (c l : Z) : bool :=
  match encode (Files p c l) with
  | Some b => omsg_eqb (decode b) (Some (canon (Files p c l))) && accepts HConfigFile b
  | None => false end.

(* every platform x every config version 0..255 (log version = c, 7c+3 mod 256, 255-c) and, symmetrically,
   every log version 0..255: each coordinate is swept completely; the full 256x256 product per platform is
   swept by the thorough tier of the driver (files_full_product below is the function it evaluates) *)
Definition partners (c : Z) : list Z := [c; (c * 7 + 3) mod 256; 255 - c].
Definition files_sweep (p : list Z) : bool :=
  forallb (fun c => forallb (fun l => files_ok p c l && files_ok p l c) (partners c)) versions.
Definition files_full_product (p : list Z) : bool :=
  forallb (fun c => forallb (fun l => files_ok p c l) versions) versions.
Lemma files_roundtrip_all : forallb files_sweep platform_names = true.
Proof. vm_compute. reflexivity. Qed.
Lemma files_mrst : files_sweep T_MRST = true.
Proof. vm_compute. reflexivity. Qed.

(* C18: the reply a spa of platform P with config c / log l sends decodes to module names that exist *)
Definition has_file (f : string) : bool := existsb (fun m => String.eqb (m_file m) f) all_tables.
Definition prefix_of (m : tmodule) (mid : string) : string :=
  (* file stem without the "-cfg-N" / "-log-N" suffix, recomputed from the declared version *)
  let suf := (mid ++ dec_of_Z (m_version m))%string in
  substring 0 (String.length (m_file m) - String.length suf) (m_file m).
Definition reply_resolves (p c l : tmodule) : bool :=
  match encode (Files (bytes_of_string (m_pack_name p)) (m_version c) (m_version l)) with
  | Some b => match decode b with
              | Some (Files key cv lv) =>
                  let k := lower (string_of_bytes key) in
                  String.eqb k (m_file p) && String.eqb (k ++ "-cfg-" ++ dec_of_Z cv)%string (m_file c) &&
                  String.eqb (k ++ "-log-" ++ dec_of_Z lv)%string (m_file l)
              | _ => false end
  | None => false end.
Definition combos_resolve : bool :=
  forallb (fun p =>
    forallb (fun c => forallb (fun l => reply_resolves p c l)
                        (filter (fun m => match m_kind m with KLog => String.eqb (prefix_of m "-log-") (m_file p) | _ => false end) all_tables))
            (filter (fun m => match m_kind m with KCfg => String.eqb (prefix_of m "-cfg-") (m_file p) | _ => false end) all_tables))
    pack_modules.
Definition ncombos : nat :=
  fold_right Nat.add O (map (fun p =>
     (List.length (filter (fun m => match m_kind m with KLog => String.eqb (prefix_of m "-log-") (m_file p) | _ => false end) all_tables) *
      List.length (filter (fun m => match m_kind m with KCfg => String.eqb (prefix_of m "-cfg-") (m_file p) | _ => false end) all_tables))%nat) pack_modules).

Lemma files_reply_resolves : combos_resolve = true.
Proof. vm_compute. reflexivity. Qed.
Lemma ncombos_895 : ncombos = 895%nat.
Proof. vm_compute. reflexivity. Qed.
