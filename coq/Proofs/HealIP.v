(* C09 under interleavings: every state the small-step lifecycle machine (Model/LifecycleI.v) reaches under ANY schedule of fault
   labels and task resumptions - client handlers suspended at every delivery for as long as the schedule likes - heals once the
   tasks inside the manager have been resumed to their end and the network is healthy, within the bound of the big-step theorem.
   (Before the repair of finding K10 the states 'IDLE, nothing connected, descriptors present' - k10_shape - were the exception.) *)
From Coq Require Import List Bool Arith ZArith.
Require Import GV.Lib.HashReach GV.Gen.LifecycleRules GV.Model.Lifecycle GV.Proofs.LifecycleP GV.Model.Heal GV.Model.LifecycleI GV.Proofs.LifecycleIP.
Import ListNotations.

Definition fault_ilabel (l : ilabel) : bool := match l with LBig b => fault_label b | LResume _ => true end.
Definition fault_ilabels : list ilabel := map LBig (Ext SPA_MAN_ENTER :: fault_labels) ++ [LResume SP; LResume SE; LResume SU].
Definition isuccs9 (s : ist) : list ist := flat_map (fun l => match istepS s l with Some s' => [s'] | None => [] end) fault_ilabels.
Definition ireach9 : list ist := hreach ist ist_eqb ikey isuccs9 400 [ientered true].

(* resume whatever is suspended inside the manager until nothing is (user task first, then the connection's, then the pump) *)
Fixpoint quiesce (fuel : nat) (s : ist) : ist :=
  match fuel with
  | O => s
  | S f =>
      if suspended s SU then match istepS s (LResume SU) with Some s' => quiesce f s' | None => s end
      else if suspended s SE then match istepS s (LResume SE) with Some s' => quiesce f s' | None => s end
      else if suspended s SP then match istepS s (LResume SP) with Some s' => quiesce f s' | None => s end
      else s
  end.
Definition to_mst (s : ist) : option mst :=
  match tp s, te s, tu s with PBlocked p, TNone, TNone => Some (upd_pc (gs s) p) | _, _, _ => None end.
Definition heals_within (bound : Z) (s : ist) : bool :=
  match to_mst (quiesce 40 s) with
  | Some m => match heal idle_costs FUELH m 0 with Some c => Z.leb c bound | None => false end
  | None => false
  end.
(* finding K10: IDLE with descriptors in place and nothing connected - no branch of the pump leaves it *)
Definition k10_shape (s : ist) : bool :=
  let q := quiesce 40 s in
  sstate_eqb (st (gs q)) IDLE && desc (gs q) && negb (spa (gs q)) && negb (fac (gs q)) &&
  match tp q with PBlocked PIdle | PBlocked PNotFound => true | _ => false end.

Local Transparent istep.
Definition iclosed9b : bool :=
  let M := hbuild ist ikey ireach9 in
  forallb (fun s => forallb (fun l => match istepS s l with Some s' => hmem ist ist_eqb ikey s' M | None => true end) fault_ilabels) ireach9.
Lemma ireach9_closed : iclosed9b = true.
Proof. vm_compute. reflexivity. Qed.
Lemma iinit9_in : hmem ist ist_eqb ikey (ientered true) (hbuild ist ikey ireach9) = true.
Proof. vm_compute. reflexivity. Qed.
Lemma all_heal : forallb (heals_within 420) ireach9 = true.
Proof. vm_compute. reflexivity. Qed.
Lemma heal_nonvacuous :
  Nat.ltb 1500 (List.length ireach9) = true /\ existsb (fun s => suspended s SU && suspended s SP) ireach9 = true /\ List.length (filter k10_shape ireach9) = O.
Proof. vm_compute. repeat split; reflexivity. Qed.
Global Opaque istep ireach9.

(* fault labels up to the parameters the machine distinguishes *)
Lemma fault_canon l : fault_ilabel l = true -> In (icanon l) fault_ilabels.
Proof.
  destruct l as [b|sl]; cbn [fault_ilabel icanon]; unfold fault_ilabels; intros F; apply in_or_app.
  - left. apply in_map. pose proof (canon_in b) as C. destruct C as [C|C]; [left; exact C|right].
    unfold fault_labels. apply filter_In. split; [exact C|].
    destruct b as [|f r|o|e| | |]; try reflexivity; cbn [canon_label].
    + destruct r; reflexivity.
    + destruct o as [| |w|]; try reflexivity. discriminate F.
    + destruct (existsb (event_eqb e) ext_events); reflexivity.
  - right. destruct sl; cbn; auto.
Qed.

Fixpoint all_fault (ls : list ilabel) : bool := match ls with [] => true | l :: r => fault_ilabel l && all_fault r end.

Theorem ireach9_complete ls s' : all_fault ls = true -> irun (ientered true) ls = Some s' -> In s' ireach9.
Proof.
  assert (G : forall ks s, In s ireach9 -> all_fault ks = true -> forall s1, irun s ks = Some s1 -> In s1 ireach9).
  { clear. induction ks as [|l r IH]; intros s Hs F s1 H; cbn [irun] in H; [inversion H; subst; exact Hs|].
    cbn [all_fault] in F. apply andb_prop in F. destruct F as [Fl Fr].
    destruct (istepS s l) as [s2|] eqn:E; [|discriminate]. apply (IH s2); [|exact Fr|exact H].
    pose proof ireach9_closed as C. unfold iclosed9b in C. cbv zeta in C. rewrite forallb_forall in C. specialize (C s Hs). rewrite forallb_forall in C.
    specialize (C (icanon l) (fault_canon l Fl)). rewrite <- istep_canon, E in C.
    eapply hmem_build; [exact ist_eqb_true|exact C]. }
  intros F H. apply (G ls (ientered true)); [|exact F|exact H]. eapply hmem_build; [exact ist_eqb_true|exact iinit9_in].
Qed.

Theorem interleaved_heal ls s : all_fault ls = true -> irun (ientered true) ls = Some s -> heals_within 420 s = true.
Proof.
  intros F R. pose proof (ireach9_complete ls s F R) as I. pose proof all_heal as A. rewrite forallb_forall in A. exact (A s I).
Qed.
