(* '<' on the kernel's primitive binary64 floats is transitive on finite values.
   Uses the standard library's specification of the primitive floats (Coq.Floats.FloatAxioms, through Flocq's bridge) and the
   real numbers: this is the only file of the development that relies on axioms - all of them declared by the standard library
   (named in DESIGN.md, trusted base; Print Assumptions under the C14 theorem that uses it lists them). *)
From Coq Require Import ZArith Reals Bool.
From Coq Require Floats.PrimFloat.
From Flocq Require Import Core.Raux IEEE754.BinarySingleNaN.
From Flocq Require IEEE754.PrimFloat.

Lemma ltb_trans_finite (x y z : Coq.Floats.PrimFloat.float) :
  Coq.Floats.PrimFloat.is_finite x = true -> Coq.Floats.PrimFloat.is_finite y = true -> Coq.Floats.PrimFloat.is_finite z = true ->
  Coq.Floats.PrimFloat.ltb x y = true -> Coq.Floats.PrimFloat.ltb y z = true -> Coq.Floats.PrimFloat.ltb x z = true.
Proof.
  intros Fx Fy Fz. rewrite !Flocq.IEEE754.PrimFloat.ltb_equiv. rewrite Flocq.IEEE754.PrimFloat.is_finite_equiv in Fx, Fy, Fz.
  rewrite !Bltb_correct by assumption.
  intros A B.
  destruct (Rlt_bool_spec (B2R (Flocq.IEEE754.PrimFloat.Prim2B x)) (B2R (Flocq.IEEE754.PrimFloat.Prim2B y))) as [H1|]; [|discriminate].
  destruct (Rlt_bool_spec (B2R (Flocq.IEEE754.PrimFloat.Prim2B y)) (B2R (Flocq.IEEE754.PrimFloat.Prim2B z))) as [H2|]; [|discriminate].
  apply Rlt_bool_true. eapply Rlt_trans; eauto.
Qed.
