(* C17: complete table switch; every sleeper woken by a switch; nobody oversleeps. *)
From Coq Require Import ZArith List Bool String Lia.
Require Import GV.Model.Config GV.Gen.ConfigTables.
Import ListNotations.
Open Scope Z_scope.

Lemma lookup_set_same k v t : lookup k (set k v t) = Some v.
Proof. induction t as [|[k' v'] r IH]; cbn; [now rewrite String.eqb_refl|].
  destruct (String.eqb k k') eqn:E; cbn; [now rewrite String.eqb_refl|now rewrite E]. Qed.
Lemma lookup_set_other k k2 v t : k2 <> k -> lookup k2 (set k v t) = lookup k2 t.
Proof. intros H. induction t as [|[k' v'] r IH]; cbn.
  - destruct (String.eqb k2 k) eqn:E; [apply String.eqb_eq in E; contradiction|reflexivity].
  - destruct (String.eqb k k') eqn:E; cbn.
    + apply String.eqb_eq in E. subst. destruct (String.eqb k2 k') eqn:E2; [apply String.eqb_eq in E2; contradiction|reflexivity].
    + destruct (String.eqb k2 k'); auto. Qed.

Definition stepm (chosen : table) (t : table) (m : string) : table :=
  match lookup m chosen with Some v => set m v t | None => t end.

Lemma fold_other chosen ms : forall live f, ~ In f ms -> lookup f (fold_left (stepm chosen) ms live) = lookup f live.
Proof. induction ms as [|m r IH]; intros live f H; [reflexivity|]. cbn [fold_left]. rewrite IH by (intros C; apply H; right; exact C).
  unfold stepm. destruct (lookup m chosen); [|reflexivity]. apply lookup_set_other. intros C. apply H. left. auto. Qed.

(* every listed member ends up with the chosen table's value, whatever the live table held *)
Theorem set_mode_member chosen ms : forall live f v, In f ms -> lookup f chosen = Some v ->
  lookup f (set_config_mode ms chosen live) = Some v.
Proof.
  unfold set_config_mode. fold (stepm chosen). induction ms as [|m r IH]; intros live f v Hin Hv; [destruct Hin|].
  cbn [fold_left]. destruct (in_dec string_dec f r) as [Hr|Hr].
  - apply IH; auto.
  - destruct Hin as [->|Hin]; [|contradiction]. rewrite fold_other by exact Hr. unfold stepm. rewrite Hv. apply lookup_set_same.
Qed.

(* generated tables: CONFIG_MEMBERS covers every field of the three classes and both tables define every member *)
Definition covers : bool :=
  forallb (fun f => existsb (String.eqb f) cfg_members) cfg_fields &&
  forallb (fun m => match lookup m cfg_active, lookup m cfg_idle with Some _, Some _ => true | _, _ => false end) cfg_members.
Lemma covers_ok : covers = true. Proof. vm_compute. reflexivity. Qed.

Theorem never_mixed (active_mode : bool) live f : In f cfg_fields ->
  lookup f (set_config_mode cfg_members (if active_mode then cfg_active else cfg_idle) live) =
  lookup f (if active_mode then cfg_active else cfg_idle) /\
  lookup f (if active_mode then cfg_active else cfg_idle) <> None.
Proof.
  intros Hf. pose proof covers_ok as C. unfold covers in C. apply andb_prop in C. destruct C as [C1 C2].
  rewrite forallb_forall in C1, C2. specialize (C1 f Hf). apply existsb_exists in C1. destruct C1 as [m [Hm E]].
  apply String.eqb_eq in E. subst m. specialize (C2 f Hm).
  destruct (lookup f cfg_active) as [va|] eqn:Ea; [|discriminate]. destruct (lookup f cfg_idle) as [vi|] eqn:Ei; [|discriminate].
  destruct active_mode.
  - rewrite (set_mode_member cfg_active cfg_members live f va Hm Ea), Ea. split; [reflexivity|discriminate].
  - rewrite (set_mode_member cfg_idle cfg_members live f vi Hm Ei), Ei. split; [reflexivity|discriminate].
Qed.

(* ---- sleepers ---- *)
Definition Inv (s : cst) : Prop :=
  (pending s = false -> sleepers s = []) /\
  Forall (fun p => now s <= snd p) (sleepers s) /\
  Forall (fun w => snd w <= snd (fst w)) (woken s).

Lemma filter_forall {A} (P : A -> Prop) f l : Forall P l -> Forall P (filter f l).
Proof. induction 1; cbn; [constructor|]. destruct (f x); [constructor|]; auto. Qed.

Lemma step_inv s e : (match e with Sleep _ d => 0 <= d | _ => True end) -> Inv s -> Inv (step s e).
Proof.
  intros Hd [I1 [I2 I3]]. destruct e as [id d| |t]; cbn [step].
  - unfold Inv; cbn. repeat split; auto; [discriminate|]. apply Forall_app. split; auto. constructor; [cbn; lia|constructor].
  - destruct (pending s) eqn:Ep; [|unfold Inv; auto].
    unfold Inv; cbn. repeat split; auto. apply Forall_app. split; auto.
    apply Forall_rev. rewrite Forall_forall in *. intros w Hw. apply in_map_iff in Hw. destruct Hw as [p [<- Hp]]. cbn. apply I2. exact Hp.
  - destruct (t <? now s) eqn:Et; [unfold Inv; auto|]. apply Z.ltb_ge in Et.
    unfold Inv; cbn. repeat split.
    + intros Hp. rewrite (I1 Hp). reflexivity.
    + rewrite Forall_forall in *. intros p Hp. apply filter_In in Hp. destruct Hp as [Hin Hn]. unfold due in Hn.
      apply negb_true_iff in Hn. apply Z.leb_gt in Hn. lia.
    + apply Forall_app. split; auto. apply Forall_rev. rewrite Forall_forall. intros w Hw.
      apply in_map_iff in Hw. destruct Hw as [p [<- Hp]]. cbn. lia.
Qed.

Definition nonneg_delays (es : list cev) : Prop := Forall (fun e => match e with Sleep _ d => 0 <= d | _ => True end) es.

Theorem run_inv es : forall s, nonneg_delays es -> Inv s -> Inv (run s es).
Proof. induction es as [|e r IH]; intros s H I; [exact I|]. inversion H; subst. cbn [run fold_left]. apply IH; auto. apply step_inv; auto. Qed.

Lemma init_inv : Inv init. Proof. unfold Inv, init; cbn. repeat split; auto. Qed.

(* every task sleeping when the mode is switched is released by the switch, at the switch time *)
Theorem switch_wakes_all es : nonneg_delays es ->
  let s := run init es in
  sleepers (step s Switch) = [] /\
  forall p, In p (sleepers s) -> In (fst p, snd p, now s) (woken (step s Switch)).
Proof.
  intros H s. pose proof (run_inv es init H init_inv) as [I1 _]. fold s in I1. cbn [step].
  destruct (pending s) eqn:Ep.
  - cbn. split; [reflexivity|]. intros p Hp. apply in_or_app. left. apply -> in_rev. apply in_map_iff. exists p. auto.
  - rewrite (I1 eq_refl). split; [reflexivity|]. intros p [].
Qed.

(* nobody is ever released later than it asked *)
Theorem never_oversleeps es : nonneg_delays es ->
  forall id dl w, In (id, dl, w) (woken (run init es)) -> w <= dl.
Proof. intros H id dl w Hin. pose proof (run_inv es init H init_inv) as [_ [_ I3]]. rewrite Forall_forall in I3.
  exact (I3 _ Hin). Qed.

(* ... and once the clock reaches t, every sleeper whose deadline is <= t has been released (at its deadline) *)
Theorem advance_releases_due es t : now (run init es) <= t ->
  forall p, In p (sleepers (step (run init es) (Advance t))) -> t < snd p.
Proof.
  intros Ht p Hp. cbn [step] in Hp. replace (t <? now (run init es)) with false in Hp by (symmetry; apply Z.ltb_ge; lia).
  cbn in Hp. apply filter_In in Hp. destruct Hp as [_ Hn]. unfold due in Hn. apply negb_true_iff in Hn. apply Z.leb_gt in Hn. exact Hn.
Qed.

Theorem active_iff_any_on pumps blowers : active pumps blowers = true <-> (In true pumps \/ In true blowers).
Proof. unfold active. rewrite existsb_exists. split.
  - intros [x [Hin Hx]]. subst. apply in_app_or in Hin. exact Hin.
  - intros H. exists true. split; [apply in_or_app; exact H|reflexivity]. Qed.
