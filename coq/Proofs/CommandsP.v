(* C13: exactly the intended write, idempotent switches, command-range numbering. *)
From Coq Require Import ZArith List Bool String Lia PrimFloat.
Require Import GV.Lib.Bytes GV.Model.Accessor GV.Model.Wire GV.Model.Temp GV.Model.Commands GV.Gen.Counter
               GV.Proofs.AccessorP GV.Proofs.CounterP GV.Proofs.TempP.
Import ListNotations.
Open Scope Z_scope.

Definition ctr_ok (c : Z * Z) : Prop := exists n m, 0 <= n /\ 0 <= m /\ c = (spec_p n, spec_c m).

Lemma next_cmd c : ctr_ok c -> let '(c', seq) := async_next true c in ctr_ok c' /\ 192 <= seq <= 255 /\
  exists n m, 0 <= n /\ 0 <= m /\ c = (spec_p n, spec_c m) /\ c' = (spec_p n, spec_c (m + 1)) /\ seq = spec_c (m + 1).
Proof. intros [n [m [Hn [Hm ->]]]]. rewrite async_next_c by lia. split; [exists n, (m + 1); repeat split; auto; lia|].
  split; [apply spec_c_range; lia|]. exists n, m. auto. Qed.
Lemma next_proto c : ctr_ok c -> let '(c', seq) := async_next false c in ctr_ok c' /\ 1 <= seq <= 191.
Proof. intros [n [m [Hn [Hm ->]]]]. rewrite async_next_p by lia. split; [exists (n + 1), m; repeat split; auto; lia|apply spec_p_range; lia]. Qed.

(* a pump mode: one set-value carrying the pack type and versions; applied by the spa, the demand reads the mode *)
Theorem set_mode_effect c blk ctr a mode :
  wf a blk -> a_type a = TEnum -> a_rw a = true -> In mode (a_items a) -> ctr_ok ctr ->
  (match a_bitpos a, a_mask a with
   | Some _, Some m => Z.of_nat (List.length (a_items a)) <= m + 1
   | _, _ => Z.of_nat (List.length (a_items a)) <= 2 ^ (8 * a_len a) end) ->
  exists seq pos len v blk',
    fst (exec c blk ctr (SetMode a mode)) = [SpackSet seq (c_pack c) (c_cfg c) (c_log c) pos len v] /\
    192 <= seq <= 255 /\ spa_apply blk (SpackSet seq (c_pack c) (c_cfg c) (c_log c) pos len v) = Some blk' /\
    get_value a blk' = Some (VStr mode) /\
    (forall i, (Z.of_nat i < a_pos a \/ a_pos a + a_len a <= Z.of_nat i) -> nth i blk' 0 = nth i blk 0).
Proof.
  intros W Ht Hrw Hin Hc Hcap. destruct (enum_roundtrip a blk mode W Ht Hrw Hin Hcap) as [[[pos len] v] [blk' [Hw [Ha Hg]]]].
  pose proof (next_cmd ctr Hc) as N. cbn [exec]. rewrite Hw. cbn [send_write]. destruct (async_next true ctr) as [ctr' seq].
  destruct N as [_ [Hr _]]. exists seq, pos, len, v, blk'. cbn [fst set_value_msg spa_apply]. repeat split; auto; try lia.
  intros i Hi. eapply write_isolated_bytes; eauto.
Qed.

(* on/off devices: nothing is sent when already in the requested state; otherwise exactly one command *)
Theorem switch_idempotent c blk ctr s on : is_on (sw_state s) blk = Some on -> exec c blk ctr (Turn s on) = ([], ctr).
Proof. intros H. cbn [exec]. rewrite H, Bool.eqb_reflx. reflexivity. Qed.

Theorem switch_keypad_one c blk ctr s on : is_on (sw_state s) blk = Some (negb on) -> sw_keypad s <> 0 -> ctr_ok ctr ->
  exists seq, fst (exec c blk ctr (Turn s on)) = [SpackKey seq (c_pack c) (sw_keypad s)] /\ 192 <= seq <= 255.
Proof. intros H Hk Hc. cbn [exec]. rewrite H. replace (Bool.eqb (negb on) on) with false by (destruct on; reflexivity).
  replace (sw_keypad s =? 0) with false by (symmetry; apply Z.eqb_neq; auto). cbn [negb].
  pose proof (next_cmd ctr Hc) as N. destruct (async_next true ctr) as [ctr' seq]. destruct N as [_ [Hr _]]. exists seq. split; [reflexivity|lia]. Qed.

Theorem switch_direct_one c blk ctr s on : is_on (sw_state s) blk = Some (negb on) -> sw_keypad s = 0 ->
  wf (sw_state s) blk -> a_type (sw_state s) = TBool -> a_rw (sw_state s) = true -> ctr_ok ctr ->
  exists seq pos len v blk', fst (exec c blk ctr (Turn s on)) = [SpackSet seq (c_pack c) (c_cfg c) (c_log c) pos len v] /\
    192 <= seq <= 255 /\ spa_apply blk (SpackSet seq (c_pack c) (c_cfg c) (c_log c) pos len v) = Some blk' /\
    is_on (sw_state s) blk' = Some on.
Proof.
  intros H Hk W Ht Hrw Hc. destruct (bool_roundtrip (sw_state s) blk on W Ht Hrw) as [[[pos len] v] [blk' [Hw [Ha Hg]]]].
  cbn [exec]. rewrite H. replace (Bool.eqb (negb on) on) with false by (destruct on; reflexivity). rewrite Hk. cbn [Z.eqb negb].
  rewrite Hw. cbn [send_write]. pose proof (next_cmd ctr Hc) as N. destruct (async_next true ctr) as [ctr' seq]. destruct N as [_ [Hr _]].
  exists seq, pos, len, v, blk'. cbn [fst set_value_msg spa_apply]. repeat split; auto; try lia. unfold is_on. rewrite Hg. reflexivity.
Qed.

(* a target temperature the device can represent is written as exactly that word *)
Theorem set_target_representable c blk ctr a u r :
  wf a blk -> a_type a = TWord -> a_rw a = true -> a_bitpos a = None -> a_two a = true -> 0 <= r < 65536 -> ctr_ok ctr ->
  exists seq blk', fst (exec c blk ctr (SetTarget a u (get_temp u r))) = [SpackSet seq (c_pack c) (c_cfg c) (c_log c) (a_pos a) (a_len a) r] /\
    192 <= seq <= 255 /\ spa_apply blk (SpackSet seq (c_pack c) (c_cfg c) (c_log c) (a_pos a) (a_len a) r) = Some blk' /\
    get_value a blk' = Some (VInt r).
Proof.
  intros W Ht Hrw Hb Htwo Hr Hc. cbn [exec]. rewrite (roundtrip u r Hr).
  assert (Hr2 : 0 <= r < 2 ^ (8 * a_len a)) by (rewrite (wf_len _ _ W), Htwo; cbn; lia).
  destruct (int_roundtrip a blk r W (or_intror Ht) Hrw Hb Hr2) as [[[pos len] v] [blk' [Hw [Ha Hg]]]].
  assert (Hshape : (pos, len, v) = (a_pos a, a_len a, r)).
  { unfold write in Hw. rewrite Hrw in Hw. cbn [negb] in Hw. unfold encode_value in Hw. rewrite Ht in Hw.
    destruct (be_decode (a_two a) (field a blk)); [|discriminate]. rewrite Hb in Hw. inversion Hw. reflexivity. }
  inversion Hshape; subst pos len v. rewrite Hw. cbn [send_write].
  pose proof (next_cmd ctr Hc) as N. destruct (async_next true ctr) as [ctr' seq]. destruct N as [_ [Hq _]].
  exists seq, blk'. cbn [fst set_value_msg spa_apply]. repeat split; auto; lia.
Qed.

(* every command emits at most one datagram; pack commands use the command range and carry the pack type and versions,
   watercare uses the protocol range; the counter state stays well-formed: by induction, for ANY command sequence *)
Definition msg_ok (c : cctx) (m : msg) : Prop :=
  match m with
  | SpackSet seq p cf lg _ _ _ => 192 <= seq <= 255 /\ p = c_pack c /\ cf = c_cfg c /\ lg = c_log c
  | SpackKey seq p _ => 192 <= seq <= 255 /\ p = c_pack c
  | Setwc seq _ => 1 <= seq <= 191
  | _ => False
  end.

Lemma send_write_ok c ctr w : ctr_ok ctr ->
  let '(ms, ctr') := send_write c ctr w in ctr_ok ctr' /\ (List.length ms <= 1)%nat /\ Forall (msg_ok c) ms.
Proof. intros Hc. destruct w as [[[pos len] v]|]; cbn [send_write]; [|repeat split; auto]. 
  pose proof (next_cmd ctr Hc) as N. destruct (async_next true ctr) as [ctr' seq]. destruct N as [A [B _]].
  split; [exact A|]. split; [cbn; lia|]. constructor; [cbn; repeat split; auto; lia|constructor]. Qed.

Lemma exec_ok c blk ctr k : ctr_ok ctr ->
  let '(ms, ctr') := exec c blk ctr k in ctr_ok ctr' /\ (List.length ms <= 1)%nat /\ Forall (msg_ok c) ms.
Proof.
  intros Hc. destruct k as [a mode|s on|a u t|a cel|m]; cbn [exec].
  - apply send_write_ok; auto.
  - destruct (is_on (sw_state s) blk) as [cur|]; [|repeat split; auto].
    destruct (Bool.eqb cur on); [repeat split; auto|]. destruct (negb (sw_keypad s =? 0)).
    + pose proof (next_cmd ctr Hc) as N. destruct (async_next true ctr) as [ctr' seq]. destruct N as [A [B _]].
      split; [exact A|]. split; [cbn; lia|]. constructor; [cbn; split; auto; lia|constructor].
    + apply send_write_ok; auto.
  - destruct (set_temp u t); [apply send_write_ok; auto|repeat split; auto].
  - apply send_write_ok; auto.
  - pose proof (next_proto ctr Hc) as N. destruct (async_next false ctr) as [ctr' seq]. destruct N as [A B].
    split; [exact A|]. split; [cbn; lia|]. constructor; [cbn; lia|constructor].
Qed.

Theorem exec_all_ok c : forall ks ctr, ctr_ok ctr ->
  let '(mss, ctr') := exec_all c ctr ks in ctr_ok ctr' /\ Forall (fun ms => (List.length ms <= 1)%nat /\ Forall (msg_ok c) ms) mss.
Proof.
  induction ks as [|[blk k] r IH]; intros ctr Hc; cbn [exec_all]; [split; auto|].
  pose proof (exec_ok c blk ctr k Hc) as E. destruct (exec c blk ctr k) as [ms ctr1]. destruct E as [E1 [E2 E3]].
  specialize (IH ctr1 E1). destruct (exec_all c ctr1 r) as [mss ctr2]. destruct IH as [I1 I2]. split; auto.
Qed.
