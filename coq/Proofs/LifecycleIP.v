(* C08, interleavings: the reachable set of the small-step lifecycle machine (Model/LifecycleI.v) - every schedule of bursts of
   the pump, one connection task and one user task, each suspended at every delivery for as long as the schedule likes - is
   computed (hashed exploration, Lib/HashReach.v) and proved closed under every label; the invariants are evaluated on all of it.
   The big-step LTS of Model/Lifecycle.v is the special case 'resume the task that was started until it is done'. *)
From Coq Require Import List Bool Arith.
Require Import GV.Lib.HashReach GV.Gen.LifecycleRules GV.Model.Lifecycle GV.Proofs.LifecycleP GV.Model.LifecycleI.
Import ListNotations.

Definition ireach : list ist := ireach_upto 400.
Definition istepS (s : ist) (l : ilabel) : option ist := option_map fst (istep s l).
Fixpoint irun (s : ist) (ls : list ilabel) : option ist :=
  match ls with [] => Some s | l :: r => match istepS s l with Some s' => irun s' r | None => None end end.

(* ---------- decidable equality is equality ---------- *)
Lemma event_eqb_true a b : event_eqb a b = true -> a = b.
Proof. destruct a, b; cbn; intros H; try discriminate; reflexivity. Qed.
Lemma action_eqb_true a b : action_eqb a b = true -> a = b.
Proof. destruct a, b; cbn; intros H; try discriminate; try reflexivity; [apply sstate_eqb_eq in H|apply event_eqb_true in H]; now subst. Qed.
Lemma instr_eqb_true a b : instr_eqb a b = true -> a = b.
Proof.
  destruct a, b; cbn; intros H; try discriminate; try reflexivity;
    try (apply event_eqb_true in H; now subst).
  - apply action_eqb_true in H. now subst.
  - apply andb_prop in H. destruct H as [H1 H2]. apply Bool.eqb_prop in H1. apply Bool.eqb_prop in H2. now subst.
  - apply pc_eqb_eq in H. now subst.
Qed.
Lemma code_eqb_true : forall a b, code_eqb a b = true -> a = b.
Proof. induction a as [|x a IH]; destruct b as [|y b]; cbn; intros H; try discriminate; [reflexivity|].
  apply andb_prop in H. destruct H as [H1 H2]. apply instr_eqb_true in H1. apply IH in H2. now subst. Qed.
Lemma task_eqb_true a b : task_eqb a b = true -> a = b.
Proof. destruct a, b; cbn; intros H; try discriminate; [reflexivity|]. apply code_eqb_true in H. now subst. Qed.
Lemma ptask_eqb_true a b : ptask_eqb a b = true -> a = b.
Proof. destruct a, b; cbn; intros H; try discriminate; [apply pc_eqb_eq in H|apply code_eqb_true in H]; now subst. Qed.
Lemma ist_eqb_true a b : ist_eqb a b = true -> a = b.
Proof.
  unfold ist_eqb. intros H.
  repeat (match type of H with (_ && _) = true => apply andb_prop in H; let H' := fresh "K" in destruct H as [H H'] end).
  apply mst_eqb_eq in H.
  repeat match goal with
         | X : ptask_eqb _ _ = true |- _ => apply ptask_eqb_true in X
         | X : task_eqb _ _ = true |- _ => apply task_eqb_true in X
         end.
  repeat match goal with X : Bool.eqb _ _ = true |- _ => apply Bool.eqb_prop in X end.
  destruct a, b; cbn in *; subst; reflexivity.
Qed.

(* ---------- labels up to the parameters the machine distinguishes ---------- *)
Definition icanon (l : ilabel) : ilabel := match l with LBig b => LBig (canon_label b) | _ => l end.
Definition ilabels_canon : list ilabel := map LBig (Ext SPA_MAN_ENTER :: all_labels) ++ [LResume SP; LResume SE; LResume SU].
Lemma icanon_in l : In (icanon l) ilabels_canon.
Proof.
  destruct l as [b|sl]; cbn [icanon]; unfold ilabels_canon; apply in_or_app.
  - left. apply in_map. apply canon_in.
  - right. destruct sl; cbn; auto.
Qed.
Lemma start_canon s l : start s l = start s (canon_label l).
Proof.
  destruct l as [|f r|o|e| | |]; try reflexivity.
  - destruct r; [|reflexivity]. cbn [canon_label start]. destruct (tp s) as [p|k]; [|reflexivity]. destruct p; reflexivity.
  - destruct o as [| |w|]; try reflexivity. destruct w as [|[|w]]; reflexivity.
  - cbn [canon_label]. destruct (existsb (event_eqb e) ext_events) eqn:E; [reflexivity|]. cbn [start]. rewrite E.
    destruct (te s); [|reflexivity]. rewrite andb_false_r. cbn. rewrite andb_false_r. reflexivity.
Qed.
Lemma istep_canon s l : istepS s l = istepS s (icanon l).
Proof. destruct l as [b|sl]; [|reflexivity]. unfold istepS. cbn [icanon istep]. rewrite <- start_canon. reflexivity. Qed.

(* ---------- the computed set is closed ---------- *)
Definition iclosedb : bool :=
  let M := hbuild ist ikey ireach in
  forallb (fun s => forallb (fun l => match istepS s l with Some s' => hmem ist ist_eqb ikey s' M | None => true end) ilabels_canon) ireach.
Lemma ireach_closed : iclosedb = true.
Proof. vm_compute. reflexivity. Qed.
Lemma iinit_in : forall c, hmem ist ist_eqb ikey (ientered c) (hbuild ist ikey ireach) = true.
Proof. intros []; vm_compute; reflexivity. Qed.

Global Opaque istep ireach.

Theorem ireach_complete c ls s' : irun (ientered c) ls = Some s' -> In s' ireach.
Proof.
  assert (G : forall ks s, In s ireach -> forall s1, irun s ks = Some s1 -> In s1 ireach).
  { clear. induction ks as [|l r IH]; intros s Hs s1 H; cbn [irun] in H; [inversion H; subst; exact Hs|].
    destruct (istepS s l) as [s2|] eqn:E; [|discriminate]. apply (IH s2); [|exact H].
    pose proof ireach_closed as C. unfold iclosedb in C. cbv zeta in C. rewrite forallb_forall in C. specialize (C s Hs). rewrite forallb_forall in C.
    specialize (C (icanon l) (icanon_in l)). rewrite <- istep_canon, E in C.
    eapply hmem_build; [exact ist_eqb_true|exact C]. }
  intros H. apply (G ls (ientered c)); [|exact H]. eapply hmem_build; [exact ist_eqb_true|apply iinit_in].
Qed.

Lemma iinv_all (P : ist -> bool) : forallb P ireach = true -> forall c ls s', irun (ientered c) ls = Some s' -> P s' = true.
Proof. intros H c ls s' R. rewrite forallb_forall in H. apply H. eapply ireach_complete; eauto. Qed.

(* ---------- invariants over every schedule ---------- *)
Definition ii_connected (s : ist) : bool := negb (sstate_eqb (st (gs s)) CONNECTED) || (fac (gs s) && spa (gs s)).
Definition ii_ready (s : ist) : bool := negb (v_ready_not_connected (gs s)).
Definition ii_teardown_le (s : ist) : bool := negb (v_teardown_extra (gs s)).
Definition ii_teardown_fac (s : ist) : bool := negb (v_teardown_nofacade (gs s)).
Definition ii_sensor (s : ist) : bool := negb (v_sensor_stale (gs s)).
Definition ii_fuel (s : ist) : bool := negb (v_fuel (gs s)).
Definition ii_alive (s : ist) : bool := negb (v_died s) && match tp s with PBlocked PDead => false | _ => true end.
Definition ii_phase_closed (s : ist) : bool :=
  match tp s with
  | PBlocked PIdle | PBlocked PDead | PBlocked PNotFound => negb (loc_open (gs s)) && negb (conn_open (gs s))
  | _ => true end.
Lemma all_ii_connected : forallb ii_connected ireach = true. Proof. vm_compute. reflexivity. Qed.
Lemma all_ii_ready : forallb ii_ready ireach = true. Proof. vm_compute. reflexivity. Qed.
Lemma all_ii_teardown_le : forallb ii_teardown_le ireach = true. Proof. vm_compute. reflexivity. Qed.
Lemma all_ii_teardown_fac : forallb ii_teardown_fac ireach = true. Proof. vm_compute. reflexivity. Qed.
Lemma all_ii_sensor : forallb ii_sensor ireach = true. Proof. vm_compute. reflexivity. Qed.
Lemma all_ii_fuel : forallb ii_fuel ireach = true. Proof. vm_compute. reflexivity. Qed.
Lemma all_ii_alive : forallb ii_alive ireach = true. Proof. vm_compute. reflexivity. Qed.
Lemma all_ii_phase_closed : forallb ii_phase_closed ireach = true. Proof. vm_compute. reflexivity. Qed.
Definition ii_reset_clean (s : ist) : bool := negb (v_reset_dirty s).
Lemma all_ii_reset_clean : forallb ii_reset_clean ireach = true. Proof. vm_compute. reflexivity. Qed.
(* the facade ledger: under every interleaving no facade whose tasks are alive is dropped or overwritten without disconnect(), and the
   tasks of a facade are alive only while the manager references it *)
Definition ii_fac_ledger (s : ist) : bool := negb (v_fleak s) && (negb (fac_live s) || fac (gs s)).
Lemma all_ii_fac_ledger : forallb ii_fac_ledger ireach = true. Proof. vm_compute. reflexivity. Qed.
Theorem no_facade_dropped_alive c ls s' : irun (ientered c) ls = Some s' -> v_fleak s' = false /\ (fac_live s' = true -> fac (gs s') = true).
Proof.
  intros R. pose proof (iinv_all ii_fac_ledger all_ii_fac_ledger c ls s' R) as H. unfold ii_fac_ledger in H.
  apply andb_prop in H. destruct H as [H1 H2]. split.
  - destruct (v_fleak s'); [discriminate|reflexivity].
  - intros L. rewrite L in H2. exact H2.
Qed.
(* the schedule on which the code before fix fe0bb34 dropped a live facade (K13): a user reset is suspended in its RUNNING_SPA_DISCONNECTED
   handler while the last handshake step completes and the pump creates the facade; the reset now disconnects that facade too *)
Definition w_k13 : list ilabel :=
  [LBig Pump; LResume SP; LBig (LocOutcome false false); LResume SP; LBig Pump; LResume SP; LBig (LocOutcome true false);
   LResume SP; LResume SP; LResume SP; LBig (ConnOutcome CNext); LResume SP; LBig (ConnOutcome CNext); LResume SP; LResume SP;
   LBig (ConnOutcome CNext); LResume SP; LBig (ConnOutcome CNext); LResume SP; LBig UserReset;
   LBig (ConnOutcome CNext); LResume SP; LResume SP; LResume SP; LResume SU].
Lemma k13_schedule_runs_and_is_clean :
  option_map (fun s => (fac_live s, v_fleak s, fac (gs s), sstate_eqb (st (gs s)) IDLE)) (irun (ientered true) w_k13) = Some (false, false, false, true) /\
  option_map (fun s => (fac_live s, fac (gs s), sstate_eqb (st (gs s)) CONNECTED)) (irun (ientered true) (removelast w_k13)) = Some (true, true, true).
Proof. vm_compute. split; reflexivity. Qed.
Lemma ireach_size : Nat.ltb 2000 (List.length ireach) = true. Proof. vm_compute. reflexivity. Qed.

(* ---------- the big-step LTS is one of the schedules ---------- *)
Definition embed (s : mst) : ist := mkI (norm s) (PBlocked (ppc s)) TNone TNone false false false (spa s) false (fac s) false.
Definition slot_of (l : label) : slot := match l with Ext _ => SE | UserReset | SetSpaInfo => SU | _ => SP end.
Definition suspended (s : ist) (sl : slot) : bool :=
  match sl with SP => match tp s with PSusp _ => true | _ => false end
              | SE => match te s with TSusp _ => true | _ => false end
              | SU => match tu s with TSusp _ => true | _ => false end end.
(* start the task, then resume it (and nothing else) until it is no longer inside a handler *)
Fixpoint finish (fuel : nat) (sl : slot) (x : ist * list delivery) : option (ist * list delivery) :=
  match fuel with
  | O => None
  | S f => if suspended (fst x) sl then
             match istep (fst x) (LResume sl) with Some (s', d) => finish f sl (s', snd x ++ d) | None => None end
           else Some x
  end.
Definition to_completion (s : ist) (l : label) : option (ist * list delivery) :=
  match istep s (LBig l) with Some x => finish 12 (slot_of l) x | None => None end.
Definition del_eqb (a b : delivery) : bool :=
  let '(e1, s1, f1, o1) := a in let '(e2, s2, f2, o2) := b in event_eqb e1 e2 && sstate_eqb s1 s2 && Bool.eqb f1 f2 && oss_eqb o1 o2.
Fixpoint dels_eqb (a b : list delivery) : bool :=
  match a, b with [] , [] => true | x :: r, y :: s => del_eqb x y && dels_eqb r s | _, _ => false end.
Definition refines_at (s : mst) (l : label) : bool :=
  match step s l, to_completion (embed s) l with
  | Some (s', d), Some (i', d') => ist_eqb i' (embed s') && dels_eqb d d'
  | None, None => true
  | _, _ => false
  end.
Local Transparent istep.
Lemma big_step_refines : forallb (fun s => forallb (refines_at s) (Ext SPA_MAN_ENTER :: all_labels)) reach = true.
Proof. vm_compute. reflexivity. Qed.
Global Opaque istep.

(* ---------- the schedule of finding K10 (repaired in /repo: async_reset clears the descriptors again when it finishes) ---------- *)
(* the pump's own reset (after a handshake step raised) and a user reset are both suspended in the client's handler for
   RUNNING_SPA_DISCONNECTED; the pump is resumed first, finishes, discovers again; the user's reset then returns.  Before the
   repair it returned with the new descriptors in place - state IDLE, descriptors present, which no branch of the pump leaves;
   now it returns clean and the pump starts again *)
Definition w_k10 : list ilabel :=
  [LBig Pump; LResume SP; LBig (LocOutcome false false); LResume SP; LBig Pump; LResume SP; LBig (LocOutcome true false);
   LResume SP; LResume SP; LResume SP; LBig (ConnOutcome CRaise); LResume SP; LBig UserReset; LResume SP; LBig Pump; LResume SP;
   LBig (LocOutcome true false); LResume SU; LResume SP].
Definition stuck_idle (s : ist) : bool :=
  match tp s, te s, tu s with
  | PBlocked PIdle, TNone, TNone => sstate_eqb (st (gs s)) IDLE && desc (gs s) &&
      match istepS s (LBig Pump) with Some s' => ist_eqb s s' | None => false end
  | _, _, _ => false end.
Local Transparent istep.
Lemma k10_schedule_now_clean : option_map (fun s => (v_reset_dirty s, stuck_idle s, desc (gs s))) (irun (ientered true) w_k10) = Some (false, false, false).
Proof. vm_compute. reflexivity. Qed.
Lemma no_stuck_idle : forallb (fun s => negb (stuck_idle s)) ireach = true.
Proof. vm_compute. reflexivity. Qed.
Global Opaque istep.

(* ---------- endpoints under interleaving: a spa object can be dropped without being disconnected (finding K11) ---------- *)
(* (a) a user reset is suspended in its RUNNING_SPA_DISCONNECTED handler; the pump finishes its own reset, discovers and creates the
       next spa object; the user's reset resumes, completes the disconnect of the OLD object and then clears self._spa - the reference
       to the NEW object, whose endpoint nobody closes;
   (b) a user reset runs to its end while the pump is suspended in its CONNECTION_STARTED handler (no spa yet: nothing to disconnect,
       state IDLE); the pump creates the spa, the handshake ends without SPA_READY ('cannot find spa pack'): state still IDLE, a spa
       in place; the pump discovers again and async_connect_to_spa overwrites self._spa with a new object *)
Definition w_k11_stale_reset : list ilabel :=
  [LBig Pump; LResume SP; LBig (LocOutcome false false); LResume SP; LBig Pump; LResume SP; LBig (LocOutcome true false);
   LResume SP; LResume SP; LResume SP; LBig (ConnOutcome CRaise); LResume SP; LBig UserReset; LResume SP;
   LBig Pump; LResume SP; LBig (LocOutcome false false); LResume SP; LBig Pump; LResume SP; LBig (LocOutcome true false);
   LResume SP; LResume SP; LResume SP; LResume SU].
Definition w_k11_overwrite : list ilabel :=
  [LBig Pump; LResume SP; LBig (LocOutcome false false); LResume SP; LBig Pump; LResume SP; LBig (LocOutcome true false);
   LResume SP; LResume SP; LBig UserReset; LResume SP; LBig (ConnOutcome CNext); LResume SP; LBig (ConnOutcome CNext); LResume SP; LResume SP;
   LBig (ConnOutcome (CCannotFind 0)); LResume SP; LResume SP; LBig Pump; LResume SP; LBig (LocOutcome false false); LResume SP;
   LBig Pump; LResume SP; LBig (LocOutcome true false); LResume SP; LResume SP; LResume SP].
Local Transparent istep.
Lemma k11_witnesses :
  option_map v_leak (irun (ientered true) w_k11_stale_reset) = Some true /\
  option_map v_leak (irun (ientered true) (removelast w_k11_stale_reset)) = Some false /\
  option_map v_leak (irun (ientered true) w_k11_overwrite) = Some true /\
  option_map v_leak (irun (ientered true) (removelast w_k11_overwrite)) = Some false.
Proof. vm_compute. repeat split; reflexivity. Qed.
(* without interleaving there is no such leak: on every state of the big-step LTS, the task a label starts, resumed to its end *)
Lemma big_step_never_drops_a_spa :
  forallb (fun s => forallb (fun l => match to_completion (embed s) l with Some (i, _) => negb (v_leak i) | None => true end) (Ext SPA_MAN_ENTER :: all_labels)) reach = true.
Proof. vm_compute. reflexivity. Qed.
(* whenever nothing is inside the manager and no object was dropped, the endpoint ledger agrees with the reference: open iff a spa is referenced *)
Definition ii_ledger (s : ist) : bool :=
  match tp s, te s, tu s with
  | PBlocked _, TNone, TNone => v_leak s || Bool.eqb (spa (gs s)) (cur_open s)
  | _, _, _ => true end.
Lemma all_ii_ledger : forallb ii_ledger ireach = true. Proof. vm_compute. reflexivity. Qed.
Global Opaque istep.
