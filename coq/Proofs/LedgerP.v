(* C10: the ledger-reachable set is closed under every label (incl. Exit); every open endpoint / live task group is accounted for. *)
From Coq Require Import List Bool Arith.
Require Import GV.Gen.LifecycleRules GV.Gen.LedgerFacts GV.Model.Lifecycle GV.Proofs.LifecycleP GV.Model.Ledger.
Import ListNotations.

Local Transparent step handle reset.
Definition closedLb : bool :=
  forallb (fun x => forallb (fun l => match lstep x l with Some y => memL y reachL | None => true end) (Lab (Ext SPA_MAN_ENTER) :: llabels)) reachL.
Lemma reachL_closed : closedLb = true.
Proof. vm_compute. reflexivity. Qed.
Lemma startL_in : forallb (fun x => memL x reachL) startL = true.
Proof. vm_compute. reflexivity. Qed.
Lemma all_accounted : forallb accounted reachL = true.
Proof. vm_compute. reflexivity. Qed.
Lemma all_bounded : forallb bounded reachL = true.
Proof. vm_compute. reflexivity. Qed.
Definition reset_releases (x : mst * res) : bool :=
  match lstep x (Lab UserReset) with
  | Some (s', r') => negb (spa s') && negb (fac s') && Nat.eqb (spa_tasks r') 0 && Nat.eqb (fac_tasks r') 0 && Nat.eqb (eps r') (b2n (in_loc s'))
  | None => exited (snd x)
  end.
Definition exit_releases (x : mst * res) : bool :=
  match lstep x Exit with
  | Some (s', r') => exited r' && Nat.eqb (eps r') 0 && Nat.eqb (loc_tasks r') 0 && Nat.eqb (spa_tasks r') 0 && Nat.eqb (fac_tasks r') 0
  | None => exited (snd x)
  end.
Lemma all_reset_releases : forallb reset_releases reachL = true.
Proof. vm_compute. reflexivity. Qed.
Lemma all_exit_releases : forallb exit_releases reachL = true.
Proof. vm_compute. reflexivity. Qed.
Lemma no_ext_without_spa s e : spa s = false -> stepS s (Ext e) = None.
Proof. intros H. unfold stepS. cbn [step]. rewrite H. reflexivity. Qed.
Global Opaque step handle reset.

Lemma res_eqb_eq a b : res_eqb a b = true <-> a = b.
Proof.
  split.
  - unfold res_eqb. intros H. repeat (match type of H with (_ && _) = true => apply andb_prop in H; let K := fresh "K" in destruct H as [H K] end).
    apply Nat.eqb_eq in H, K2, K1, K0. apply Bool.eqb_prop in K. destruct a, b; cbn in *; subst; reflexivity.
  - intros ->. unfold res_eqb. rewrite !Nat.eqb_refl, Bool.eqb_reflx. reflexivity.
Qed.
Lemma pair_eqb_eq a b : pair_eqb a b = true <-> a = b.
Proof.
  unfold pair_eqb. split.
  - intros H. apply andb_prop in H. destruct H as [H1 H2]. apply mst_eqb_eq in H1. apply res_eqb_eq in H2. destruct a, b; cbn in *; subst; reflexivity.
  - intros ->. rewrite (proj2 (mst_eqb_eq _ _) eq_refl), (proj2 (res_eqb_eq _ _) eq_refl). reflexivity.
Qed.

Definition canonL (l : llabel) : llabel := match l with Lab x => Lab (canon_label x) | Exit => Exit | Late e => Late e end.
Lemma all_events_complete e : In e all_events.
Proof. destruct e; unfold all_events; repeat (first [left; reflexivity | right]). Qed.
Lemma canonL_in l : In (canonL l) (Lab (Ext SPA_MAN_ENTER) :: llabels).
Proof.
  destruct l as [x| |e]; cbn [canonL].
  - destruct (canon_in x) as [H|H]; [left; now rewrite H|right; right; apply in_or_app; right; apply in_map; exact H].
  - right. left. reflexivity.
  - right. right. apply in_or_app. left. apply in_map. apply all_events_complete.
Qed.

(* the ledger step only looks at the successor state of the inner step, which canonical labels preserve *)
Lemma step_canon_full s l : option_map fst (step s l) = option_map fst (step s (canon_label l)).
Proof. exact (step_canon s l). Qed.

Lemma lstep_canon x l : lstep x l = lstep x (canonL l).
Proof.
  destruct l as [l| |e]; [|reflexivity|reflexivity]. destruct x as [s r]. unfold lstep, canonL. destruct (exited r); [reflexivity|].
  pose proof (step_canon_full s l) as E.
  destruct (step s l) as [[s1 d1]|] eqn:E1; destruct (step s (canon_label l)) as [[s2 d2]|] eqn:E2; cbn in E; try discriminate; [|reflexivity].
  injection E as <-.
  assert (K : match l with LocOutcome _ raises => Some raises | _ => None end = match canon_label l with LocOutcome _ raises => Some raises | _ => None end).
  { destruct l as [|f rr|o|e| | |]; cbn [canon_label]; try reflexivity.
    - destruct rr; reflexivity.
    - destruct o as [| |w|]; reflexivity.
    - destruct (existsb (event_eqb e) ext_events); reflexivity. }
  destruct l as [|f rr|o|e| | |]; cbn [canon_label] in *; try reflexivity.
  - destruct rr; reflexivity.
  - destruct o as [| |w|]; reflexivity.
  - destruct (existsb (event_eqb e) ext_events); reflexivity.
Qed.

Fixpoint runL (x : mst * res) (ls : list llabel) : option (mst * res) :=
  match ls with [] => Some x | l :: r => match lstep x l with Some y => runL y r | None => None end end.

Theorem reachL_complete c ls y : runL (entered c, r0) ls = Some y -> In y reachL.
Proof.
  assert (G : forall ks x, In x reachL -> forall y0, runL x ks = Some y0 -> In y0 reachL).
  { clear. induction ks as [|l r IH]; intros x Hx y0 H; cbn [runL] in H; [inversion H; subst; exact Hx|].
    destruct (lstep x l) as [x2|] eqn:E; [|discriminate]. apply (IH x2); auto.
    pose proof reachL_closed as C. unfold closedLb in C. rewrite forallb_forall in C. specialize (C x Hx). rewrite forallb_forall in C.
    specialize (C (canonL l) (canonL_in l)). rewrite <- lstep_canon, E in C.
    unfold memL in C. apply existsb_exists in C. destruct C as [z [Hz Ez]]. apply pair_eqb_eq in Ez. subst. exact Hz. }
  intros H. apply (G ls (entered c, r0)); auto.
  pose proof startL_in as I. rewrite forallb_forall in I.
  assert (Hin : In (entered c, r0) startL) by (destruct c; [left|right; left]; reflexivity).
  specialize (I _ Hin). unfold memL in I. apply existsb_exists in I. destruct I as [z [Hz Ez]]. apply pair_eqb_eq in Ez. subst. exact Hz.
Qed.

Theorem ledger_accounted c ls y : runL (entered c, r0) ls = Some y -> accounted y = true.
Proof. intros R. pose proof all_accounted as A. rewrite forallb_forall in A. apply A. eapply reachL_complete; eauto. Qed.
Theorem ledger_bounded c ls y : runL (entered c, r0) ls = Some y -> bounded y = true.
Proof. intros R. pose proof all_bounded as A. rewrite forallb_forall in A. apply A. eapply reachL_complete; eauto. Qed.

Theorem reset_releases_everywhere c ls x : runL (entered c, r0) ls = Some x -> reset_releases x = true.
Proof. intros R. pose proof all_reset_releases as A. rewrite forallb_forall in A. apply A. eapply reachL_complete; eauto. Qed.
Theorem exit_releases_everywhere c ls x : runL (entered c, r0) ls = Some x -> exit_releases x = true.
Proof. intros R. pose proof all_exit_releases as A. rewrite forallb_forall in A. apply A. eapply reachL_complete; eauto. Qed.

(* late events of an abandoned connection change nothing: not the lifecycle state, not the ledger *)
Definition late_inert (x : mst * res) : bool :=
  exited (snd x) || forallb (fun e => match lstep x (Late e) with Some y => pair_eqb x y | None => false end) all_events.
Lemma all_late_inert : forallb late_inert reachL = true.
Proof. Local Transparent step handle reset. vm_compute. reflexivity. Qed.
Global Opaque step handle reset.
Theorem late_events_inert c ls x : runL (entered c, r0) ls = Some x -> late_inert x = true.
Proof. intros R. pose proof all_late_inert as A. rewrite forallb_forall in A. apply A. eapply reachL_complete; eauto. Qed.
