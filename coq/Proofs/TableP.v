(* Bridge from the table obligation (item_ok, checked by vm_compute on every regenerated
   module) to the hypotheses of the general accessor theorems. *)
From Coq Require Import ZArith List Bool String Lia.
Require Import GV.Lib.Bytes GV.Lib.Bits GV.Model.Accessor GV.Model.TableWf GV.Proofs.AccessorP.
Import ListNotations.
Open Scope Z_scope.

Lemma mask_width_ones m w : mask_width m = Some w -> m = Z.ones w /\ 0 < w <= 4.
Proof. unfold mask_width.
  destruct (m =? 1) eqn:E1; [apply Z.eqb_eq in E1; intros H; inversion H; subst; split; [reflexivity|lia]|].
  destruct (m =? 3) eqn:E2; [apply Z.eqb_eq in E2; intros H; inversion H; subst; split; [reflexivity|lia]|].
  destruct (m =? 7) eqn:E3; [apply Z.eqb_eq in E3; intros H; inversion H; subst; split; [reflexivity|lia]|].
  destruct (m =? 15) eqn:E4; [apply Z.eqb_eq in E4; intros H; inversion H; subst; split; [reflexivity|lia]|].
  discriminate. Qed.

Lemma oz_eqb_eq a b : oz_eqb a b = true -> a = b.
Proof. destruct a, b; cbn; try discriminate; auto. intros H. apply Z.eqb_eq in H. now subst. Qed.

Lemma shape_eqb_eq a b : shape_eqb a b = true -> a = b.
Proof. unfold shape_eqb. intros H. apply andb_prop in H. destruct H as [H H3]. apply andb_prop in H. destruct H as [H1 H2].
  apply Z.eqb_eq in H1. apply Bool.eqb_prop in H2. apply oz_eqb_eq in H3. destruct a, b; cbn in *; subst; reflexivity. Qed.

Record item_facts (t : titem) : Prop := {
  if_shape : derive (t_decl t) = t_shape t;
  if_pos : 0 <= d_pos (t_decl t);
  if_in : d_pos (t_decl t) + s_len (t_shape t) <= block_size;
  if_len : s_len (t_shape t) = if s_two (t_shape t) then 2 else 1;
  if_bits : forall bp, d_bitpos (t_decl t) = Some bp ->
      exists w, s_mask (t_shape t) = Some (Z.ones w) /\ 0 <= bp /\ 0 < w /\ bp + w <= 8 * s_len (t_shape t);
  if_enum : d_type (t_decl t) = TEnum -> exists ls, d_items (t_decl t) = Some ls /\
      Z.of_nat (List.length ls) <= match d_bitpos (t_decl t), s_mask (t_shape t) with
                                   | Some _, Some m => m + 1 | _, _ => if s_two (t_shape t) then 65536 else 256 end
}.

Lemma item_ok_facts t : item_ok t = true -> item_facts t.
Proof.
  unfold item_ok. intros H.
  repeat (match type of H with (_ && _) = true => apply andb_prop in H; let H' := fresh "K" in destruct H as [H H'] end).
  apply shape_eqb_eq in H. apply Z.leb_le in K3. apply Z.leb_le in K2.
  constructor; auto.
  - destruct (s_two (t_shape t)); apply orb_prop in K1; destruct K1 as [K1|K1]; apply andb_prop in K1; destruct K1 as [A B];
      apply Z.eqb_eq in A; try discriminate; auto.
  - intros bp Hb. rewrite Hb in K0. destruct (s_mask (t_shape t)) as [m|]; [|discriminate].
    destruct (mask_width m) as [w|] eqn:Em; [|discriminate]. destruct (mask_width_ones _ _ Em) as [-> Hw].
    apply andb_prop in K0. destruct K0 as [A B]. apply Z.leb_le in A. apply Z.leb_le in B. exists w. repeat split; auto; lia.
  - intros Ht. rewrite Ht in K. destruct (d_items (t_decl t)) as [ls|]; [|discriminate]. exists ls. split; auto.
    apply Z.leb_le in K. exact K.
Qed.

Lemma item_ok_wf t blk : item_ok t = true -> List.length blk = 1024%nat -> bytes_ok blk = true ->
  wf (acc_of (t_decl t)) blk.
Proof.
  intros Hok Hl Hb. destruct (item_ok_facts t Hok) as [Hs Hp Hi Hln Hbits _].
  unfold acc_of. rewrite Hs. constructor; cbn; auto.
  - rewrite Hl. unfold block_size in Hi. lia.
Qed.

Lemma module_item_ok m t : module_ok m = true -> In t (m_items m) ->
  is_known_bad (m_file m) (d_tag (t_decl t)) = false -> item_ok t = true.
Proof.
  unfold module_ok. intros H Hin Hk. apply andb_prop in H. destruct H as [H _]. apply andb_prop in H. destruct H as [H _].
  rewrite forallb_forall in H. specialize (H t Hin). rewrite Hk, orb_false_r in H. exact H.
Qed.
