(* C16: the sequence counters, proved about the bodies translated from the
   Python AST (Gen/Counter.v), for every interleaving of the two request kinds. *)
From Coq Require Import ZArith List Bool Lia ZifyBool.
Require Import GV.Gen.Counter.
Import ListNotations.
Open Scope Z_scope.
Ltac Zify.zify_post_hook ::= Z.to_euclidean_division_equations.

(* specification: value of each counter after n requests of its kind *)
Definition spec_p (n : Z) : Z := if n =? 0 then 0 else (n - 1) mod 191 + 1.
Definition spec_c (m : Z) : Z := if m =? 0 then 191 else 192 + (m - 1) mod 64.

(* run a call list, collecting (kind, value) *)
Fixpoint run (next : bool -> Z * Z -> (Z * Z) * Z) (s : Z * Z) (calls : list bool) : (Z * Z) * list (bool * Z) :=
  match calls with
  | [] => (s, [])
  | b :: r => let '(s1, v) := next b s in let '(s2, out) := run next s1 r in (s2, (b, v) :: out)
  end.

Definition count (b : bool) (l : list bool) : Z := Z.of_nat (length (filter (Bool.eqb b) l)).

Section Generic.
  Variable next : bool -> Z * Z -> (Z * Z) * Z.
  Hypothesis next_p : forall n m, 0 <= n -> 0 <= m ->
    next false (spec_p n, spec_c m) = ((spec_p (n + 1), spec_c m), spec_p (n + 1)).
  Hypothesis next_c : forall n m, 0 <= n -> 0 <= m ->
    next true (spec_p n, spec_c m) = ((spec_p n, spec_c (m + 1)), spec_c (m + 1)).

  Lemma count_nonneg b l : 0 <= count b l. Proof. unfold count. lia. Qed.

  Lemma run_spec calls : forall n m, 0 <= n -> 0 <= m ->
    fst (run next (spec_p n, spec_c m) calls) = (spec_p (n + count false calls), spec_c (m + count true calls)) /\
    forall i b v, nth_error (snd (run next (spec_p n, spec_c m) calls)) i = Some (b, v) ->
      nth_error calls i = Some b /\
      v = if b then spec_c (m + count true (firstn (S i) calls)) else spec_p (n + count false (firstn (S i) calls)).
  Proof.
    induction calls as [|b r IH]; intros n m Hn Hm.
    - cbn [run fst snd]. unfold count; cbn. rewrite !Z.add_0_r. split; [reflexivity|].
      intros i b v H. destruct i; discriminate.
    - cbn [run]. destruct b.
      + rewrite next_c by assumption.
        destruct (run next (spec_p n, spec_c (m + 1)) r) as [s2 out] eqn:E.
        destruct (IH n (m + 1) Hn ltac:(lia)) as [IH1 IH2]. rewrite E in IH1, IH2. cbn [fst snd] in *.
        assert (Hc1 : count true (true :: r) = 1 + count true r) by (unfold count; cbn [filter Bool.eqb length]; lia).
        assert (Hc2 : count false (true :: r) = count false r) by (unfold count; cbn [filter Bool.eqb length]; lia).
        split.
        * rewrite IH1, Hc1, Hc2. f_equal. f_equal. lia.
        * intros i b v H. destruct i as [|i].
          -- cbn in H. inversion H; subst. split; [reflexivity|].
             cbn [firstn]. unfold count; cbn. reflexivity.
          -- cbn [nth_error] in H. destruct (IH2 i b v H) as [A B]. split; [exact A|].
             change (firstn (S (S i)) (true :: r)) with (true :: firstn (S i) r).
             assert (Hd1 : count true (true :: firstn (S i) r) = 1 + count true (firstn (S i) r)) by (unfold count; cbn [filter Bool.eqb length]; lia).
             assert (Hd2 : count false (true :: firstn (S i) r) = count false (firstn (S i) r)) by (unfold count; cbn [filter Bool.eqb length]; lia).
             rewrite Hd1, Hd2. rewrite B. destruct b; f_equal; lia.
      + rewrite next_p by assumption.
        destruct (run next (spec_p (n + 1), spec_c m) r) as [s2 out] eqn:E.
        destruct (IH (n + 1) m ltac:(lia) Hm) as [IH1 IH2]. rewrite E in IH1, IH2. cbn [fst snd] in *.
        assert (Hc1 : count false (false :: r) = 1 + count false r) by (unfold count; cbn [filter Bool.eqb length]; lia).
        assert (Hc2 : count true (false :: r) = count true r) by (unfold count; cbn [filter Bool.eqb length]; lia).
        split.
        * rewrite IH1, Hc1, Hc2. f_equal. f_equal. lia.
        * intros i b v H. destruct i as [|i].
          -- cbn in H. inversion H; subst. split; [reflexivity|].
             cbn [firstn]. unfold count; cbn. reflexivity.
          -- cbn [nth_error] in H. destruct (IH2 i b v H) as [A B]. split; [exact A|].
             change (firstn (S (S i)) (false :: r)) with (false :: firstn (S i) r).
             assert (Hd1 : count false (false :: firstn (S i) r) = 1 + count false (firstn (S i) r)) by (unfold count; cbn [filter Bool.eqb length]; lia).
             assert (Hd2 : count true (false :: firstn (S i) r) = count true (firstn (S i) r)) by (unfold count; cbn [filter Bool.eqb length]; lia).
             rewrite Hd1, Hd2. rewrite B. destruct b; f_equal; lia.
  Qed.
End Generic.

Lemma spec_p_range k : 1 <= k -> 1 <= spec_p k <= 191.
Proof. intros H. unfold spec_p. destruct (k =? 0) eqn:E; lia. Qed.
Lemma spec_c_range k : 1 <= k -> 192 <= spec_c k <= 255.
Proof. intros H. unfold spec_c. destruct (k =? 0) eqn:E; lia. Qed.
Lemma spec_p_succ k : 1 <= k -> spec_p (k + 1) = if spec_p k =? 191 then 1 else spec_p k + 1.
Proof. intros H. unfold spec_p. destruct (k =? 0) eqn:E; destruct (k + 1 =? 0) eqn:E2; try lia.
  destruct ((k - 1) mod 191 + 1 =? 191) eqn:E3; lia. Qed.
Lemma spec_c_succ k : 1 <= k -> spec_c (k + 1) = if spec_c k =? 255 then 192 else spec_c k + 1.
Proof. intros H. unfold spec_c. destruct (k =? 0) eqn:E; destruct (k + 1 =? 0) eqn:E2; try lia.
  destruct (192 + (k - 1) mod 64 =? 255) eqn:E3; lia. Qed.

Lemma async_next_p n m : 0 <= n -> 0 <= m ->
  async_next false (spec_p n, spec_c m) = ((spec_p (n + 1), spec_c m), spec_p (n + 1)).
Proof. intros Hn Hm. unfold async_next, spec_p.
  destruct (n =? 0) eqn:E1; destruct (n + 1 =? 0) eqn:E2; try lia.
  - replace n with 0 by lia. reflexivity.
  - destruct ((n - 1) mod 191 + 1 =? 191) eqn:E3; (f_equal; [f_equal|]; lia). Qed.
Lemma async_next_c n m : 0 <= n -> 0 <= m ->
  async_next true (spec_p n, spec_c m) = ((spec_p n, spec_c (m + 1)), spec_c (m + 1)).
Proof. intros Hn Hm. unfold async_next, spec_c.
  destruct (m =? 0) eqn:E1; destruct (m + 1 =? 0) eqn:E2; try lia.
  - replace m with 0 by lia. reflexivity.
  - destruct (192 + (m - 1) mod 64 =? 255) eqn:E3; (f_equal; [f_equal|]; lia). Qed.
Lemma sync_next_p n m : 0 <= n -> 0 <= m ->
  sync_next false (spec_p n, spec_c m) = ((spec_p (n + 1), spec_c m), spec_p (n + 1)).
Proof. intros Hn Hm. unfold sync_next, spec_p.
  destruct (n =? 0) eqn:E1; destruct (n + 1 =? 0) eqn:E2; try lia.
  - replace n with 0 by lia. reflexivity.
  - destruct ((n - 1) mod 191 + 1 =? 191) eqn:E3; (f_equal; [f_equal|]; lia). Qed.
Lemma sync_next_c n m : 0 <= n -> 0 <= m ->
  sync_next true (spec_p n, spec_c m) = ((spec_p n, spec_c (m + 1)), spec_c (m + 1)).
Proof. intros Hn Hm. unfold sync_next, spec_c.
  destruct (m =? 0) eqn:E1; destruct (m + 1 =? 0) eqn:E2; try lia.
  - replace m with 0 by lia. reflexivity.
  - destruct (192 + (m - 1) mod 64 =? 255) eqn:E3; (f_equal; [f_equal|]; lia). Qed.

Lemma init_is_spec : async_init = (spec_p 0, spec_c 0) /\ sync_init = (spec_p 0, spec_c 0).
Proof. split; reflexivity. Qed.

(* the k-th value of each kind, whatever the interleaving *)
Definition kth_ok (next : bool -> Z * Z -> (Z * Z) * Z) (init : Z * Z) : Prop :=
  forall calls i b v, nth_error (snd (run next init calls)) i = Some (b, v) ->
    nth_error calls i = Some b /\
    let k := count b (firstn (S i) calls) in
    1 <= k /\ v = if b then 192 + (k - 1) mod 64 else (k - 1) mod 191 + 1.

Lemma count_pos b calls i : nth_error calls i = Some b -> 1 <= count b (firstn (S i) calls).
Proof. revert i. induction calls as [|a r IH]; intros i H; destruct i; try discriminate.
  - cbn in H. inversion H; subst. unfold count. cbn [firstn filter]. rewrite Bool.eqb_reflx. cbn [length]. lia.
  - cbn [nth_error] in H. specialize (IH i H). change (firstn (S (S i)) (a :: r)) with (a :: firstn (S i) r).
    unfold count in *. cbn [filter]. destruct (Bool.eqb b a); cbn [length]; lia. Qed.

Lemma kth_generic next init :
  init = (spec_p 0, spec_c 0) ->
  (forall n m, 0 <= n -> 0 <= m -> next false (spec_p n, spec_c m) = ((spec_p (n + 1), spec_c m), spec_p (n + 1))) ->
  (forall n m, 0 <= n -> 0 <= m -> next true (spec_p n, spec_c m) = ((spec_p n, spec_c (m + 1)), spec_c (m + 1))) ->
  kth_ok next init.
Proof.
  intros Hi Hp Hc calls i b v H. subst init.
  destruct (run_spec next Hp Hc calls 0 0 ltac:(lia) ltac:(lia)) as [_ R].
  destruct (R i b v H) as [A B]. split; [exact A|].
  pose proof (count_pos b calls i A) as Hk. cbv zeta. split; [exact Hk|].
  rewrite B. rewrite !Z.add_0_l. unfold spec_c, spec_p.
  destruct b; destruct (count _ _ =? 0) eqn:E; try lia; reflexivity.
Qed.

Lemma async_kth : kth_ok async_next async_init.
Proof. apply kth_generic; [apply init_is_spec | exact async_next_p | exact async_next_c]. Qed.
Lemma sync_kth : kth_ok sync_next sync_init.
Proof. apply kth_generic; [apply init_is_spec | exact sync_next_p | exact sync_next_c]. Qed.

Lemma ranges next init : kth_ok next init ->
  forall calls i b v, nth_error (snd (run next init calls)) i = Some (b, v) ->
    if b then 192 <= v <= 255 else 1 <= v <= 191.
Proof. intros K calls i b v H. destruct (K calls i b v H) as [_ [Hk Hv]]. cbv zeta in *. destruct b; lia. Qed.

(* equal on every reachable state: the two classes hand out identical values *)
Lemma both_equal calls : snd (run async_next async_init calls) = snd (run sync_next sync_init calls).
Proof.
  assert (G : forall s, snd (run async_next s calls) = snd (run sync_next s calls)).
  { induction calls as [|b r IH]; intros s; [reflexivity|]. cbn [run].
    assert (E : async_next b s = sync_next b s) by (destruct s, b; reflexivity). rewrite E.
    destruct (sync_next b s) as [s1 v]. specialize (IH s1).
    destruct (run async_next s1 r), (run sync_next s1 r). cbn [snd] in *. now rewrite IH. }
  apply G.
Qed.
