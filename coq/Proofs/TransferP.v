(* C01: all-or-nothing assembly under any fault pattern; the simulator's chain is well formed and covers the request. *)
From Coq Require Import ZArith List Bool Lia.
Require Import GV.Lib.Bytes GV.Model.Transfer.
Import ListNotations.
Open Scope Z_scope.

(* a well-formed chain: indices 0..n-1, next = successor, last next = 0 *)
Definition wf_chain (c : list seg) : Prop :=
  c <> [] /\ forall i, (i < List.length c)%nat ->
     idx (nth i c (mkSeg 0 0 [])) = Z.of_nat i /\
     nxt (nth i c (mkSeg 0 0 [])) = if Nat.eqb (S i) (List.length c) then 0 else Z.of_nat (S i).
(* every delivered segment belongs to the request's chain: this IS "any pattern of lost, duplicated,
   re-ordered, delayed datagrams, from any number of copies of the request" *)
Definition from_chain (c : list seg) (e : cev) : Prop := match e with Seg s => In s c | Timeout => True end.

Lemma firstn_S_map (chain : list seg) k : (k < List.length chain)%nat ->
  map dat (firstn k chain) ++ [dat (nth k chain (mkSeg 0 0 []))] = map dat (firstn (S k) chain).
Proof. revert k. induction chain as [|a l IH]; simpl; intros k Hk; [lia|].
  destruct k; simpl; auto. f_equal. apply IH. lia. Qed.

Section Safety.
  Variables (chain : list seg) (b0 : list Z) (start retries : nat).
  Hypothesis Hwf : wf_chain chain.
  Let d := mkSeg 0 0 [].
  Let target := splice b0 start (concat (map dat chain)).

  Lemma in_chain_idx s : In s chain -> exists i, (i < List.length chain)%nat /\ nth i chain d = s.
  Proof. intros H. destruct (In_nth _ _ d H) as [i [Hi He]]. eauto. Qed.

  (* what the accumulator may look like while running *)
  Definition Acc (c : cst) : Prop :=
    exists k, (k < List.length chain)%nat /\ expected c = Z.of_nat k /\ acc c = map dat (firstn k chain).

  Lemma acc_zero c : expected c = 0 -> acc c = [] -> Acc c.
  Proof. intros E A. exists 0%nat. destruct Hwf as [Hne _]. repeat split; auto.
    destruct chain; [contradiction|simpl; lia]. Qed.

  (* the in-sequence branch, shared by both clients *)
  Lemma seg_in_sequence c s : Acc c -> In s chain -> expected c = idx s ->
    (nxt s = 0 /\ acc c ++ [dat s] = map dat chain) \/
    (nxt s <> 0 /\ exists k, (k < List.length chain)%nat /\ nxt s = Z.of_nat k /\ acc c ++ [dat s] = map dat (firstn k chain)).
  Proof.
    intros [k [Hk [Hx Ha]]] Hin E. destruct (in_chain_idx s Hin) as [i [Hi Hn]].
    destruct Hwf as [_ Hw]. destruct (Hw i Hi) as [Hid Hnx]. fold d in Hid, Hnx. rewrite Hn in Hid, Hnx.
    assert (i = k) by lia. subst i.
    assert (Hacc : acc c ++ [dat s] = map dat (firstn (S k) chain)) by (rewrite Ha, <- Hn; apply firstn_S_map; exact Hk).
    destruct (Nat.eqb (S k) (List.length chain)) eqn:El.
    - left. apply Nat.eqb_eq in El. split; [exact Hnx|]. rewrite Hacc, El, firstn_all. reflexivity.
    - right. apply Nat.eqb_neq in El. split; [lia|]. exists (S k). repeat split; auto; lia.
  Qed.

  (* ---------------- async ---------------- *)
  Definition Inv (c : cst) : Prop :=
    (sends c + left c <= S retries)%nat /\ (sends c <= retries)%nat /\
    match st c with
    | Running => blk c = b0 /\ (0 < left c)%nat /\ Acc c
    | Installed => blk c = target
    | Failed => blk c = b0
    end.

  Lemma attempt_inv l sent : (sent + l <= retries)%nat -> Inv (attempt l sent b0).
  Proof.
    intros H. destruct l; unfold Inv; simpl.
    - repeat split; lia.
    - repeat split; try lia. apply acc_zero; reflexivity.
  Qed.

  Lemma step_inv c e : Inv c -> from_chain chain e -> Inv (client_step start c e).
  Proof.
    intros HI He. unfold client_step. destruct (st c) eqn:Est; auto.
    destruct HI as [H1 [H2 HI]]. rewrite Est in HI. destruct HI as [Hb [Hl HA]].
    assert (Hretry : Inv (retry c)) by (unfold retry; rewrite Hb; apply attempt_inv; lia).
    destruct e as [s|]; auto.
    destruct (expected c =? idx s) eqn:E.
    - apply Z.eqb_eq in E. destruct (seg_in_sequence c s HA He E) as [[Hz Hacc]|[Hnz [k [Hk [Hn Hacc]]]]].
      + rewrite Hz. simpl. unfold Inv; simpl. repeat split; try lia. rewrite Hacc, Hb. reflexivity.
      + destruct (nxt s =? 0) eqn:Ez; [apply Z.eqb_eq in Ez; contradiction|].
        unfold Inv; simpl. repeat split; try lia; auto. exists k. auto.
    - destruct (nxt s =? 0); auto. unfold Inv. rewrite Est. repeat split; auto.
  Qed.

  Theorem get_safe es : Forall (from_chain chain) es -> Inv (run start (init retries b0) es).
  Proof.
    intros HF. unfold run. assert (H0 : Inv (init retries b0)) by (apply attempt_inv; lia).
    revert H0. generalize (init retries b0). induction HF as [|e es He HF IH]; simpl; intros c Hc; auto.
    apply IH. now apply step_inv.
  Qed.

  Corollary all_or_nothing es : Forall (from_chain chain) es ->
    let r := run start (init retries b0) es in
    (sends r <= retries)%nat /\ (st r = Installed -> blk r = target) /\ (st r <> Installed -> blk r = b0).
  Proof. intros HF r. pose proof (get_safe es HF) as [_ [H2 H3]]. fold r in H2, H3. split; auto.
    destruct (st r); split; intros; try congruence; tauto. Qed.

  (* fault-free: the chain delivered once, in order, installs after exactly one request *)
  Definition prefix_state (c r : cst) (n : nat) : Prop :=
    if Nat.eqb n (List.length chain) then st r = Installed /\ blk r = splice (blk c) start (concat (map dat chain)) /\ sends r = sends c
    else st r = Running /\ blk r = blk c /\ sends r = sends c /\ left r = left c /\ expected r = Z.of_nat n /\ acc r = map dat (firstn n chain).

  Lemma firstn_snoc (n : nat) : (S n <= List.length chain)%nat -> firstn (S n) chain = firstn n chain ++ [nth n chain d].
  Proof. clear Hwf. revert n. induction chain as [|a l IHl]; simpl; intros n Hn; [lia|]. destruct n; simpl; [reflexivity|].
    f_equal. apply IHl. lia. Qed.

  Lemma in_order_prefix : forall n c, (n <= List.length chain)%nat -> st c = Running -> acc c = [] -> expected c = 0 ->
    prefix_state c (run start c (map Seg (firstn n chain))) n.
  Proof.
    destruct Hwf as [Hne Hw].
    induction n as [|n IH]; intros c Hn Hst Ha Hx; unfold prefix_state.
    - assert (E0 : Nat.eqb 0 (List.length chain) = false) by (destruct chain; [contradiction|reflexivity]).
      rewrite E0. cbn [firstn map run fold_left]. repeat split; auto.
    - assert (Hn' : (n <= List.length chain)%nat) by lia. specialize (IH c Hn' Hst Ha Hx). unfold prefix_state in IH.
      replace (Nat.eqb n (List.length chain)) with false in IH by (symmetry; apply Nat.eqb_neq; lia).
      rewrite (firstn_snoc n Hn), map_app. unfold run in *. rewrite fold_left_app.
      set (r := fold_left (client_step start) (map Seg (firstn n chain)) c) in *.
      destruct IH as [I1 [I2 [I3 [I4 [I5 I6]]]]].
      destruct (Hw n ltac:(lia)) as [Hid Hnx]. fold d in Hid, Hnx.
      cbn [map fold_left]. unfold client_step. rewrite I1, I5, Hid, Z.eqb_refl, Hnx.
      assert (Hacc : acc r ++ [dat (nth n chain d)] = map dat (firstn (S n) chain))
        by (rewrite I6; unfold d; apply firstn_S_map; lia).
      rewrite Hacc.
      destruct (Nat.eqb (S n) (List.length chain)) eqn:El.
      + apply Nat.eqb_eq in El. rewrite El, firstn_all. cbn. rewrite I2. repeat split; auto.
      + replace (Z.of_nat (S n) =? 0) with false by (symmetry; apply Z.eqb_neq; lia).
        cbn [st blk sends left expected acc]. repeat split; auto. rewrite <- (firstn_snoc n Hn). reflexivity.
  Qed.

  Theorem fault_free_succeeds : (0 < retries)%nat ->
    let r := run start (init retries b0) (map Seg chain) in st r = Installed /\ blk r = target /\ sends r = 1%nat.
  Proof.
    intros Hr. destruct retries as [|rt] eqn:Er; [lia|].
    pose proof (in_order_prefix (List.length chain) (init (S rt) b0) (le_n _) eq_refl eq_refl eq_refl) as H.
    unfold prefix_state in H. rewrite Nat.eqb_refl, firstn_all in H. exact H.
  Qed.

  (* ---------------- threaded ---------------- *)
  Definition SInv (c : cst) : Prop :=
    (sends c + left c = S retries)%nat /\
    match st c with
    | Running => blk c = b0 /\ Acc c
    | Installed => blk c = target
    | Failed => blk c = b0
    end.

  Lemma sync_step_inv c e : SInv c -> from_chain chain e -> SInv (sync_step start c e).
  Proof.
    intros [H1 HI] He. unfold sync_step. destruct (st c) eqn:Est; [|unfold SInv; rewrite Est; auto|unfold SInv; rewrite Est; auto].
    destruct HI as [Hb HA]. destruct e as [s|].
    - destruct (expected c =? idx s) eqn:E.
      + apply Z.eqb_eq in E. destruct (seg_in_sequence c s HA He E) as [[Hz Hacc]|[Hnz [k [Hk [Hn Hacc]]]]].
        * rewrite Hz. simpl. unfold SInv; simpl. split; [lia|]. rewrite Hacc, Hb. reflexivity.
        * destruct (nxt s =? 0) eqn:Ez; [apply Z.eqb_eq in Ez; contradiction|].
          unfold SInv; simpl. repeat split; auto. exists k. auto.
      + destruct (nxt s =? 0).
        * destruct (left c) eqn:El; unfold SInv; simpl; (split; [lia|split; [auto|apply acc_zero; reflexivity]]).
        * unfold SInv. rewrite Est. auto.
    - destruct (left c) eqn:El; unfold SInv; simpl; (split; [lia|]); auto.
  Qed.

  Theorem sync_safe es : Forall (from_chain chain) es -> SInv (sync_run start (sync_init retries b0) es).
  Proof.
    intros HF. unfold sync_run.
    assert (H0 : SInv (sync_init retries b0)).
    { unfold SInv, sync_init; simpl. split; [lia|]. split; auto. apply acc_zero; reflexivity. }
    revert H0. generalize (sync_init retries b0). induction HF as [|e es He HF IH]; simpl; intros c Hc; auto.
    apply IH. now apply sync_step_inv.
  Qed.

  Corollary sync_all_or_nothing es : Forall (from_chain chain) es ->
    let r := sync_run start (sync_init retries b0) es in
    (sends r <= S retries)%nat /\ (st r = Installed -> blk r = target) /\ (st r <> Installed -> blk r = b0).
  Proof. intros HF r. pose proof (sync_safe es HF) as [H2 H3]. fold r in H2, H3. split; [lia|].
    destruct (st r); split; intros; try congruence; tauto. Qed.
End Safety.

(* ---------------- the simulator's chain ---------------- *)
Lemma chain_from_length blk s k i c : List.length (chain_from blk s k i c) = k.
Proof. revert s i. induction k as [|k IH]; intros s i; cbn [chain_from List.length]; [reflexivity|]. now rewrite IH. Qed.

Lemma chain_from_nth blk c : forall k s i j, (j < k)%nat ->
  nth j (chain_from blk s k i c) (mkSeg 0 0 []) =
  mkSeg (i + Z.of_nat j) ((i + Z.of_nat j + 1) mod c)
        (slice blk (Z.to_nat (s + SEG * Z.of_nat j)) (Z.to_nat (Z.min SEG (Z.of_nat (List.length blk) - (s + SEG * Z.of_nat j))))).
Proof.
  induction k as [|k IH]; intros s i j Hj; [lia|]. cbn [chain_from]. destruct j as [|j].
  - cbn [nth]. rewrite Z.mul_0_r, !Z.add_0_r. reflexivity.
  - cbn [nth]. rewrite IH by lia. unfold SEG.
    assert (E1 : i + 1 + Z.of_nat j = i + Z.of_nat (S j)) by lia.
    assert (E2 : s + 39 + 39 * Z.of_nat j = s + 39 * Z.of_nat (S j)) by lia.
    rewrite E1, E2. reflexivity.
Qed.

Lemma firstn_add_skipn {A} (a c : nat) (l : list A) : firstn a l ++ firstn c (skipn a l) = firstn (a + c) l.
Proof. revert l. induction a as [|a IH]; intros l; [reflexivity|]. destruct l; [cbn; now rewrite firstn_nil|]. cbn. f_equal. apply IH. Qed.
Lemma skipn_add {A} (a s : nat) (l : list A) : skipn a (skipn s l) = skipn (s + a) l.
Proof. revert l. induction s as [|s IH]; intros l; [reflexivity|]. destruct l; [cbn; now rewrite skipn_nil|]. cbn. apply IH. Qed.
Lemma slice_app b s a c : slice b s a ++ slice b (s + a) c = slice b s (a + c).
Proof. unfold slice. rewrite <- skipn_add. apply firstn_add_skipn. Qed.
Lemma slice_clip b s n : (List.length b - s <= n)%nat -> slice b s n = skipn s b.
Proof. intros H. unfold slice. apply firstn_all2. rewrite skipn_length. lia. Qed.

Lemma concat_chain_from blk c : forall k s i, 0 <= s ->
  concat (map dat (chain_from blk s k i c)) =
  slice blk (Z.to_nat s) (Z.to_nat (Z.min (SEG * Z.of_nat k) (Z.of_nat (List.length blk) - s))).
Proof.
  unfold SEG. induction k as [|k IH]; intros s i Hs.
  - cbn [chain_from map concat Z.of_nat].
    replace (Z.to_nat (Z.min (39 * 0) (Z.of_nat (List.length blk) - s))) with 0%nat by lia.
    unfold slice. reflexivity.
  - cbn [chain_from map concat dat]. rewrite IH by (unfold SEG; lia). unfold SEG.
    set (L := Z.of_nat (List.length blk)).
    destruct (Z.le_gt_cases (L - s) 39) as [Hle|Hgt].
    + (* the first slice already reaches the end of the block *)
      rewrite (Z.min_r 39 (L - s)) by lia.
      replace (Z.to_nat (Z.min (39 * Z.of_nat k) (L - (s + 39)))) with 0%nat by lia.
      replace (Z.to_nat (Z.min (39 * Z.of_nat (S k)) (L - s))) with (Z.to_nat (L - s)) by lia.
      unfold slice at 2. cbn [firstn]. now rewrite app_nil_r.
    + rewrite (Z.min_l 39 (L - s)) by lia.
      replace (Z.to_nat (s + 39)) with (Z.to_nat s + Z.to_nat 39)%nat by lia.
      rewrite slice_app. f_equal. lia.
Qed.

Definition seg_count (len : Z) : Z := (len + SEG - 1) / SEG.

Theorem sim_chain_wf blk start len : 0 < len -> wf_chain (sim_chain blk start len).
Proof.
  intros Hl. unfold sim_chain. fold (seg_count len). set (c := seg_count len).
  assert (Hc : 1 <= c) by (unfold c, seg_count, SEG; apply Z.div_le_lower_bound; lia).
  split.
  - intros E. apply (f_equal (@List.length seg)) in E. rewrite chain_from_length in E. cbn in E. lia.
  - rewrite chain_from_length. intros i Hi. rewrite chain_from_nth by exact Hi. cbn [idx nxt]. split; [lia|].
    destruct (Nat.eqb (S i) (Z.to_nat c)) eqn:E.
    + apply Nat.eqb_eq in E. replace (0 + Z.of_nat i + 1) with c by lia. apply Z.mod_same. lia.
    + apply Nat.eqb_neq in E. rewrite Z.mod_small by lia. lia.
Qed.

Theorem sim_chain_concat blk start len : 0 <= start -> 0 < len ->
  concat (map dat (sim_chain blk start len)) =
  slice blk (Z.to_nat start) (Z.to_nat (Z.min (SEG * seg_count len) (Z.of_nat (List.length blk) - start))).
Proof.
  intros Hs Hl. unfold sim_chain. fold (seg_count len). rewrite concat_chain_from by exact Hs.
  assert (Hc : 1 <= seg_count len) by (unfold seg_count, SEG; apply Z.div_le_lower_bound; lia).
  rewrite Z2Nat.id by lia. reflexivity.
Qed.

Lemma seg_count_covers len : 0 < len -> len <= SEG * seg_count len.
Proof. intros H. unfold seg_count, SEG. pose proof (Z.div_mod (len + 39 - 1) 39 ltac:(lia)).
  pose proof (Z.mod_pos_bound (len + 39 - 1) 39 ltac:(lia)). lia. Qed.

(* the block a successful transfer installs: requested bytes are the spa's, every other byte is either
   untouched or the spa's *)
Theorem installed_bytes spa b0 start len :
  List.length spa = List.length b0 -> 0 <= start -> 0 < len -> start + len <= Z.of_nat (List.length spa) ->
  let target := splice b0 (Z.to_nat start) (concat (map dat (sim_chain spa start len))) in
  List.length target = List.length b0 /\
  forall i, (i < List.length b0)%nat ->
    (start <= Z.of_nat i < start + len -> nth i target 0 = nth i spa 0) /\
    (nth i target 0 = nth i b0 0 \/ nth i target 0 = nth i spa 0).
Proof.
  intros HL Hs Hl Hin target. unfold target. rewrite sim_chain_concat by assumption.
  set (m := Z.to_nat (Z.min (SEG * seg_count len) (Z.of_nat (List.length spa) - start))).
  pose proof (seg_count_covers len Hl) as Hcov.
  assert (Hm : (Z.to_nat len <= m)%nat) by (unfold m; lia).
  assert (Hm2 : (Z.to_nat start + m <= List.length spa)%nat) by (unfold m; lia).
  assert (Hsl : List.length (slice spa (Z.to_nat start) m) = m) by (apply slice_length; exact Hm2).
  split.
  - apply splice_length. rewrite Hsl. lia.
  - intros i Hi.
    destruct (Nat.lt_ge_cases i (Z.to_nat start)) as [Hlt|Hge].
    + split; [lia|]. left. apply splice_nth_before; lia.
    + destruct (Nat.lt_ge_cases i (Z.to_nat start + m)) as [Hlt2|Hge2].
      * assert (E : nth i (splice b0 (Z.to_nat start) (slice spa (Z.to_nat start) m)) 0 = nth i spa 0).
        { rewrite splice_nth_inside by (rewrite ?Hsl; lia). rewrite slice_nth by lia. f_equal. lia. }
        split; [intros _; exact E|right; exact E].
      * split; [lia|]. left. apply splice_nth_after; rewrite ?Hsl; lia.
Qed.
