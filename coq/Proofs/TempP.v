(* C14: complete finite sweeps through the kernel's binary64 arithmetic. *)
From Coq Require Import ZArith List Bool Lia PrimFloat Uint63 FloatOps SpecFloat.
Require Import GV.Model.Temp.
Import ListNotations.

Lemma upto_In n : forall z r, (z <= r < z + Z.of_nat n)%Z -> In r (upto n z).
Proof. induction n; simpl; intros z r H; [lia|]. destruct (Z.eq_dec z r); [left; auto|right; apply IHn; lia]. Qed.
Lemma In_upto n : forall z r, In r (upto n z) -> (z <= r < z + Z.of_nat n)%Z.
Proof. induction n; simpl; intros z r H; [destruct H|]. destruct H as [H|H]; [lia|]. apply IHn in H. lia. Qed.

(* 1. every raw word reads back exactly, both units *)
Definition rt_ok (u : unit) (r : Z) : bool := match set_temp u (get_temp u r) with Some r' => Z.eqb r r' | None => false end.
Lemma roundtrip_sweep : forallb (fun r => rt_ok UC r && rt_ok UF r) all_words = true.
Proof. vm_compute. reflexivity. Qed.
Lemma roundtrip u r : (0 <= r < 65536)%Z -> set_temp u (get_temp u r) = Some r.
Proof.
  intros H. assert (Hin : In r all_words) by (apply upto_In; lia).
  pose proof (proj1 (forallb_forall _ _) roundtrip_sweep r Hin) as Hr. apply andb_prop in Hr. destruct Hr as [A B].
  unfold rt_ok in A, B. destruct u.
  - destruct (set_temp UC (get_temp UC r)); [|discriminate]. apply Z.eqb_eq in A. now subst.
  - destruct (set_temp UF (get_temp UF r)); [|discriminate]. apply Z.eqb_eq in B. now subst.
Qed.

(* 2. presentation is strictly increasing in the raw word (adjacent words, complete domain) *)
Definition mono_ok (u : unit) (r : Z) : bool := (get_temp u r <? get_temp u (r + 1))%float.
Lemma get_monotone_sweep : forallb (fun r => mono_ok UC r && mono_ok UF r) (upto (Z.to_nat 65535) 0%Z) = true.
Proof. vm_compute. reflexivity. Qed.

(* 3. decimal temperatures k/100, 0 <= k <= 20000: the written word is within one device step of the exact
      value and the order of values is preserved *)
Definition within_step (u : unit) (k : Z) : bool :=
  match set_temp u (dec100 k) with
  | Some r => match u with
              | UC => (-100 <? 100 * r - 18 * k)%Z && (100 * r - 18 * k <? 100)%Z        (* |r - 18k/100| < 1 *)
              | UF => (-100 <? 100 * r - (10 * k - 32000))%Z && (100 * r - (10 * k - 32000) <? 100)%Z
              end
  | None => false end.
Definition order_kept (u : unit) (k : Z) : bool :=
  match set_temp u (dec100 k), set_temp u (dec100 (k + 1)) with Some a, Some b => (a <=? b)%Z | _, _ => false end.
Lemma grid_sweep : forallb (fun k => within_step UC k && within_step UF k && order_kept UC k && order_kept UF k) grid = true.
Proof. vm_compute. reflexivity. Qed.

(* adjacent order preservation gives order preservation for all pairs of the grid *)
Lemma set_on_grid u k : (0 <= k <= 20001)%Z -> exists r, set_temp u (dec100 k) = Some r.
Proof.
  intros H. destruct (Z.eq_dec k 20001) as [->|Hn].
  - assert (Hin : In 20000%Z grid) by (apply upto_In; lia).
    pose proof (proj1 (forallb_forall _ _) grid_sweep _ Hin) as G.
    repeat (apply andb_prop in G; destruct G as [G ?]). unfold order_kept in *.
    destruct u; [destruct (set_temp UC (dec100 20000)); [|discriminate]; destruct (set_temp UC (dec100 (20000 + 1))) eqn:E; [eauto|discriminate]
                |destruct (set_temp UF (dec100 20000)); [|discriminate]; destruct (set_temp UF (dec100 (20000 + 1))) eqn:E; [eauto|discriminate]].
  - assert (Hin : In k grid) by (apply upto_In; lia).
    pose proof (proj1 (forallb_forall _ _) grid_sweep _ Hin) as G.
    repeat (apply andb_prop in G; destruct G as [G ?]). unfold order_kept in *.
    destruct u; [destruct (set_temp UC (dec100 k)); [eauto|discriminate]|destruct (set_temp UF (dec100 k)); [eauto|discriminate]].
Qed.

Lemma order_step u k a b : (0 <= k <= 20000)%Z -> set_temp u (dec100 k) = Some a -> set_temp u (dec100 (k + 1)) = Some b -> (a <= b)%Z.
Proof.
  intros H Ha Hb. assert (Hin : In k grid) by (apply upto_In; lia).
  pose proof (proj1 (forallb_forall _ _) grid_sweep _ Hin) as G.
  repeat (apply andb_prop in G; destruct G as [G ?]). unfold order_kept in *.
  destruct u; rewrite Ha, Hb in *; apply Z.leb_le; assumption.
Qed.

Lemma set_monotone u : forall n k a b, (0 <= k)%Z -> (k + Z.of_nat n <= 20001)%Z ->
  set_temp u (dec100 k) = Some a -> set_temp u (dec100 (k + Z.of_nat n)) = Some b -> (a <= b)%Z.
Proof.
  induction n as [|n IH]; intros k a b Hk Hn Ha Hb.
  - rewrite Z.add_0_r in Hb. rewrite Ha in Hb. inversion Hb. lia.
  - destruct (set_on_grid u (k + Z.of_nat n) ltac:(lia)) as [c Hc].
    pose proof (IH k a c Hk ltac:(lia) Ha Hc) as H1.
    replace (k + Z.of_nat (S n))%Z with (k + Z.of_nat n + 1)%Z in Hb by lia.
    pose proof (order_step u (k + Z.of_nat n) c b ltac:(lia) Hc Hb). lia.
Qed.

(* 4. limits: the same two temperatures in both units, exactly representable on the device *)
Lemma limits_consistent :
  set_temp UC (fl 15) = Some 270%Z /\ get_temp UF (270 + 0) = fl 59 /\
  set_temp UC (fl 40) = Some 720%Z /\ get_temp UF 720 = fl 104 /\
  set_temp UF (fl 59) = Some 270%Z /\ set_temp UF (fl 104) = Some 720%Z.
Proof. vm_compute. repeat split; reflexivity. Qed.

(* 5. operation ladder *)
Lemma operation_flags h c cur tgt :
  current_operation (Some h) (Some c) cur tgt = if h then Heating else if c then Cooling else Idle.
Proof. reflexivity. Qed.
Lemma operation_one_flag_on cur tgt :
  current_operation (Some true) None cur tgt = Heating /\ current_operation None (Some true) cur tgt = Cooling.
Proof. split; reflexivity. Qed.
Lemma operation_by_temperature heat cool cur tgt :
  (heat = None \/ cool = None) -> heat <> Some true -> cool <> Some true ->
  current_operation heat cool cur tgt =
    if (cur <? tgt)%float then Heating else if (tgt <? cur)%float then Cooling else Idle.
Proof. intros H Hh Hc. destruct heat as [[|]|], cool as [[|]|]; try reflexivity; try contradiction; destruct H; discriminate. Qed.
